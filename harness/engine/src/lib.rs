//! Shared engine for the property drivers: argument handling, counters, evidence,
//! known findings, replay files, parallel exhaustive enumeration, BFS over operation
//! sequences, quiet `catch_unwind`.
//!
//! Exit codes: 0 held (possibly with KNOWN-FINDING lines), 1 violation, 2 machinery error.

pub mod seams;
pub mod thrsched;

use serde::Serialize;
use serde_json::{Value, json};
use std::collections::{BTreeMap, BTreeSet, HashSet, VecDeque};
use std::hash::Hash;
use std::panic::{AssertUnwindSafe, catch_unwind};
use std::path::PathBuf;
use std::sync::atomic::{AtomicU64, AtomicUsize, Ordering};
use std::sync::{Mutex, Once};
use std::time::Instant;

/// Root of the verification tree (evidence/, replays/, known_findings.json). `VERIF_ROOT` overrides
/// it so that scratch copies of the harness do not write into /verif.
pub fn verif_root() -> String {
    std::env::var("VERIF_ROOT").unwrap_or_else(|_| "/verif".to_string())
}

#[derive(Clone, Copy, PartialEq, Eq, Debug)]
pub enum Tier {
    Quick,
    Thorough,
}

#[derive(Clone, Copy, PartialEq, Eq, Debug)]
pub enum Level {
    Exploration,
    FaultEnumeration,
    ModelChecking,
}

impl Level {
    fn as_str(&self) -> &'static str {
        match self {
            Level::Exploration => "exploration",
            Level::FaultEnumeration => "fault_enumeration",
            Level::ModelChecking => "model_checking",
        }
    }
}

#[derive(Debug, Clone, serde::Deserialize)]
struct KnownFinding {
    property: String,
    key: String,
    #[serde(default)]
    what: String,
    #[serde(default)]
    status: String, // "open" | "fixed"
}

/// Shared, thread-safe run context.
pub struct Ctx {
    pub id: String,
    pub tier: Tier,
    pub seed: u64,
    pub level: Level,
    pub replay: Option<PathBuf>,
    start: Instant,
    evaluations: AtomicU64,
    states: AtomicU64,
    transitions: AtomicU64,
    traces: AtomicU64,
    violations: AtomicU64,
    inner: Mutex<Inner>,
    known: Vec<KnownFinding>,
    min_outcomes: AtomicUsize,
}

#[derive(Default)]
struct Inner {
    distinct: BTreeSet<String>,
    outcome_hist: BTreeMap<String, u64>,
    samples: Vec<Value>,
    sample_keys: BTreeSet<String>,
    known_printed: BTreeMap<String, u64>,
    violation_keys: BTreeSet<String>,
    bounds: BTreeMap<String, Value>,
    caps: Vec<String>,
    assumptions: Vec<String>,
    rule: String,
    extra: BTreeMap<String, Value>,
    exhaustive: bool,
}

static QUIET: Once = Once::new();
thread_local! {
    static LAST_PANIC: std::cell::RefCell<Option<String>> = const { std::cell::RefCell::new(None) };
    static QUIET_DEPTH: std::cell::Cell<u32> = const { std::cell::Cell::new(0) };
}

fn install_quiet_hook() {
    QUIET.call_once(|| {
        let prev = std::panic::take_hook();
        std::panic::set_hook(Box::new(move |info| {
            let quiet = QUIET_DEPTH.with(|d| d.get()) > 0;
            let msg = format!("{info}");
            LAST_PANIC.with(|l| *l.borrow_mut() = Some(msg));
            if !quiet && std::env::var_os("VERIF_QUIET_ALL").is_none() {
                prev(info);
            }
        }));
    });
}

/// Run `f`, converting a panic into `Err(message)` without printing it.
pub fn quiet_catch<T>(f: impl FnOnce() -> T) -> Result<T, String> {
    install_quiet_hook();
    QUIET_DEPTH.with(|d| d.set(d.get() + 1));
    let r = catch_unwind(AssertUnwindSafe(f));
    QUIET_DEPTH.with(|d| d.set(d.get() - 1));
    match r {
        Ok(v) => Ok(v),
        Err(e) => {
            let from_hook = LAST_PANIC.with(|l| l.borrow_mut().take());
            let msg = from_hook.unwrap_or_else(|| {
                if let Some(s) = e.downcast_ref::<&str>() {
                    s.to_string()
                } else if let Some(s) = e.downcast_ref::<String>() {
                    s.clone()
                } else {
                    "panic".to_string()
                }
            });
            Err(msg)
        }
    }
}

/// Make panics on *all* threads silent (for harnesses spawning helper threads / tasks).
pub fn silence_all_panics() {
    install_quiet_hook();
    // SAFETY: single-threaded at the point of call in drivers (start of main).
    unsafe { std::env::set_var("VERIF_QUIET_ALL", "1") };
}

impl Ctx {
    pub fn from_args(id: &str, level: Level) -> Ctx {
        let mut tier = match std::env::var("VERIF_TIER").ok().as_deref() {
            Some("thorough") => Tier::Thorough,
            _ => Tier::Quick,
        };
        let mut replay = None;
        let args: Vec<String> = std::env::args().collect();
        let mut i = 1;
        while i < args.len() {
            match args[i].as_str() {
                "--tier" => {
                    i += 1;
                    tier = match args.get(i).map(|s| s.as_str()) {
                        Some("thorough") => Tier::Thorough,
                        Some("quick") => Tier::Quick,
                        other => machinery_error(&format!("bad --tier {other:?}")),
                    };
                }
                "--replay" => {
                    i += 1;
                    replay = Some(PathBuf::from(
                        args.get(i).unwrap_or_else(|| machinery_error("--replay needs a path")),
                    ));
                }
                other => machinery_error(&format!("unknown argument {other}")),
            }
            i += 1;
        }
        let seed = std::env::var("VERIF_SEED").ok().and_then(|s| s.parse().ok()).unwrap_or(0);
        let known: Vec<KnownFinding> = match std::fs::read_to_string(format!("{}/known_findings.json", verif_root())) {
            Ok(s) => {
                let v: Value = serde_json::from_str(&s).unwrap_or_else(|e| machinery_error(&format!("known_findings.json: {e}")));
                serde_json::from_value(v["findings"].clone()).unwrap_or_else(|e| machinery_error(&format!("known_findings.json: {e}")))
            }
            Err(_) => vec![],
        };
        install_quiet_hook();
        Ctx {
            id: id.to_string(),
            tier,
            seed,
            level,
            replay,
            start: Instant::now(),
            evaluations: AtomicU64::new(0),
            states: AtomicU64::new(0),
            transitions: AtomicU64::new(0),
            traces: AtomicU64::new(0),
            violations: AtomicU64::new(0),
            inner: Mutex::new(Inner { exhaustive: true, ..Default::default() }),
            known,
            min_outcomes: AtomicUsize::new(2),
        }
    }

    pub fn thorough(&self) -> bool {
        self.tier == Tier::Thorough
    }
    /// pick by tier
    pub fn pick<T>(&self, quick: T, thorough: T) -> T {
        if self.thorough() { thorough } else { quick }
    }

    pub fn set_rule(&self, rule: &str) {
        self.inner.lock().unwrap().rule = rule.to_string();
    }
    pub fn add_rule(&self, rule: &str) {
        let mut g = self.inner.lock().unwrap();
        if !g.rule.is_empty() {
            g.rule.push_str(" | ");
        }
        g.rule.push_str(rule);
    }
    pub fn assume(&self, a: &str) {
        self.inner.lock().unwrap().assumptions.push(a.to_string());
    }
    pub fn bound(&self, k: &str, v: impl Serialize) {
        self.inner.lock().unwrap().bounds.insert(k.to_string(), serde_json::to_value(v).unwrap());
    }
    pub fn extra(&self, k: &str, v: impl Serialize) {
        self.inner.lock().unwrap().extra.insert(k.to_string(), serde_json::to_value(v).unwrap());
    }
    /// A cap was hit: the run is not exhaustive for the named sub-space.
    pub fn cap_hit(&self, what: &str) {
        let mut g = self.inner.lock().unwrap();
        g.caps.push(what.to_string());
        g.exhaustive = false;
    }
    pub fn min_outcomes(&self, n: usize) {
        self.min_outcomes.store(n, Ordering::Relaxed);
    }

    /// Record one evaluated case: `class` is the reference model's partition of the input,
    /// `outcome` the observed outcome class. Distinct (class,outcome) pairs are counted.
    pub fn eval(&self, class: &str, outcome: &str) {
        self.evaluations.fetch_add(1, Ordering::Relaxed);
        let key = format!("{class} => {outcome}");
        let mut g = self.inner.lock().unwrap();
        *g.outcome_hist.entry(key.clone()).or_insert(0) += 1;
        g.distinct.insert(key);
    }
    /// Cheap variant for hot loops: count many evaluations of one class at once.
    pub fn eval_n(&self, class: &str, outcome: &str, n: u64) {
        self.evaluations.fetch_add(n, Ordering::Relaxed);
        let key = format!("{class} => {outcome}");
        let mut g = self.inner.lock().unwrap();
        *g.outcome_hist.entry(key.clone()).or_insert(0) += n;
        g.distinct.insert(key);
    }
    pub fn add_states(&self, n: u64) {
        self.states.fetch_add(n, Ordering::Relaxed);
    }
    pub fn add_transitions(&self, n: u64) {
        self.transitions.fetch_add(n, Ordering::Relaxed);
    }
    pub fn add_traces(&self, n: u64) {
        self.traces.fetch_add(n, Ordering::Relaxed);
    }
    /// Keep a sample (first one per `kind`, up to 12 kinds).
    pub fn sample(&self, kind: &str, v: impl Serialize) {
        let mut g = self.inner.lock().unwrap();
        if g.sample_keys.len() >= 12 || g.sample_keys.contains(kind) {
            return;
        }
        g.sample_keys.insert(kind.to_string());
        g.samples.push(json!({"kind": kind, "case": serde_json::to_value(v).unwrap()}));
    }

    /// Report a discrepancy between the implementation and the oracle.
    ///
    /// `finding_key`: `Some(k)` when the driver has established that the observed behaviour equals
    /// "reference model + named deviation k"; the case is then attributed to the known finding `k`
    /// if (and only if) known_findings.json lists it as open for this property.
    pub fn discrepancy(&self, finding_key: Option<&str>, what: &str, replay_case: impl Serialize) {
        if let Some(k) = finding_key {
            if let Some(f) = self.known.iter().find(|f| f.property == self.id && f.key == k && f.status != "fixed") {
                let mut g = self.inner.lock().unwrap();
                let n = g.known_printed.entry(k.to_string()).or_insert(0);
                if *n == 0 {
                    println!("KNOWN-FINDING: property={} {} [{}] e.g. {}", self.id, f.what, k, what);
                }
                *n += 1;
                return;
            }
        }
        let n = self.violations.fetch_add(1, Ordering::SeqCst);
        let vkey = finding_key.unwrap_or("unclassified").to_string();
        let mut g = self.inner.lock().unwrap();
        // one replay file + one VIOLATION line per deviation key (first three unclassified ones)
        let count_for_key = g.violation_keys.iter().filter(|k| k.starts_with(&vkey)).count();
        if count_for_key >= if finding_key.is_some() { 1 } else { 3 } {
            return;
        }
        g.violation_keys.insert(format!("{vkey}#{n}"));
        drop(g);
        let dir = format!("{}/replays/{}", verif_root(), self.id);
        let _ = std::fs::create_dir_all(&dir);
        let path = format!("{dir}/violation-{vkey}-{n}.json");
        let body = json!({"property": self.id, "key": vkey, "what": what, "case": serde_json::to_value(replay_case).unwrap()});
        if self.replay.is_none() {
            let _ = std::fs::write(&path, serde_json::to_string_pretty(&body).unwrap());
        }
        println!("VIOLATION property={} replay={} :: {}", self.id, path, what);
    }

    pub fn violations(&self) -> u64 {
        self.violations.load(Ordering::SeqCst)
    }

    /// Load the case stored in the replay file, if `--replay` was given.
    pub fn replay_case<T: serde::de::DeserializeOwned>(&self) -> Option<T> {
        let p = self.replay.as_ref()?;
        let s = std::fs::read_to_string(p).unwrap_or_else(|e| machinery_error(&format!("replay file: {e}")));
        let v: Value = serde_json::from_str(&s).unwrap_or_else(|e| machinery_error(&format!("replay file: {e}")));
        Some(serde_json::from_value(v["case"].clone()).unwrap_or_else(|e| machinery_error(&format!("replay case: {e}"))))
    }

    /// Write evidence and exit.
    pub fn finish(&self) -> ! {
        let g = self.inner.lock().unwrap();
        let wall = self.start.elapsed().as_secs_f64();
        let viol = self.violations();
        let distinct = g.distinct.len();
        if self.replay.is_none() {
            if viol == 0 && distinct < self.min_outcomes.load(Ordering::Relaxed) {
                drop(g);
                machinery_error(&format!(
                    "vacuous exploration: only {distinct} distinct (class,outcome) pairs, driver requires {}",
                    self.min_outcomes.load(Ordering::Relaxed)
                ));
            }
            let mut coverage = serde_json::Map::new();
            let evals = self.evaluations.load(Ordering::Relaxed);
            coverage.insert("evaluations".into(), json!(evals));
            coverage.insert("distinct_nontrivial".into(), json!(distinct));
            coverage.insert("rule".into(), json!(g.rule));
            let mut samples = g.samples.clone();
            if samples.is_empty() {
                samples.push(json!({"kind":"outcome-classes","case": g.distinct.iter().take(5).collect::<Vec<_>>()}));
            }
            coverage.insert("samples".into(), json!(samples));
            coverage.insert("exhaustive".into(), json!(g.exhaustive));
            if self.level == Level::ModelChecking {
                coverage.insert("states".into(), json!(self.states.load(Ordering::Relaxed).max(1)));
                coverage.insert("transitions".into(), json!(self.transitions.load(Ordering::Relaxed).max(1)));
                coverage.insert("traces_validated_against_impl".into(), json!(self.traces.load(Ordering::Relaxed)));
                coverage.insert(
                    "explanation".into(),
                    json!("every transition is an execution of the real implementation; traces_validated_against_impl counts executions"),
                );
            }
            coverage.insert("bounds".into(), json!(g.bounds));
            coverage.insert("caps_hit".into(), json!(g.caps));
            // top outcome classes (up to 40) so a reader can see that things collided
            let mut hist: Vec<(&String, &u64)> = g.outcome_hist.iter().collect();
            hist.sort_by(|a, b| b.1.cmp(a.1));
            coverage.insert(
                "outcome_histogram".into(),
                json!(hist.iter().take(40).map(|(k, v)| json!({"class_outcome": k, "count": v})).collect::<Vec<_>>()),
            );
            coverage.insert(
                "known_findings_hit".into(),
                json!(g.known_printed.iter().map(|(k, v)| json!({"key":k,"cases":v})).collect::<Vec<_>>()),
            );
            for (k, v) in &g.extra {
                coverage.insert(k.clone(), v.clone());
            }
            let ev = json!({
                "property_id": self.id,
                "tier": if self.thorough() {"thorough"} else {"quick"},
                "seed": self.seed,
                "level": self.level.as_str(),
                "coverage": coverage,
                "assumptions": g.assumptions,
                "wall_s": wall,
                "violations": viol,
            });
            let _ = std::fs::create_dir_all(format!("{}/evidence", verif_root()));
            let path = format!("{}/evidence/{}.json", verif_root(), self.id);
            std::fs::write(&path, serde_json::to_string_pretty(&ev).unwrap())
                .unwrap_or_else(|e| machinery_error(&format!("cannot write evidence: {e}")));
        }
        println!(
            "[{}] tier={:?} evaluations={} states={} transitions={} distinct_outcomes={} known_finding_cases={} violations={} wall={:.1}s",
            self.id,
            self.tier,
            self.evaluations.load(Ordering::Relaxed),
            self.states.load(Ordering::Relaxed),
            self.transitions.load(Ordering::Relaxed),
            distinct,
            g.known_printed.values().sum::<u64>(),
            viol,
            wall
        );
        use std::io::Write;
        let _ = std::io::stdout().flush();
        std::process::exit(if viol > 0 { 1 } else { 0 });
    }
}

pub fn machinery_error(msg: &str) -> ! {
    eprintln!("MACHINERY-ERROR: {msg}");
    use std::io::Write;
    let _ = std::io::stdout().flush();
    std::process::exit(2);
}

pub fn workers() -> usize {
    std::env::var("VERIF_JOBS").ok().and_then(|s| s.parse().ok()).unwrap_or_else(|| {
        std::thread::available_parallelism().map(|n| n.get()).unwrap_or(4)
    })
}

/// Exhaustively evaluate `f` on every case of `cases` using all cores.
pub fn par_for_each<C: Sync, F: Fn(&C) + Sync>(cases: &[C], f: F) {
    let next = AtomicUsize::new(0);
    let n = workers().min(cases.len().max(1));
    std::thread::scope(|s| {
        for _ in 0..n {
            s.spawn(|| {
                loop {
                    let i = next.fetch_add(1, Ordering::Relaxed);
                    if i >= cases.len() {
                        break;
                    }
                    f(&cases[i]);
                }
            });
        }
    });
}

/// Exhaustive parallel evaluation over an index range (for spaces too big to materialise).
pub fn par_for_range<F: Fn(u64) + Sync>(n: u64, chunk: u64, f: F) {
    let next = AtomicU64::new(0);
    let w = workers();
    std::thread::scope(|s| {
        for _ in 0..w {
            s.spawn(|| {
                loop {
                    let lo = next.fetch_add(chunk, Ordering::Relaxed);
                    if lo >= n {
                        break;
                    }
                    for i in lo..(lo + chunk).min(n) {
                        f(i);
                    }
                }
            });
        }
    });
}

/// Result of applying one more operation to a history.
pub struct Step<K> {
    /// canonical key of the state reached (drives de-duplication)
    pub key: K,
    /// false → do not expand below this state (terminal / error)
    pub expand: bool,
}

/// Breadth-first search over operation histories with re-execution.
///
/// `exec(history)` builds a fresh real object, replays the whole history against implementation
/// and reference model, checks the oracle (reporting via ctx), and returns the canonical key of
/// the reached state. States with an already-seen key are not expanded further.
pub fn bfs_histories<Op: Clone + Send + Sync, K: Hash + Eq + Send>(
    ctx: &Ctx,
    menu: &(dyn Fn(&[Op]) -> Vec<Op> + Sync),
    exec: &(dyn Fn(&[Op]) -> Option<Step<K>> + Sync),
    max_depth: usize,
    max_states: usize,
) -> (u64, usize) {
    let mut seen: HashSet<K> = HashSet::new();
    let mut frontier: Vec<Vec<Op>> = vec![vec![]];
    if let Some(s) = exec(&[]) {
        seen.insert(s.key);
    }
    ctx.add_states(1);
    let mut depth_done = 0;
    for depth in 1..=max_depth {
        // generate successors
        let mut cands: Vec<Vec<Op>> = Vec::new();
        for h in &frontier {
            for op in menu(h) {
                let mut h2 = h.clone();
                h2.push(op);
                cands.push(h2);
            }
        }
        if cands.is_empty() {
            break;
        }
        let results: Mutex<Vec<(usize, Option<Step<K>>)>> = Mutex::new(Vec::with_capacity(cands.len()));
        let idx: Vec<usize> = (0..cands.len()).collect();
        par_for_each(&idx, |&i| {
            let r = exec(&cands[i]);
            results.lock().unwrap().push((i, r));
        });
        ctx.add_transitions(cands.len() as u64);
        ctx.add_traces(cands.len() as u64);
        let mut results = results.into_inner().unwrap();
        results.sort_by_key(|r| r.0);
        let mut next = Vec::new();
        for (i, r) in results {
            if let Some(step) = r {
                if seen.insert(step.key) {
                    ctx.add_states(1);
                    if step.expand {
                        next.push(cands[i].clone());
                    }
                }
            }
        }
        depth_done = depth;
        frontier = next;
        if frontier.is_empty() {
            break;
        }
        if seen.len() > max_states {
            ctx.cap_hit(&format!("state cap {max_states} reached at depth {depth}"));
            break;
        }
        if ctx.violations() > 0 {
            break;
        }
    }
    ctx.bound("bfs_depth_completed", depth_done);
    (seen.len() as u64, depth_done)
}

/// All sequences of length <= n over `alphabet` (product enumeration, simplest first).
pub fn sequences_up_to<T: Clone>(alphabet: &[T], n: usize) -> Vec<Vec<T>> {
    let mut out = vec![vec![]];
    let mut last = vec![vec![]];
    for _ in 0..n {
        let mut next = Vec::new();
        for s in &last {
            for a in alphabet {
                let mut s2: Vec<T> = s.clone();
                s2.push(a.clone());
                next.push(s2);
            }
        }
        out.extend(next.iter().cloned());
        last = next;
    }
    out
}

/// All permutations of 0..n.
pub fn permutations(n: usize) -> Vec<Vec<usize>> {
    fn rec(cur: &mut Vec<usize>, used: &mut Vec<bool>, n: usize, out: &mut Vec<Vec<usize>>) {
        if cur.len() == n {
            out.push(cur.clone());
            return;
        }
        for i in 0..n {
            if !used[i] {
                used[i] = true;
                cur.push(i);
                rec(cur, used, n, out);
                cur.pop();
                used[i] = false;
            }
        }
    }
    let mut out = Vec::new();
    rec(&mut Vec::new(), &mut vec![false; n], n, &mut out);
    out
}

/// All subsets of 0..n of size <= k.
pub fn subsets_up_to(n: usize, k: usize) -> Vec<Vec<usize>> {
    let mut out = Vec::new();
    for mask in 0u64..(1u64 << n) {
        if (mask.count_ones() as usize) <= k {
            out.push((0..n).filter(|i| mask >> i & 1 == 1).collect());
        }
    }
    out.sort_by_key(|s: &Vec<usize>| s.len());
    out
}

/// All interleavings of per-thread step counts (each element is a thread index sequence).
pub fn interleavings(counts: &[usize]) -> Vec<Vec<usize>> {
    fn rec(rem: &mut Vec<usize>, cur: &mut Vec<usize>, out: &mut Vec<Vec<usize>>) {
        if rem.iter().all(|&c| c == 0) {
            out.push(cur.clone());
            return;
        }
        for t in 0..rem.len() {
            if rem[t] > 0 {
                rem[t] -= 1;
                cur.push(t);
                rec(rem, cur, out);
                cur.pop();
                rem[t] += 1;
            }
        }
    }
    let mut out = Vec::new();
    rec(&mut counts.to_vec(), &mut Vec::new(), &mut out);
    out
}

pub fn hex(b: &[u8]) -> String {
    b.iter().map(|x| format!("{x:02x}")).collect()
}
pub fn unhex(s: &str) -> Vec<u8> {
    (0..s.len() / 2).map(|i| u8::from_str_radix(&s[2 * i..2 * i + 2], 16).unwrap()).collect()
}

/// FIFO work queue helper.
pub type Queue<T> = VecDeque<T>;
