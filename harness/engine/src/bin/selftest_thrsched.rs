//! Self-test of E3: lost update must be found, mutex-protected increment must not; deadlock must be detected.
use std::sync::atomic::{AtomicUsize, Ordering::SeqCst};
use std::sync::{Arc, Mutex};
use vh_engine::thrsched::{self, Body};

fn main() {
    // 1. racy increment: expect outcomes {1,2}
    let mut outcomes = std::collections::BTreeSet::new();
    let (st, _) = thrsched::explore(
        &|| {
            let n = Arc::new(AtomicUsize::new(0));
            let bodies: Vec<Body> = (0..2)
                .map(|_| {
                    let n = n.clone();
                    Box::new(move || {
                        let v = n.load(SeqCst);
                        thrsched::pause("between");
                        n.store(v + 1, SeqCst);
                    }) as Body
                })
                .collect();
            (bodies, n)
        },
        &mut |_x, n| {
            outcomes.insert(n.load(SeqCst));
        },
        None,
        10_000,
    );
    println!("racy: executions={} outcomes={:?}", st.executions, outcomes);
    assert_eq!(outcomes.into_iter().collect::<Vec<_>>(), vec![1, 2]);
    // 2. gate inside a mutex: other thread blocks; always 2
    let mut outcomes = std::collections::BTreeSet::new();
    let (st, _) = thrsched::explore(
        &|| {
            let n = Arc::new(Mutex::new(0usize));
            let bodies: Vec<Body> = (0..3)
                .map(|_| {
                    let n = n.clone();
                    Box::new(move || {
                        let mut g = n.lock().unwrap();
                        let v = *g;
                        thrsched::pause("inside");
                        *g = v + 1;
                    }) as Body
                })
                .collect();
            (bodies, n)
        },
        &mut |x, n| {
            assert!(!x.deadlock);
            outcomes.insert(*n.lock().unwrap());
        },
        None,
        10_000,
    );
    println!("locked: executions={} outcomes={:?}", st.executions, outcomes);
    assert_eq!(outcomes.into_iter().collect::<Vec<_>>(), vec![3]);
    // 3. lock-order inversion: deadlock in some schedules
    let mut deadlocks = 0;
    let (st, _) = thrsched::explore(
        &|| {
            let a = Arc::new(Mutex::new(()));
            let b = Arc::new(Mutex::new(()));
            let (a1, b1, a2, b2) = (a.clone(), b.clone(), a.clone(), b.clone());
            let bodies: Vec<Body> = vec![
                Box::new(move || {
                    let _g = a1.lock().unwrap();
                    thrsched::pause("t0-has-a");
                    let _h = b1.lock().unwrap();
                }),
                Box::new(move || {
                    let _g = b2.lock().unwrap();
                    thrsched::pause("t1-has-b");
                    let _h = a2.lock().unwrap();
                }),
            ];
            (bodies, ())
        },
        &mut |x, _| {
            if x.deadlock {
                deadlocks += 1;
            }
        },
        None,
        10_000,
    );
    println!("inversion: executions={} deadlocks={}", st.executions, deadlocks);
    assert!(deadlocks > 0 && deadlocks < st.executions);
    println!("selftest ok");
}
