//! Controller side of the repo hooks (`iroh_base::verif`): observation log, async gates, owned
//! randomness / clock / random bytes. Everything has a per-thread instance (used by the
//! single-threaded E2 executions that run in parallel on worker threads) and a process-global
//! instance (used by E3/E5 where one execution spans several OS threads and executions are serial).

use std::cell::RefCell;
use std::collections::{HashMap, HashSet, VecDeque};
use std::future::Future;
use std::pin::Pin;
use std::sync::{Arc, Mutex};
use std::task::{Context, Poll, Waker};

#[derive(Default)]
struct GateSlot {
    open: bool,
    waker: Option<Waker>,
}
pub struct GateFut(Arc<Mutex<GateSlot>>);
impl Future for GateFut {
    type Output = ();
    fn poll(self: Pin<&mut Self>, cx: &mut Context<'_>) -> Poll<()> {
        let mut g = self.0.lock().unwrap();
        if g.open {
            Poll::Ready(())
        } else {
            g.waker = Some(cx.waker().clone());
            Poll::Pending
        }
    }
}

#[derive(Default)]
pub struct Registry {
    pub events: Vec<(String, String)>,
    armed: HashSet<String>,
    waiting: HashMap<String, VecDeque<Arc<Mutex<GateSlot>>>>,
    arrivals: HashMap<String, u64>,
    chooser: Option<Box<dyn FnMut(&str, u64) -> Option<u64> + Send>>,
    clock: Option<Box<dyn FnMut(&str, u64) -> u64 + Send>>,
    filler: Option<Box<dyn FnMut(&str, &mut [u8]) + Send>>,
}

thread_local! {
    static LOCAL: RefCell<Option<Registry>> = const { RefCell::new(None) };
}
static GLOBAL: Mutex<Option<Registry>> = Mutex::new(None);

fn with<R>(f: impl FnOnce(&mut Registry) -> R) -> Option<R> {
    let mut f = Some(f);
    let r = LOCAL.with(|l| {
        let mut b = l.borrow_mut();
        b.as_mut().map(|reg| (f.take().unwrap())(reg))
    });
    if r.is_some() {
        return r;
    }
    let mut g = GLOBAL.lock().unwrap();
    g.as_mut().map(|reg| (f.take().unwrap())(reg))
}

/// Start a fresh per-thread registry (E2 executions).
pub fn reset_local() {
    LOCAL.with(|l| *l.borrow_mut() = Some(Registry::default()));
}
pub fn clear_local() {
    LOCAL.with(|l| *l.borrow_mut() = None);
}
/// Start a fresh process-global registry (E3/E5 executions, serial).
pub fn reset_global() {
    *GLOBAL.lock().unwrap() = Some(Registry::default());
}
pub fn clear_global() {
    *GLOBAL.lock().unwrap() = None;
}

// ---- harness-facing API ----
pub fn arm(label: &str) {
    with(|r| {
        r.armed.insert(label.to_string());
    });
}
pub fn disarm(label: &str) {
    with(|r| {
        r.armed.remove(label);
    });
}
/// number of tasks currently parked at the gate
pub fn waiting(label: &str) -> usize {
    with(|r| r.waiting.get(label).map(|q| q.len()).unwrap_or(0)).unwrap_or(0)
}
/// total arrivals at the gate so far
pub fn arrivals(label: &str) -> u64 {
    with(|r| r.arrivals.get(label).copied().unwrap_or(0)).unwrap_or(0)
}
/// release the oldest waiter at the gate; returns false if nobody waits
pub fn release(label: &str) -> bool {
    let slot = with(|r| r.waiting.get_mut(label).and_then(|q| q.pop_front())).flatten();
    match slot {
        Some(s) => {
            let mut g = s.lock().unwrap();
            g.open = true;
            if let Some(w) = g.waker.take() {
                w.wake();
            }
            true
        }
        None => false,
    }
}
/// release the `n`-th oldest waiter at the gate (0 = oldest); returns false if there is no such waiter
pub fn release_nth(label: &str, n: usize) -> bool {
    let slot = with(|r| r.waiting.get_mut(label).and_then(|q| q.remove(n))).flatten();
    match slot {
        Some(s) => {
            let mut g = s.lock().unwrap();
            g.open = true;
            if let Some(w) = g.waker.take() {
                w.wake();
            }
            true
        }
        None => false,
    }
}
pub fn release_all(label: &str) -> usize {
    let mut n = 0;
    while release(label) {
        n += 1;
    }
    n
}
pub fn take_events() -> Vec<(String, String)> {
    with(|r| std::mem::take(&mut r.events)).unwrap_or_default()
}
pub fn events_snapshot() -> Vec<(String, String)> {
    with(|r| r.events.clone()).unwrap_or_default()
}
pub fn set_chooser(f: impl FnMut(&str, u64) -> Option<u64> + Send + 'static) {
    with(|r| r.chooser = Some(Box::new(f)));
}
pub fn set_clock(f: impl FnMut(&str, u64) -> u64 + Send + 'static) {
    with(|r| r.clock = Some(Box::new(f)));
}
pub fn set_filler(f: impl FnMut(&str, &mut [u8]) + Send + 'static) {
    with(|r| r.filler = Some(Box::new(f)));
}

// ---- hook-facing API (wired to iroh_base::verif::Hooks by the `vh-hooks` crate) ----
pub fn hook_event(label: &'static str, data: String) {
    with(|r| r.events.push((label.to_string(), data)));
}
pub fn hook_pause_async(label: &'static str) -> Option<Pin<Box<dyn Future<Output = ()> + Send + 'static>>> {
    with(|r| {
        *r.arrivals.entry(label.to_string()).or_insert(0) += 1;
        if !r.armed.contains(label) {
            return None;
        }
        let slot = Arc::new(Mutex::new(GateSlot::default()));
        r.waiting.entry(label.to_string()).or_default().push_back(slot.clone());
        r.events.push(("gate.arrive".to_string(), label.to_string()));
        Some(Box::pin(GateFut(slot)) as Pin<Box<dyn Future<Output = ()> + Send + 'static>>)
    })
    .flatten()
}
pub fn hook_choose_u64(label: &'static str, bound: u64) -> Option<u64> {
    with(|r| r.chooser.as_mut().and_then(|c| c(label, bound))).flatten()
}
pub fn hook_clock_micros(label: &'static str, real: u64) -> u64 {
    with(|r| r.clock.as_mut().map(|c| c(label, real))).flatten().unwrap_or(real)
}
pub fn hook_fill_bytes(label: &'static str, bytes: &mut [u8]) {
    with(|r| {
        if let Some(f) = r.filler.as_mut() {
            f(label, bytes)
        }
    });
}
