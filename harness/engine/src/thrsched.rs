//! E3: controlled scheduler for OS threads running synchronous shared-state code.
//!
//! Logical threads are OS threads that park at *gates* (`pause(label)`; thread start is a gate
//! too). The scheduler releases exactly one parked thread at a time and then waits until every
//! released thread is again at a gate, finished, or *blocked* in a futex wait that is not one of
//! our own gates (detected through /proc/self/task/<tid>/{stat,syscall}). The explorer enumerates
//! which parked thread is released next at every decision point (stateless DFS with re-execution).

use std::cell::RefCell;
use std::sync::{Arc, Condvar, Mutex};
use std::time::{Duration, Instant};

#[derive(Clone, Debug, PartialEq, Eq)]
pub enum Phase {
    /// parked at a gate with this label, waiting for the scheduler
    AtGate(String),
    /// released by the scheduler, executing code under test
    Running,
    /// released, but observed asleep in a futex wait outside a gate
    Blocked,
    Done,
    Panicked(String),
}

struct TState {
    phase: Phase,
    go: bool,
    tid: Option<u32>,
}

struct Shared {
    m: Mutex<Vec<TState>>,
    cv: Condvar,
    /// per thread: true only while the thread executes code under test (not while it is inside the
    /// scheduler's own gate/bookkeeping code, where it may sleep on the scheduler's own mutex/condvar).
    /// A thread can only be classified as *blocked* while this is true.
    in_user_code: Vec<std::sync::atomic::AtomicBool>,
}

thread_local! {
    static CUR: RefCell<Option<(Arc<Shared>, usize)>> = const { RefCell::new(None) };
}

/// Gate: called (through the repo hook) by code under test. No-op on threads not owned by a scheduler.
pub fn pause(label: &str) {
    let cur = CUR.with(|c| c.borrow().clone());
    if let Some((sh, me)) = cur {
        gate(&sh, me, label);
    }
}

fn gate(sh: &Arc<Shared>, me: usize, label: &str) {
    use std::sync::atomic::Ordering::SeqCst;
    sh.in_user_code[me].store(false, SeqCst);
    let mut g = sh.m.lock().unwrap();
    g[me].phase = Phase::AtGate(label.to_string());
    g[me].go = false;
    sh.cv.notify_all();
    while !g[me].go {
        g = sh.cv.wait(g).unwrap();
    }
    drop(g);
    sh.in_user_code[me].store(true, SeqCst);
}

fn os_tid() -> Option<u32> {
    let p = std::fs::read_link("/proc/thread-self").ok()?;
    p.file_name()?.to_str()?.parse().ok()
}

/// true iff the thread is asleep (state S) inside the futex syscall (202 on x86_64, 98 on aarch64)
fn asleep_in_futex(tid: u32) -> bool {
    let stat = match std::fs::read_to_string(format!("/proc/self/task/{tid}/stat")) {
        Ok(s) => s,
        Err(_) => return false,
    };
    // state is the field after the ")" closing the comm
    let st = stat.rsplit(')').next().unwrap_or("").trim_start().chars().next().unwrap_or('R');
    if st != 'S' {
        return false;
    }
    let sc = std::fs::read_to_string(format!("/proc/self/task/{tid}/syscall")).unwrap_or_default();
    let nr = sc.split_whitespace().next().unwrap_or("");
    nr == "202" || nr == "98"
}

#[derive(Debug, Clone)]
pub struct Point {
    /// thread indices that were enabled (at a gate) at this decision point, canonical order
    pub enabled: Vec<usize>,
    pub gates: Vec<String>,
    pub chosen: usize, // index into enabled
}

#[derive(Debug, Clone)]
pub struct Execution {
    pub points: Vec<Point>,
    pub deadlock: bool,
    /// thread indices blocked at the end (deadlock)
    pub blocked: Vec<usize>,
    pub panics: Vec<(usize, String)>,
    pub diverged: Option<String>,
}

impl Execution {
    pub fn choices(&self) -> Vec<usize> {
        self.points.iter().map(|p| p.chosen).collect()
    }
    pub fn schedule_threads(&self) -> Vec<usize> {
        self.points.iter().map(|p| p.enabled[p.chosen]).collect()
    }
}

pub type Body = Box<dyn FnOnce() + Send + 'static>;

/// Run the bodies under the scheduler following `prefix` (indices into the enabled set at each
/// point), then the default choice: keep running the last thread if still enabled, else lowest id.
pub fn run(bodies: Vec<Body>, prefix: &[usize]) -> Execution {
    let n = bodies.len();
    let sh = Arc::new(Shared {
        m: Mutex::new((0..n).map(|_| TState { phase: Phase::Running, go: false, tid: None }).collect()),
        cv: Condvar::new(),
        in_user_code: (0..n).map(|_| std::sync::atomic::AtomicBool::new(false)).collect(),
    });
    for (i, body) in bodies.into_iter().enumerate() {
        let sh2 = sh.clone();
        std::thread::Builder::new()
            .name(format!("vthr-{i}"))
            .spawn(move || {
                CUR.with(|c| *c.borrow_mut() = Some((sh2.clone(), i)));
                {
                    let mut g = sh2.m.lock().unwrap();
                    g[i].tid = os_tid();
                }
                gate(&sh2, i, "start");
                let r = crate::quiet_catch(body);
                sh2.in_user_code[i].store(false, std::sync::atomic::Ordering::SeqCst);
                let mut g = sh2.m.lock().unwrap();
                g[i].phase = match r {
                    Ok(()) => Phase::Done,
                    Err(m) => Phase::Panicked(m),
                };
                sh2.cv.notify_all();
                drop(g);
                CUR.with(|c| *c.borrow_mut() = None);
            })
            .expect("spawn");
    }
    let mut exec = Execution { points: vec![], deadlock: false, blocked: vec![], panics: vec![], diverged: None };
    let mut last: Option<usize> = None;
    loop {
        wait_quiescent(&sh);
        let g = sh.m.lock().unwrap();
        let mut enabled: Vec<usize> = (0..n).filter(|&i| matches!(g[i].phase, Phase::AtGate(_))).collect();
        if let Some(l) = last {
            if let Some(pos) = enabled.iter().position(|&x| x == l) {
                enabled.remove(pos);
                enabled.insert(0, l);
            }
        }
        if enabled.is_empty() {
            exec.blocked = (0..n).filter(|&i| g[i].phase == Phase::Blocked).collect();
            exec.deadlock = !exec.blocked.is_empty();
            if std::env::var_os("VERIF_THRSCHED_DEBUG").is_some() && exec.deadlock {
                for i in 0..n {
                    let tid = g[i].tid.unwrap_or(0);
                    eprintln!(
                        "thrsched debug: thread {i} phase={:?} in_user={} stat={:?} syscall={:?}",
                        g[i].phase,
                        sh.in_user_code[i].load(std::sync::atomic::Ordering::SeqCst),
                        std::fs::read_to_string(format!("/proc/self/task/{tid}/stat")).unwrap_or_default().split(')').nth(1).map(|x| x.chars().take(4).collect::<String>()),
                        std::fs::read_to_string(format!("/proc/self/task/{tid}/syscall")).unwrap_or_default().trim().to_string()
                    );
                }
            }
            for i in 0..n {
                if let Phase::Panicked(m) = &g[i].phase {
                    exec.panics.push((i, m.clone()));
                }
            }
            return exec;
        }
        let gates = enabled
            .iter()
            .map(|&i| if let Phase::AtGate(l) = &g[i].phase { l.clone() } else { String::new() })
            .collect();
        drop(g);
        let k = exec.points.len();
        let chosen = if k < prefix.len() {
            if prefix[k] >= enabled.len() {
                exec.diverged = Some(format!("prefix choice {} out of range {} at point {k}", prefix[k], enabled.len()));
                // release everything so that threads can finish; ignore result
                release_all(&sh);
                return exec;
            }
            prefix[k]
        } else {
            0
        };
        let t = enabled[chosen];
        exec.points.push(Point { enabled, gates, chosen });
        last = Some(t);
        let mut g = sh.m.lock().unwrap();
        g[t].phase = Phase::Running;
        g[t].go = true;
        sh.cv.notify_all();
    }
}

fn release_all(sh: &Arc<Shared>) {
    // best effort: let every parked thread run freely to the end (used after divergence only)
    let deadline = Instant::now() + Duration::from_secs(2);
    loop {
        let mut g = sh.m.lock().unwrap();
        let mut any = false;
        for t in g.iter_mut() {
            if matches!(t.phase, Phase::AtGate(_)) {
                t.phase = Phase::Running;
                t.go = true;
                any = true;
            }
        }
        sh.cv.notify_all();
        let all_done = g.iter().all(|t| matches!(t.phase, Phase::Done | Phase::Panicked(_)));
        drop(g);
        if all_done || Instant::now() > deadline {
            return;
        }
        if !any {
            std::thread::sleep(Duration::from_micros(200));
        }
    }
}

/// Wait until no thread is in phase Running (each is at a gate, done, or confirmed blocked).
///
/// /proc is sampled *without* holding the scheduler mutex (a thread entering a gate must never have
/// to sleep on it for long), and a thread is only ever considered blocked while it is executing code
/// under test (`in_user_code`). A Blocked thread that is observed awake again goes back to Running.
fn wait_quiescent(sh: &Arc<Shared>) {
    use std::sync::atomic::Ordering::SeqCst;
    let n = sh.in_user_code.len();
    let mut asleep_count: Vec<u32> = vec![0; n];
    loop {
        // snapshot
        let (phases, tids): (Vec<Phase>, Vec<Option<u32>>) = {
            let g = sh.m.lock().unwrap();
            (g.iter().map(|t| t.phase.clone()).collect(), g.iter().map(|t| t.tid).collect())
        };
        // sample without the lock
        let mut asleep = vec![false; n];
        for i in 0..n {
            if matches!(phases[i], Phase::Running | Phase::Blocked) {
                asleep[i] = sh.in_user_code[i].load(SeqCst) && tids[i].map(asleep_in_futex).unwrap_or(false) && sh.in_user_code[i].load(SeqCst);
            }
        }
        let mut g = sh.m.lock().unwrap();
        let mut any_running = false;
        for i in 0..n {
            // only act if the phase did not change while we were sampling
            if g[i].phase != phases[i] {
                // a thread moved while we were sampling (it may have released a lock and woken others):
                // the samples are stale, take another round before concluding anything
                any_running = true;
                asleep_count[i] = 0;
                continue;
            }
            match g[i].phase {
                Phase::Blocked => {
                    if !asleep[i] {
                        g[i].phase = Phase::Running;
                        asleep_count[i] = 0;
                        any_running = true;
                    }
                }
                Phase::Running => {
                    if asleep[i] {
                        asleep_count[i] += 1;
                        // consecutive sleepy samples (>= ~2 ms) in code under test: blocked on one of its locks
                        if asleep_count[i] >= 6 {
                            g[i].phase = Phase::Blocked;
                        } else {
                            any_running = true;
                        }
                    } else {
                        asleep_count[i] = 0;
                        any_running = true;
                    }
                }
                _ => {}
            }
        }
        if !any_running {
            return;
        }
        let _ = sh.cv.wait_timeout(g, Duration::from_micros(300)).unwrap();
    }
}

pub struct ExploreStats {
    pub executions: u64,
    pub decision_points: u64,
    pub max_points: usize,
    pub deadlocks: u64,
}

/// Stateless DFS over all schedules with at most `preemption_bound` preemptions (None = unbounded).
/// `mk` builds fresh bodies (and returns a per-execution observer that is handed to `check`).
pub fn explore<O>(
    mk: &dyn Fn() -> (Vec<Body>, O),
    check: &mut dyn FnMut(&Execution, O),
    preemption_bound: Option<usize>,
    max_executions: u64,
) -> (ExploreStats, bool) {
    let mut stats = ExploreStats { executions: 0, decision_points: 0, max_points: 0, deadlocks: 0 };
    let mut stack: Vec<Vec<usize>> = vec![vec![]];
    let mut capped = false;
    while let Some(prefix) = stack.pop() {
        if stats.executions >= max_executions {
            capped = true;
            break;
        }
        let (bodies, obs) = mk();
        let x = run(bodies, &prefix);
        if let Some(d) = &x.diverged {
            crate::machinery_error(&format!("thrsched: replay diverged: {d}"));
        }
        // prefix must have been followed exactly
        stats.executions += 1;
        stats.decision_points += x.points.len() as u64;
        stats.max_points = stats.max_points.max(x.points.len());
        if x.deadlock {
            stats.deadlocks += 1;
        }
        // enumerate alternatives beyond the prefix
        let mut preemptions_before = vec![0usize; x.points.len() + 1];
        for i in 0..x.points.len() {
            let p = &x.points[i];
            // choosing index !=0 while index 0 is the previously running thread (still enabled) is a preemption
            let prev_thread = if i == 0 { None } else { Some(x.points[i - 1].enabled[x.points[i - 1].chosen]) };
            let running_still_enabled = prev_thread.map(|t| p.enabled[0] == t).unwrap_or(false);
            let is_preempt = running_still_enabled && p.chosen != 0;
            preemptions_before[i + 1] = preemptions_before[i] + usize::from(is_preempt);
        }
        for i in (prefix.len()..x.points.len()).rev() {
            let p = &x.points[i];
            let prev_thread = if i == 0 { None } else { Some(x.points[i - 1].enabled[x.points[i - 1].chosen]) };
            let running_still_enabled = prev_thread.map(|t| p.enabled[0] == t).unwrap_or(false);
            for alt in 1..p.enabled.len() {
                let cost = preemptions_before[i] + usize::from(running_still_enabled);
                if let Some(b) = preemption_bound {
                    if cost > b {
                        continue;
                    }
                }
                let mut np: Vec<usize> = x.choices()[..i].to_vec();
                np.push(alt);
                stack.push(np);
            }
        }
        check(&x, obs);
    }
    (stats, capped)
}
