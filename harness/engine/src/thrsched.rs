//! E3: controlled scheduler for OS threads running synchronous shared-state code.
//!
//! Logical threads are OS threads that park at *gates* (`pause(label)`; thread start is a gate
//! too). The scheduler releases exactly one parked thread at a time and then waits until every
//! released thread is again at a gate, finished, or *blocked* in a futex wait that is not one of
//! our own gates (detected through /proc/self/task/<tid>/{stat,syscall}). The explorer enumerates
//! which parked thread is released next at every decision point (stateless DFS with re-execution).

use std::cell::RefCell;
use std::sync::{Arc, Condvar, Mutex};
use std::time::{Duration, Instant};

#[derive(Clone, Debug, PartialEq, Eq)]
pub enum Phase {
    /// parked at a gate with this label, waiting for the scheduler
    AtGate(String),
    /// released by the scheduler, executing code under test
    Running,
    /// released, but observed asleep in a futex wait outside a gate
    Blocked,
    Done,
    Panicked(String),
}

struct TState {
    phase: Phase,
    go: bool,
    tid: Option<u32>,
}

struct Shared {
    m: Mutex<Vec<TState>>,
    cv: Condvar,
}

thread_local! {
    static CUR: RefCell<Option<(Arc<Shared>, usize)>> = const { RefCell::new(None) };
}

/// Gate: called (through the repo hook) by code under test. No-op on threads not owned by a scheduler.
pub fn pause(label: &str) {
    let cur = CUR.with(|c| c.borrow().clone());
    if let Some((sh, me)) = cur {
        gate(&sh, me, label);
    }
}

fn gate(sh: &Arc<Shared>, me: usize, label: &str) {
    let mut g = sh.m.lock().unwrap();
    g[me].phase = Phase::AtGate(label.to_string());
    g[me].go = false;
    sh.cv.notify_all();
    while !g[me].go {
        g = sh.cv.wait(g).unwrap();
    }
}

fn os_tid() -> Option<u32> {
    let p = std::fs::read_link("/proc/thread-self").ok()?;
    p.file_name()?.to_str()?.parse().ok()
}

/// true iff the thread is asleep (state S) inside the futex syscall (202 on x86_64, 98 on aarch64)
fn asleep_in_futex(tid: u32) -> bool {
    let stat = match std::fs::read_to_string(format!("/proc/self/task/{tid}/stat")) {
        Ok(s) => s,
        Err(_) => return false,
    };
    // state is the field after the ")" closing the comm
    let st = stat.rsplit(')').next().unwrap_or("").trim_start().chars().next().unwrap_or('R');
    if st != 'S' {
        return false;
    }
    let sc = std::fs::read_to_string(format!("/proc/self/task/{tid}/syscall")).unwrap_or_default();
    let nr = sc.split_whitespace().next().unwrap_or("");
    nr == "202" || nr == "98"
}

#[derive(Debug, Clone)]
pub struct Point {
    /// thread indices that were enabled (at a gate) at this decision point, canonical order
    pub enabled: Vec<usize>,
    pub gates: Vec<String>,
    pub chosen: usize, // index into enabled
}

#[derive(Debug, Clone)]
pub struct Execution {
    pub points: Vec<Point>,
    pub deadlock: bool,
    /// thread indices blocked at the end (deadlock)
    pub blocked: Vec<usize>,
    pub panics: Vec<(usize, String)>,
    pub diverged: Option<String>,
}

impl Execution {
    pub fn choices(&self) -> Vec<usize> {
        self.points.iter().map(|p| p.chosen).collect()
    }
    pub fn schedule_threads(&self) -> Vec<usize> {
        self.points.iter().map(|p| p.enabled[p.chosen]).collect()
    }
}

pub type Body = Box<dyn FnOnce() + Send + 'static>;

/// Run the bodies under the scheduler following `prefix` (indices into the enabled set at each
/// point), then the default choice: keep running the last thread if still enabled, else lowest id.
pub fn run(bodies: Vec<Body>, prefix: &[usize]) -> Execution {
    let n = bodies.len();
    let sh = Arc::new(Shared {
        m: Mutex::new((0..n).map(|_| TState { phase: Phase::Running, go: false, tid: None }).collect()),
        cv: Condvar::new(),
    });
    for (i, body) in bodies.into_iter().enumerate() {
        let sh2 = sh.clone();
        std::thread::Builder::new()
            .name(format!("vthr-{i}"))
            .spawn(move || {
                CUR.with(|c| *c.borrow_mut() = Some((sh2.clone(), i)));
                {
                    let mut g = sh2.m.lock().unwrap();
                    g[i].tid = os_tid();
                }
                gate(&sh2, i, "start");
                let r = crate::quiet_catch(body);
                let mut g = sh2.m.lock().unwrap();
                g[i].phase = match r {
                    Ok(()) => Phase::Done,
                    Err(m) => Phase::Panicked(m),
                };
                sh2.cv.notify_all();
                drop(g);
                CUR.with(|c| *c.borrow_mut() = None);
            })
            .expect("spawn");
    }
    let mut exec = Execution { points: vec![], deadlock: false, blocked: vec![], panics: vec![], diverged: None };
    let mut last: Option<usize> = None;
    loop {
        wait_quiescent(&sh);
        let g = sh.m.lock().unwrap();
        let mut enabled: Vec<usize> = (0..n).filter(|&i| matches!(g[i].phase, Phase::AtGate(_))).collect();
        if let Some(l) = last {
            if let Some(pos) = enabled.iter().position(|&x| x == l) {
                enabled.remove(pos);
                enabled.insert(0, l);
            }
        }
        if enabled.is_empty() {
            exec.blocked = (0..n).filter(|&i| g[i].phase == Phase::Blocked).collect();
            exec.deadlock = !exec.blocked.is_empty();
            for i in 0..n {
                if let Phase::Panicked(m) = &g[i].phase {
                    exec.panics.push((i, m.clone()));
                }
            }
            return exec;
        }
        let gates = enabled
            .iter()
            .map(|&i| if let Phase::AtGate(l) = &g[i].phase { l.clone() } else { String::new() })
            .collect();
        drop(g);
        let k = exec.points.len();
        let chosen = if k < prefix.len() {
            if prefix[k] >= enabled.len() {
                exec.diverged = Some(format!("prefix choice {} out of range {} at point {k}", prefix[k], enabled.len()));
                // release everything so that threads can finish; ignore result
                release_all(&sh);
                return exec;
            }
            prefix[k]
        } else {
            0
        };
        let t = enabled[chosen];
        exec.points.push(Point { enabled, gates, chosen });
        last = Some(t);
        let mut g = sh.m.lock().unwrap();
        g[t].phase = Phase::Running;
        g[t].go = true;
        sh.cv.notify_all();
    }
}

fn release_all(sh: &Arc<Shared>) {
    // best effort: let every parked thread run freely to the end (used after divergence only)
    let deadline = Instant::now() + Duration::from_secs(2);
    loop {
        let mut g = sh.m.lock().unwrap();
        let mut any = false;
        for t in g.iter_mut() {
            if matches!(t.phase, Phase::AtGate(_)) {
                t.phase = Phase::Running;
                t.go = true;
                any = true;
            }
        }
        sh.cv.notify_all();
        let all_done = g.iter().all(|t| matches!(t.phase, Phase::Done | Phase::Panicked(_)));
        drop(g);
        if all_done || Instant::now() > deadline {
            return;
        }
        if !any {
            std::thread::sleep(Duration::from_micros(200));
        }
    }
}

/// Wait until no thread is in phase Running (each is at a gate, done, or confirmed blocked).
/// A Blocked thread that wakes up is noticed because it changes its own phase at the next gate / end;
/// to keep the window sound we also re-examine Blocked threads: one that is no longer asleep in a
/// futex goes back to Running.
fn wait_quiescent(sh: &Arc<Shared>) {
    let mut asleep_count: Vec<u32> = Vec::new();
    loop {
        let mut g = sh.m.lock().unwrap();
        if asleep_count.len() != g.len() {
            asleep_count = vec![0; g.len()];
        }
        // re-examine blocked threads
        for i in 0..g.len() {
            if g[i].phase == Phase::Blocked {
                if let Some(tid) = g[i].tid {
                    if !asleep_in_futex(tid) {
                        g[i].phase = Phase::Running;
                        asleep_count[i] = 0;
                    }
                }
            }
        }
        let running: Vec<usize> = (0..g.len()).filter(|&i| g[i].phase == Phase::Running).collect();
        if running.is_empty() {
            return;
        }
        let (g2, _) = sh.cv.wait_timeout(g, Duration::from_micros(300)).unwrap();
        g = g2;
        for &i in &running {
            if g[i].phase != Phase::Running {
                continue;
            }
            match g[i].tid {
                Some(tid) if asleep_in_futex(tid) => {
                    asleep_count[i] += 1;
                    // 4 consecutive sleepy samples (>= ~1 ms) while not at a gate: blocked on a lock of the code under test
                    if asleep_count[i] >= 4 {
                        g[i].phase = Phase::Blocked;
                    }
                }
                _ => asleep_count[i] = 0,
            }
        }
    }
}

pub struct ExploreStats {
    pub executions: u64,
    pub decision_points: u64,
    pub max_points: usize,
    pub deadlocks: u64,
}

/// Stateless DFS over all schedules with at most `preemption_bound` preemptions (None = unbounded).
/// `mk` builds fresh bodies (and returns a per-execution observer that is handed to `check`).
pub fn explore<O>(
    mk: &dyn Fn() -> (Vec<Body>, O),
    check: &mut dyn FnMut(&Execution, O),
    preemption_bound: Option<usize>,
    max_executions: u64,
) -> (ExploreStats, bool) {
    let mut stats = ExploreStats { executions: 0, decision_points: 0, max_points: 0, deadlocks: 0 };
    let mut stack: Vec<Vec<usize>> = vec![vec![]];
    let mut capped = false;
    while let Some(prefix) = stack.pop() {
        if stats.executions >= max_executions {
            capped = true;
            break;
        }
        let (bodies, obs) = mk();
        let x = run(bodies, &prefix);
        if let Some(d) = &x.diverged {
            crate::machinery_error(&format!("thrsched: replay diverged: {d}"));
        }
        // prefix must have been followed exactly
        stats.executions += 1;
        stats.decision_points += x.points.len() as u64;
        stats.max_points = stats.max_points.max(x.points.len());
        if x.deadlock {
            stats.deadlocks += 1;
        }
        // enumerate alternatives beyond the prefix
        let mut preemptions_before = vec![0usize; x.points.len() + 1];
        for i in 0..x.points.len() {
            let p = &x.points[i];
            // choosing index !=0 while index 0 is the previously running thread (still enabled) is a preemption
            let prev_thread = if i == 0 { None } else { Some(x.points[i - 1].enabled[x.points[i - 1].chosen]) };
            let running_still_enabled = prev_thread.map(|t| p.enabled[0] == t).unwrap_or(false);
            let is_preempt = running_still_enabled && p.chosen != 0;
            preemptions_before[i + 1] = preemptions_before[i] + usize::from(is_preempt);
        }
        for i in (prefix.len()..x.points.len()).rev() {
            let p = &x.points[i];
            let prev_thread = if i == 0 { None } else { Some(x.points[i - 1].enabled[x.points[i - 1].chosen]) };
            let running_still_enabled = prev_thread.map(|t| p.enabled[0] == t).unwrap_or(false);
            for alt in 1..p.enabled.len() {
                let cost = preemptions_before[i] + usize::from(running_still_enabled);
                if let Some(b) = preemption_bound {
                    if cost > b {
                        continue;
                    }
                }
                let mut np: Vec<usize> = x.choices()[..i].to_vec();
                np.push(alt);
                stack.push(np);
            }
        }
        check(&x, obs);
    }
    (stats, capped)
}

// ---------------------------------------------------------------------------------------------
// Observed variants (added for C26): identical scheduling, plus a callback at every quiescent
// decision point (all logical threads parked at a gate, blocked, or finished) — including the
// final one where nothing is enabled any more. The callback runs on the scheduler thread while no
// logical thread is running, so it may read the shared state under test.

/// [`wait_quiescent`], then confirm every thread it classified as blocked: a thread that was woken from a
/// lock of the code under test may be caught asleep for a moment on the scheduler's own mutex (which
/// `wait_quiescent` holds while it samples /proc) and would wrongly stay `Blocked` — a false deadlock, or a
/// decision taken while that thread is still running. Here the samples are taken with the scheduler mutex
/// released; a thread is accepted as blocked only if it stays asleep in a futex and does not change phase over
/// `CONFIRM` consecutive samples.
fn wait_quiescent_stable(sh: &Arc<Shared>) {
    const CONFIRM: usize = 8;
    loop {
        wait_quiescent(sh);
        let blocked: Vec<(usize, Option<u32>)> = {
            let g = sh.m.lock().unwrap();
            (0..g.len()).filter(|&i| g[i].phase == Phase::Blocked).map(|i| (i, g[i].tid)).collect()
        };
        if blocked.is_empty() {
            return;
        }
        let mut stable = true;
        for _ in 0..CONFIRM {
            std::thread::sleep(Duration::from_micros(400));
            let asleep: Vec<bool> = blocked.iter().map(|(_, tid)| tid.map(asleep_in_futex).unwrap_or(false)).collect();
            let mut g = sh.m.lock().unwrap();
            for ((i, _), a) in blocked.iter().zip(&asleep) {
                if g[*i].phase != Phase::Blocked {
                    stable = false; // it moved on by itself (reached a gate or finished)
                } else if !*a {
                    g[*i].phase = Phase::Running;
                    stable = false;
                }
            }
            if g.iter().any(|t| t.phase == Phase::Running) {
                stable = false;
            }
            drop(g);
            if !stable {
                break;
            }
        }
        if stable {
            return;
        }
    }
}

/// Like [`run`], calling `observe(k)` at the k-th quiescent point (k = number of decisions taken so far).
pub fn run_observed(bodies: Vec<Body>, prefix: &[usize], observe: &mut dyn FnMut(usize)) -> Execution {
    let n = bodies.len();
    let sh = Arc::new(Shared {
        m: Mutex::new((0..n).map(|_| TState { phase: Phase::Running, go: false, tid: None }).collect()),
        cv: Condvar::new(),
    });
    for (i, body) in bodies.into_iter().enumerate() {
        let sh2 = sh.clone();
        std::thread::Builder::new()
            .name(format!("vthr-{i}"))
            .spawn(move || {
                CUR.with(|c| *c.borrow_mut() = Some((sh2.clone(), i)));
                {
                    let mut g = sh2.m.lock().unwrap();
                    g[i].tid = os_tid();
                }
                gate(&sh2, i, "start");
                let r = crate::quiet_catch(body);
                let mut g = sh2.m.lock().unwrap();
                g[i].phase = match r {
                    Ok(()) => Phase::Done,
                    Err(m) => Phase::Panicked(m),
                };
                sh2.cv.notify_all();
                drop(g);
                CUR.with(|c| *c.borrow_mut() = None);
            })
            .expect("spawn");
    }
    let mut exec = Execution { points: vec![], deadlock: false, blocked: vec![], panics: vec![], diverged: None };
    let mut last: Option<usize> = None;
    loop {
        wait_quiescent_stable(&sh);
        observe(exec.points.len());
        let g = sh.m.lock().unwrap();
        let mut enabled: Vec<usize> = (0..n).filter(|&i| matches!(g[i].phase, Phase::AtGate(_))).collect();
        if let Some(l) = last {
            if let Some(pos) = enabled.iter().position(|&x| x == l) {
                enabled.remove(pos);
                enabled.insert(0, l);
            }
        }
        if enabled.is_empty() {
            exec.blocked = (0..n).filter(|&i| g[i].phase == Phase::Blocked).collect();
            exec.deadlock = !exec.blocked.is_empty();
            for i in 0..n {
                if let Phase::Panicked(m) = &g[i].phase {
                    exec.panics.push((i, m.clone()));
                }
            }
            return exec;
        }
        let gates = enabled
            .iter()
            .map(|&i| if let Phase::AtGate(l) = &g[i].phase { l.clone() } else { String::new() })
            .collect();
        drop(g);
        let k = exec.points.len();
        let chosen = if k < prefix.len() {
            if prefix[k] >= enabled.len() {
                exec.diverged = Some(format!("prefix choice {} out of range {} at point {k}", prefix[k], enabled.len()));
                release_all(&sh);
                return exec;
            }
            prefix[k]
        } else {
            0
        };
        let t = enabled[chosen];
        exec.points.push(Point { enabled, gates, chosen });
        last = Some(t);
        let mut g = sh.m.lock().unwrap();
        g[t].phase = Phase::Running;
        g[t].go = true;
        sh.cv.notify_all();
    }
}

/// Like [`explore`], with `observe(&obs, k)` called at every quiescent point of every execution.
///
/// Every re-execution of a prefix must reproduce the enabled sets and gate labels recorded when the prefix was
/// first executed ("a prefix replayed must reproduce its recorded observations"). Lock hand-overs inside the code
/// under test are done by the OS, not by this scheduler, so a replay can occasionally take another path on a
/// loaded machine: such an execution is discarded and repeated (up to `RETRIES` times, then machinery error).
/// For the same reason every accepted execution is run twice with the same choices and must pass through the
/// same decision points both times (so each reported execution costs two runs of the real code);
/// the number of discarded executions is the third element of the returned tuple.
pub fn explore_observed<O>(
    mk: &dyn Fn() -> (Vec<Body>, O),
    observe: &mut dyn FnMut(&O, usize),
    check: &mut dyn FnMut(&Execution, O),
    preemption_bound: Option<usize>,
    max_executions: u64,
) -> (ExploreStats, bool, u64) {
    const RETRIES: usize = 8;
    let mut stats = ExploreStats { executions: 0, decision_points: 0, max_points: 0, deadlocks: 0 };
    // (choices, expected (enabled, gates) at each point of the prefix)
    type Expect = Vec<(Vec<usize>, Vec<String>)>;
    let mut stack: Vec<(Vec<usize>, Expect)> = vec![(vec![], vec![])];
    let mut capped = false;
    let mut retries = 0u64;
    while let Some((prefix, expect)) = stack.pop() {
        if stats.executions >= max_executions {
            capped = true;
            break;
        }
        let mut attempt = 0;
        let (x, obs) = loop {
            let (bodies, obs) = mk();
            let x = run_observed(bodies, &prefix, &mut |k| observe(&obs, k));
            let mut problem = x.diverged.clone();
            if problem.is_none() {
                for (i, (en, ga)) in expect.iter().enumerate() {
                    match x.points.get(i) {
                        Some(p) if &p.enabled == en && &p.gates == ga => {}
                        other => {
                            problem = Some(format!(
                                "point {i}: recorded enabled {en:?} at {ga:?}, replay saw {:?}",
                                other.map(|p| (&p.enabled, &p.gates))
                            ));
                            break;
                        }
                    }
                }
            }
            if problem.is_none() {
                // confirm the part beyond the prefix: the same choices must lead through the same decision points
                let (bodies2, obs2) = mk();
                let x2 = run_observed(bodies2, &x.choices(), &mut |k| observe(&obs2, k));
                let same = x2.diverged.is_none()
                    && x2.points.len() == x.points.len()
                    && x2.points.iter().zip(&x.points).all(|(a, b)| a.enabled == b.enabled && a.gates == b.gates && a.chosen == b.chosen)
                    && x2.deadlock == x.deadlock;
                if !same {
                    problem = Some("two executions of the same choices went through different decision points".to_string());
                }
            }
            match problem {
                None => break (x, obs),
                Some(d) => {
                    attempt += 1;
                    retries += 1;
                    if attempt > RETRIES {
                        crate::machinery_error(&format!("thrsched: replay diverged {attempt} times: {d}"));
                    }
                }
            }
        };
        stats.executions += 1;
        stats.decision_points += x.points.len() as u64;
        stats.max_points = stats.max_points.max(x.points.len());
        if x.deadlock {
            stats.deadlocks += 1;
        }
        let mut preemptions_before = vec![0usize; x.points.len() + 1];
        for i in 0..x.points.len() {
            let p = &x.points[i];
            let prev_thread = if i == 0 { None } else { Some(x.points[i - 1].enabled[x.points[i - 1].chosen]) };
            let running_still_enabled = prev_thread.map(|t| p.enabled[0] == t).unwrap_or(false);
            let is_preempt = running_still_enabled && p.chosen != 0;
            preemptions_before[i + 1] = preemptions_before[i] + usize::from(is_preempt);
        }
        for i in (prefix.len()..x.points.len()).rev() {
            let p = &x.points[i];
            let prev_thread = if i == 0 { None } else { Some(x.points[i - 1].enabled[x.points[i - 1].chosen]) };
            let running_still_enabled = prev_thread.map(|t| p.enabled[0] == t).unwrap_or(false);
            for alt in 1..p.enabled.len() {
                let cost = preemptions_before[i] + usize::from(running_still_enabled);
                if let Some(b) = preemption_bound {
                    if cost > b {
                        continue;
                    }
                }
                let mut np: Vec<usize> = x.choices()[..i].to_vec();
                np.push(alt);
                let ne: Expect = x.points[..=i].iter().map(|q| (q.enabled.clone(), q.gates.clone())).collect();
                stack.push((np, ne));
            }
        }
        check(&x, obs);
    }
    (stats, capped, retries)
}
