//! Wires the repo-side hook runtime (`iroh_base::verif`) to the engine's controllers.
use vh_engine::{seams, thrsched};

fn pause(label: &'static str) {
    thrsched::pause(label)
}

/// Install the process-wide controller callbacks. Idempotent.
pub fn install() {
    iroh_base::verif::install(iroh_base::verif::Hooks {
        pause,
        pause_async: seams::hook_pause_async,
        event: seams::hook_event,
        choose_u64: seams::hook_choose_u64,
        clock_micros: seams::hook_clock_micros,
        fill_bytes: seams::hook_fill_bytes,
    });
}
