//! Shared helpers of the E5 drivers (C40, C41, C42, C01 handshake level): real `Endpoint`s on IPv4
//! loopback in real time (relay disabled, no address lookup, no port mapping), futures polled *by
//! hand* with a recording waker, and waiting for positive events with a generous time-out.
use std::future::Future;
use std::net::{Ipv4Addr, SocketAddr};
use std::pin::Pin;
use std::sync::atomic::{AtomicBool, Ordering};
use std::sync::{Arc, Condvar, Mutex};
use std::task::{Context, Poll, Wake, Waker};
use std::time::{Duration, Instant};

use iroh::endpoint::{Builder, PortmapperConfig, presets};
use iroh::{Endpoint, EndpointAddr, SecretKey, TransportAddr};

/// Generous time-out for events that the reference model says *must* happen.
pub const POSITIVE_TIMEOUT: Duration = Duration::from_secs(40);

/// A real-time multi-thread runtime owned by one case.
pub fn runtime(workers: usize) -> tokio::runtime::Runtime {
    tokio::runtime::Builder::new_multi_thread()
        .worker_threads(workers)
        .enable_all()
        .build()
        .expect("runtime")
}

/// Deterministic secret key number `n`.
pub fn secret(n: u8) -> SecretKey {
    SecretKey::from_bytes(&[n.wrapping_mul(29).wrapping_add(3); 32])
}

/// Builder of an endpoint bound on 127.0.0.1:0 only; relay disabled, no address lookup, no port mapper.
pub fn loopback_builder(key: SecretKey) -> Builder {
    Endpoint::builder(presets::Minimal)
        .secret_key(key)
        .clear_ip_transports()
        .bind_addr((Ipv4Addr::LOCALHOST, 0))
        .expect("loopback addr")
        .portmapper_config(PortmapperConfig::Disabled)
}

/// The explicit loopback socket address the endpoint is bound on.
pub fn loopback_sockaddr(ep: &Endpoint) -> SocketAddr {
    let s = ep.bound_sockets();
    *s.iter().find(|a| a.is_ipv4()).expect("bound ipv4 socket")
}

/// Dial address: id + the explicit loopback socket address (nothing is looked up).
pub fn dial_addr(ep: &Endpoint) -> EndpointAddr {
    EndpointAddr::from_parts(ep.id(), [TransportAddr::Ip(loopback_sockaddr(ep))])
}

struct WakeFlag {
    woken: Mutex<bool>,
    cv: Condvar,
}
impl Wake for WakeFlag {
    fn wake(self: Arc<Self>) {
        self.wake_by_ref()
    }
    fn wake_by_ref(self: &Arc<Self>) {
        *self.woken.lock().unwrap() = true;
        self.cv.notify_all();
    }
}

/// A future that only makes progress when the harness polls it: "the caller is awaiting" is a fact.
pub struct HandPolled<T> {
    fut: Option<Pin<Box<dyn Future<Output = T> + Send>>>,
    flag: Arc<WakeFlag>,
    pub polls: u32,
}

impl<T> HandPolled<T> {
    pub fn new(fut: impl Future<Output = T> + Send + 'static) -> Self {
        HandPolled {
            fut: Some(Box::pin(fut)),
            flag: Arc::new(WakeFlag { woken: Mutex::new(false), cv: Condvar::new() }),
            polls: 0,
        }
    }
    /// Poll once. The wake flag is cleared *before* the poll so a wake during or after it is kept.
    pub fn poll_once(&mut self) -> Poll<T> {
        let fut = self.fut.as_mut().expect("polled after completion/drop");
        *self.flag.woken.lock().unwrap() = false;
        let waker = Waker::from(self.flag.clone());
        let mut cx = Context::from_waker(&waker);
        self.polls += 1;
        let r = fut.as_mut().poll(&mut cx);
        if r.is_ready() {
            self.fut = None;
        }
        r
    }
    /// Wait until the future's waker was invoked (positive event).
    pub fn wait_woken(&self, timeout: Duration) -> bool {
        let g = self.flag.woken.lock().unwrap();
        let (g, _) = self.flag.cv.wait_timeout_while(g, timeout, |w| !*w).unwrap();
        *g
    }
    /// Re-poll whenever woken until ready; `None` if the waker stays silent for `timeout`.
    pub fn drive(&mut self, timeout: Duration) -> Option<T> {
        loop {
            if !self.wait_woken(timeout) {
                return None;
            }
            if let Poll::Ready(v) = self.poll_once() {
                return Some(v);
            }
        }
    }
    pub fn is_live(&self) -> bool {
        self.fut.is_some()
    }
    /// Drop the future (the caller gives up).
    pub fn cancel(&mut self) {
        self.fut = None;
    }
}

/// Wait for a monotone condition to become true (positive event); false on time-out.
pub fn wait_until(timeout: Duration, mut cond: impl FnMut() -> bool) -> bool {
    let t0 = Instant::now();
    loop {
        if cond() {
            return true;
        }
        if t0.elapsed() > timeout {
            return false;
        }
        std::thread::sleep(Duration::from_micros(500));
    }
}

/// A monotone boolean fact set by harness-owned handlers/hooks.
#[derive(Default, Debug)]
pub struct Fact(AtomicBool);
impl Fact {
    pub fn set(&self) {
        self.0.store(true, Ordering::SeqCst)
    }
    pub fn get(&self) -> bool {
        self.0.load(Ordering::SeqCst)
    }
}
