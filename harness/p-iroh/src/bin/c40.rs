//! C40 Router hands each connection only to the handler for its protocol — E5: a real `Router` on a real
//! loopback `Endpoint`, a real dialing `Endpoint`; the complete product of {registered protocol sets} x
//! {protocol lists offered by the dialer} x {incoming-filter verdict functions} is executed, one fresh
//! endpoint pair per case. Absence ("no handler reached") is judged only after `Router::shutdown()` has
//! returned, when no connection task exists any more.
use std::collections::BTreeSet;
use std::sync::{Arc, Mutex};
use std::time::Duration;

use iroh::endpoint::{Accepting, ConnectOptions, Connection};
use iroh::protocol::{AcceptError, IncomingFilterOutcome, ProtocolHandler, Router};
use serde::{Deserialize, Serialize};
use vh_engine::*;
use vh_p_iroh::e5_router::*;

/// protocol names are opaque byte strings: index 5 is not valid UTF-8, index 6 is what a lossy UTF-8 rendering of
/// index 5 looks like (seeded change C40-seed72 looked handlers up by the lossy rendering)
const NAMES: [&[u8]; 7] = [b"c40/a", b"c40/b", b"c40/c", b"c40/d", b"c40/a/x", b"c40/\xff", "c40/\u{FFFD}".as_bytes()];
fn show(i: usize) -> String {
    String::from_utf8_lossy(NAMES[i]).into_owned() + if i == 5 { "(raw 0xff)" } else { "" }
}

#[derive(Serialize, Deserialize, Clone, Copy, Debug, PartialEq, Eq)]
enum V {
    Accept,
    Reject,
    Ignore,
    Retry,
}

#[derive(Serialize, Deserialize, Clone, Debug)]
struct Case {
    /// indexes into NAMES of the protocols with a registered handler
    registered: Vec<usize>,
    /// protocols offered by the dialer, in its order of preference
    offered: Vec<usize>,
    /// filter verdict as a function of "source address validated": (not validated, validated); None = no filter
    filter: Option<(V, V)>,
}

#[derive(Debug, Clone, PartialEq, Eq)]
struct Entry {
    handler: usize,
    stage: &'static str,
    alpn: Option<Vec<u8>>,
    remote: Option<iroh::EndpointId>,
}

#[derive(Debug, Clone)]
struct Rec {
    me: usize,
    log: Arc<Mutex<Vec<Entry>>>,
}
impl ProtocolHandler for Rec {
    async fn on_accepting(&self, accepting: Accepting) -> Result<Connection, AcceptError> {
        self.log.lock().unwrap().push(Entry { handler: self.me, stage: "on_accepting", alpn: None, remote: None });
        let conn = accepting.await?;
        Ok(conn)
    }
    async fn accept(&self, conn: Connection) -> Result<(), AcceptError> {
        self.log.lock().unwrap().push(Entry {
            handler: self.me,
            stage: "accept",
            alpn: Some(conn.alpn().to_vec()),
            remote: Some(conn.remote_id()),
        });
        conn.closed().await;
        Ok(())
    }
}

/// What the statement allows (reference model, written from the statement only).
struct Expect {
    /// the set of handlers one of which (exactly one) must be reached; empty = no handler may be reached
    candidates: BTreeSet<usize>,
    class: String,
}

fn model(c: &Case) -> Expect {
    let reg: BTreeSet<usize> = c.registered.iter().copied().collect();
    let common: BTreeSet<usize> = c.offered.iter().copied().filter(|o| reg.contains(o)).collect();
    // the filter lets the connection through iff it accepts it directly, or asks for a retry and accepts
    // the validated retry
    let (fclass, pass) = match c.filter {
        None => ("no filter".to_string(), true),
        Some((V::Accept, _)) => ("filter accepts".to_string(), true),
        Some((V::Reject, _)) => ("filter refuses".to_string(), false),
        Some((V::Ignore, _)) => ("filter ignores".to_string(), false),
        Some((V::Retry, v)) => (format!("filter asks retry then {v:?}"), v == V::Accept),
    };
    let nclass = match (common.len(), c.offered.len()) {
        (0, _) if reg.is_empty() => "nothing registered",
        (0, _) => "offered protocols all unregistered",
        (1, 1) => "offered = one registered protocol",
        (1, _) => "one of several offered protocols registered",
        _ => "several offered protocols registered",
    };
    Expect { candidates: if pass { common } else { BTreeSet::new() }, class: format!("{fclass}; {nclass}") }
}

async fn wait_async(timeout: Duration, mut cond: impl FnMut() -> bool) -> bool {
    let t0 = std::time::Instant::now();
    loop {
        if cond() {
            return true;
        }
        if t0.elapsed() > timeout {
            return false;
        }
        tokio::time::sleep(Duration::from_millis(1)).await;
    }
}

fn run_case(ctx: &Ctx, case: &Case) {
    let t0 = std::time::Instant::now();
    let r = quiet_catch(|| {
        let rt = runtime(2);
        let out = rt.block_on(run_case_async(ctx, case));
        rt.shutdown_background();
        out
    });
    if std::env::var_os("VERIF_TIMING").is_some() {
        eprintln!("{:.2}s {case:?}", t0.elapsed().as_secs_f64());
    }
    match r {
        Ok(Ok((class, outcome))) => ctx.eval(&class, &outcome),
        Ok(Err(msg)) => ctx.discrepancy(None, &msg, case),
        Err(p) => ctx.discrepancy(None, &format!("panic: {p}"), case),
    }
}

async fn run_case_async(ctx: &Ctx, case: &Case) -> Result<(String, String), String> {
    let exp = model(case);
    let tt = std::time::Instant::now();
    let timing = std::env::var_os("VERIF_TIMING").is_some();
    let ph = |name: &str| {
        if timing {
            eprintln!("   {:.3}s {name}", tt.elapsed().as_secs_f64());
        }
    };
    let server = loopback_builder(secret(1)).bind().await.map_err(|e| format!("bind: {e:?}"))?;
    let dialer = loopback_builder(secret(2)).bind().await.map_err(|e| format!("bind: {e:?}"))?;
    let log: Arc<Mutex<Vec<Entry>>> = Default::default();
    let flog: Arc<Mutex<Vec<(bool, V)>>> = Default::default();
    let mut b = Router::builder(server.clone());
    for &r in &case.registered {
        b = b.accept(NAMES[r], Rec { me: r, log: log.clone() });
    }
    if let Some((u, v)) = case.filter {
        let flog = flog.clone();
        b = b.incoming_filter(Arc::new(move |inc| {
            let validated = inc.remote_addr_validated();
            let verdict = if validated { v } else { u };
            flog.lock().unwrap().push((validated, verdict));
            match verdict {
                V::Accept => IncomingFilterOutcome::Accept,
                V::Reject => IncomingFilterOutcome::Reject,
                V::Ignore => IncomingFilterOutcome::Ignore,
                V::Retry => IncomingFilterOutcome::Retry,
            }
        }));
    }
    let router = b.spawn();
    ph("bound+spawned");
    let addr = dial_addr(&server);
    let offered: Vec<Vec<u8>> = case.offered.iter().map(|&o| NAMES[o].to_vec()).collect();

    // ---- the dial ----
    let d2 = dialer.clone();
    let off2 = offered.clone();
    let mut dial = tokio::spawn(async move {
        let opts = ConnectOptions::new().with_additional_alpns(off2[1..].to_vec());
        let connecting = d2.connect_with_opts(addr, &off2[0], opts).await.map_err(|e| format!("{e:#}"))?;
        connecting.await.map_err(|e| format!("{e:#}"))
    });
    let ignores = matches!(case.filter, Some((V::Ignore, _)) | Some((V::Retry, V::Ignore)));
    let dial_res: Option<Result<Connection, String>> = if ignores {
        // an ignored dial never completes: wait (positive events) until the filter has seen the flow and one
        // retransmission of it, or the dial completes after all; then give the dial up.
        let need = if matches!(case.filter, Some((V::Retry, _))) { 3 } else { 2 };
        let seen = wait_async(POSITIVE_TIMEOUT, || dial.is_finished() || flog.lock().unwrap().len() >= need).await;
        if !seen {
            return Err("machinery: neither dial completion nor filter calls observed".into());
        }
        if dial.is_finished() {
            Some((&mut dial).await.map_err(|e| format!("dial task: {e}"))?)
        } else {
            dial.abort();
            None
        }
    } else {
        match tokio::time::timeout(POSITIVE_TIMEOUT, &mut dial).await {
            Ok(r) => Some(r.map_err(|e| format!("dial task: {e}"))?),
            Err(_) => return Err("machinery: dial neither succeeded nor failed within the time-out".into()),
        }
    };

    ph("dial done");
    let negotiated: Option<Vec<u8>> = match &dial_res {
        Some(Ok(conn)) => Some(conn.alpn().to_vec()),
        _ => None,
    };
    // ---- positive events: if the dialer holds an established connection, the server side has one too;
    // it must be handed to a handler (if the statement allows one) — wait for that.
    if let Some(Ok(conn)) = &dial_res {
        if conn.remote_id() != server.id() {
            return Err("dialer's connection reports a remote id different from the router endpoint".into());
        }
        let expect_any = !exp.candidates.is_empty();
        let t = if expect_any { POSITIVE_TIMEOUT } else { Duration::from_secs(3) };
        let _ = wait_async(t, || log.lock().unwrap().iter().any(|e| e.stage == "accept")).await;
        conn.close(0u32.into(), b"done");
    }
    ph("handler waited");
    // ---- barrier: after shutdown() returned no connection task is left; the handler log is final
    tokio::time::timeout(POSITIVE_TIMEOUT, router.shutdown())
        .await
        .map_err(|_| "machinery: router shutdown timed out".to_string())?
        .map_err(|e| format!("router task failed: {e:?}"))?;
    ph("router shut down");
    // the dialer is not closed gracefully (an abandoned dial would make close() wait ~3 s for draining)
    let dialer_id = dialer.id();
    drop(dialer);

    let log = log.lock().unwrap().clone();
    let flog = flog.lock().unwrap().clone();
    let reached: BTreeSet<usize> = log.iter().map(|e| e.handler).collect();
    let accepts: Vec<&Entry> = log.iter().filter(|e| e.stage == "accept").collect();
    let detail = format!(
        "registered {:?} offered {:?} filter {:?}: dial {} negotiated {:?}; handler log {:?}; filter log {:?}",
        case.registered.iter().map(|&i| show(i)).collect::<Vec<_>>(),
        case.offered.iter().map(|&i| show(i)).collect::<Vec<_>>(),
        case.filter,
        match &dial_res {
            Some(Ok(_)) => "ok".to_string(),
            Some(Err(e)) => format!("failed ({e})"),
            None => "given up".into(),
        },
        negotiated.as_ref().map(|a| String::from_utf8_lossy(a).to_string()),
        log,
        flog
    );
    ctx.sample(&exp.class, &detail);

    // ---- oracle ----
    if exp.candidates.is_empty() {
        if !reached.is_empty() {
            return Err(format!("a handler was reached although the statement allows none: {detail}"));
        }
        return Ok((exp.class, if negotiated.is_some() { "no handler reached (dial established)" } else { "no handler reached" }.into()));
    }
    // a handler is allowed: exactly the one for the negotiated protocol, and only if a connection exists
    let Some(neg) = negotiated else {
        if !reached.is_empty() {
            return Err(format!("a handler was reached for a dial that did not produce a connection: {detail}"));
        }
        // nothing was negotiated, nothing reached: the statement makes no claim (recorded, never counted as reach)
        return Ok((exp.class, "dial failed, no handler reached".into()));
    };
    let Some(neg_idx) = NAMES.iter().position(|n| *n == &neg[..]) else {
        return Err(format!("negotiated protocol is none of the offered ones: {detail}"));
    };
    if !case.offered.contains(&neg_idx) {
        return Err(format!("negotiated protocol was not offered: {detail}"));
    }
    if !exp.candidates.contains(&neg_idx) {
        // negotiated an unregistered protocol: no handler may be reached
        if !reached.is_empty() {
            return Err(format!("handler reached for an unregistered negotiated protocol: {detail}"));
        }
        return Ok((exp.class, "negotiated unregistered protocol, no handler".into()));
    }
    if reached != BTreeSet::from([neg_idx]) {
        return Err(format!("handlers reached {reached:?} but negotiated protocol is {:?}: {detail}", show(neg_idx)));
    }
    if accepts.len() != 1 || log.iter().filter(|e| e.stage == "on_accepting").count() != 1 {
        return Err(format!("the connection was not handed to its handler exactly once: {detail}"));
    }
    let a = accepts[0];
    if a.alpn.as_deref() != Some(&neg[..]) || a.remote != Some(dialer_id) {
        return Err(format!("handler saw another connection than the dialer's: {detail}"));
    }
    // retry clause: reached after a retry request only via an accepted *validated* retry
    if !flog.is_empty() {
        let last = *flog.last().unwrap();
        let asked_retry = flog.iter().any(|f| f.1 == V::Retry);
        if last.1 != V::Accept || (asked_retry && !last.0) {
            return Err(format!("handler reached without the filter accepting the (validated) attempt: {detail}"));
        }
    }
    let how = if flog.iter().any(|f| f.1 == V::Retry) { " after validated retry" } else { "" };
    Ok((exp.class, format!("reached exactly the negotiated protocol's handler{how}")))
}

fn gen_cases(ctx: &Ctx) -> Vec<Case> {
    // registered sets over {a,b,c} plus the prefix-related name a/x
    let mut regs: Vec<Vec<usize>> = subsets_up_to(3, 3);
    regs.push(vec![4]);
    regs.push(vec![0, 4]);
    let offers: Vec<Vec<usize>> = vec![vec![0], vec![1], vec![2], vec![3], vec![4], vec![0, 1], vec![1, 0], vec![3, 0], vec![2, 1, 0]];
    let mut filters: Vec<Option<(V, V)>> = vec![
        None,
        Some((V::Accept, V::Accept)),
        Some((V::Reject, V::Accept)),
        Some((V::Retry, V::Accept)),
        Some((V::Retry, V::Retry)),
        Some((V::Retry, V::Reject)),
    ];
    if ctx.thorough() {
        filters.push(Some((V::Ignore, V::Accept)));
        filters.push(Some((V::Retry, V::Ignore)));
    }
    let regs: Vec<Vec<usize>> = if ctx.thorough() { regs } else { vec![vec![], vec![0], vec![0, 1], vec![0, 4]] };
    let offers: Vec<Vec<usize>> = if ctx.thorough() { offers } else { vec![vec![0], vec![1], vec![3], vec![4], vec![0, 1], vec![1, 0], vec![3, 0]] };
    let mut out = Vec::new();
    for r in &regs {
        for o in &offers {
            for f in &filters {
                out.push(Case { registered: r.clone(), offered: o.clone(), filter: *f });
            }
        }
    }
    // binary (non-UTF-8) protocol names and their lossy look-alike, both tiers
    for (r, o) in [(vec![5usize], vec![5usize]), (vec![5, 6], vec![5]), (vec![5, 6], vec![6]), (vec![6], vec![5]), (vec![0, 5], vec![5, 0])] {
        for f in [None, Some((V::Retry, V::Accept))] {
            out.push(Case { registered: r.clone(), offered: o.clone(), filter: f });
        }
    }
    if !ctx.thorough() {
        // the ignore verdicts: a few only in the quick tier (each costs a retransmission time-out)
        for f in [Some((V::Ignore, V::Accept)), Some((V::Retry, V::Ignore))] {
            for o in [vec![0], vec![1, 0]] {
                out.push(Case { registered: vec![0, 1], offered: o, filter: f });
            }
        }
    }
    out
}

fn main() {
    let ctx = Ctx::from_args("C40", Level::Exploration);
    silence_all_panics();
    ctx.set_rule("complete product registered-protocol sets x offered protocol lists x filter verdict functions (verdict as a function of 'address validated'), one fresh Router endpoint + dialer endpoint on loopback per case; distinct = (filter class, registration class) x observed reach");
    ctx.assume("the negotiated protocol is taken from the dialer's side of the established connection (independent of the router's own view)");
    ctx.assume("absence of a handler invocation is judged after Router::shutdown() returned (no connection task left)");
    ctx.bound("names", (0..NAMES.len()).map(show).collect::<Vec<_>>());
    ctx.min_outcomes(10);
    if let Some(c) = ctx.replay_case::<Case>() {
        run_case(&ctx, &c);
        ctx.finish();
    }
    let cases = gen_cases(&ctx);
    ctx.bound("connects", cases.len());
    let jobs = workers().min(8);
    let chunks: Vec<Vec<Case>> = (0..jobs).map(|j| cases.iter().skip(j).step_by(jobs).cloned().collect()).collect();
    par_for_each(&chunks, |chunk| {
        for c in chunk {
            run_case(&ctx, c);
        }
    });
    ctx.finish();
}
