//! C20 Endpoint builder accepts bind addresses independent of order — E0 exhaustive enumeration of bind-request
//! sequences through the public builder API (`Builder::empty().bind_addr_with_opts(..)...`); no socket is bound:
//! the builder's validation is the whole seam.
use iroh::endpoint::{BindOpts, Builder};
use serde::{Deserialize, Serialize};
use std::collections::BTreeMap;
use std::net::{Ipv4Addr, Ipv6Addr, SocketAddr};
use vh_engine::*;

/// one bind request
#[derive(Serialize, Deserialize, Clone, Copy, Debug, PartialEq, Eq, PartialOrd, Ord, Hash)]
struct Item {
    v6: bool,
    /// prefix class: 0 = /0, 1 = mid (/24, /64), 2 = max (/32, /128), 3 = max+1 (/33, /129)
    prefix: u8,
    /// default-route flag: 0 unset (implicit), 1 explicit true, 2 explicit false
    default: u8,
}
impl Item {
    fn prefix_len(&self) -> u8 {
        match (self.v6, self.prefix) {
            (_, 0) => 0,
            (false, 1) => 24,
            (true, 1) => 64,
            (false, 2) => 32,
            (true, 2) => 128,
            (false, _) => 33,
            (true, _) => 129,
        }
    }
    // ---- statement-level reading of one request ----
    fn prefix_valid(&self) -> bool {
        self.prefix_len() <= if self.v6 { 128 } else { 32 }
    }
    /// explicit flag, else "prefix 0 implies default"
    fn is_default(&self) -> bool {
        match self.default {
            1 => true,
            2 => false,
            _ => self.prefix_len() == 0,
        }
    }
    fn name(&self) -> String {
        format!("{}/{}{}", if self.v6 { "v6" } else { "v4" }, self.prefix_len(), ["", " default=true", " default=false"][self.default as usize])
    }
}

#[derive(Serialize, Deserialize, Clone, Debug, PartialEq, Eq)]
struct Case {
    items: Vec<Item>,
    /// call `clear_ip_transports()` before the first request
    clear_first: bool,
    /// value passed to `set_is_required` on every request
    required: bool,
}

/// Reference model: rejected exactly when more than one socket per family is marked default or a prefix is invalid.
fn model_accepts(items: &[Item]) -> bool {
    let invalid = items.iter().any(|i| !i.prefix_valid());
    let d4 = items.iter().filter(|i| !i.v6 && i.is_default()).count();
    let d6 = items.iter().filter(|i| i.v6 && i.is_default()).count();
    !invalid && d4 <= 1 && d6 <= 1
}
fn classify(items: &[Item]) -> String {
    let invalid = items.iter().any(|i| !i.prefix_valid());
    let d4 = items.iter().filter(|i| !i.v6 && i.is_default()).count();
    let d6 = items.iter().filter(|i| i.v6 && i.is_default()).count();
    let dup = d4 > 1 || d6 > 1;
    let n_fam = |v6: bool| items.iter().filter(|i| i.v6 == v6).count();
    match (invalid, dup) {
        (true, true) => "invalid prefix + duplicate default".into(),
        (true, false) => "invalid prefix".into(),
        (false, true) => "duplicate default".into(),
        (false, false) => {
            let multi = (d4 == 1 && n_fam(false) > 1) || (d6 == 1 && n_fam(true) > 1);
            if items.is_empty() {
                "valid: empty".into()
            } else if multi {
                "valid: one default + other sockets in a family".into()
            } else if d4 + d6 == 0 {
                "valid: no default".into()
            } else {
                "valid: single socket is default".into()
            }
        }
    }
}

/// Runs the sequence through the real builder. Ok(()) = accepted; Err((step, error text)) = rejected at `step`.
fn run_real(c: &Case) -> Result<(), (usize, String)> {
    let mut b = Builder::empty();
    if c.clear_first {
        b = b.clear_ip_transports();
    }
    for (n, it) in c.items.iter().enumerate() {
        let addr: SocketAddr = if it.v6 {
            SocketAddr::new(Ipv6Addr::new(0xfd00, 0, 0, 0, 0, 0, n as u16 + 1, 1).into(), 0)
        } else {
            SocketAddr::new(Ipv4Addr::new(10, 0, n as u8 + 1, 1).into(), 0)
        };
        let mut opts = BindOpts::default().set_prefix_len(it.prefix_len()).set_is_required(c.required);
        match it.default {
            1 => opts = opts.set_is_default_route(true),
            2 => opts = opts.set_is_default_route(false),
            _ => {}
        }
        match b.bind_addr_with_opts(addr, opts) {
            Ok(nb) => b = nb,
            Err(e) => return Err((n, format!("{e}"))),
        }
    }
    Ok(())
}

fn run_case(ctx: &Ctx, c: &Case, agg: &mut BTreeMap<(String, String), u64>) {
    let got = match quiet_catch(|| run_real(c)) {
        Ok(g) => g,
        Err(p) => {
            ctx.discrepancy(None, &format!("panic: {p}"), c);
            return;
        }
    };
    let want = model_accepts(&c.items);
    let names = |items: &[Item]| items.iter().map(|i| i.name()).collect::<Vec<_>>().join(", ");
    if got.is_ok() != want {
        // look for a permutation of the same requests on which the builder answers differently (order dependence witness)
        let mut witness = String::new();
        for p in permutations(c.items.len()) {
            let items: Vec<Item> = p.iter().map(|&i| c.items[i]).collect();
            let alt = Case { items: items.clone(), ..c.clone() };
            if let Ok(r) = quiet_catch(|| run_real(&alt)) {
                if r.is_ok() != got.is_ok() {
                    witness = format!("; the same requests in the order [{}] are {}", names(&items), if r.is_ok() { "accepted" } else { "rejected" });
                    break;
                }
            }
        }
        let what = match &got {
            Ok(()) => format!("[{}] accepted, statement says rejected ({}){witness}", names(&c.items), classify(&c.items)),
            Err((n, e)) => format!("[{}] rejected at request {} ({e}), statement says accepted ({}){witness}", names(&c.items), n + 1, classify(&c.items)),
        };
        ctx.discrepancy(None, &what, c);
        return;
    }
    let outcome = match &got {
        Ok(()) => "accepted".to_string(),
        Err((_, e)) => format!("rejected: {e}"),
    };
    *agg.entry((classify(&c.items), outcome)).or_insert(0) += 1;
}

fn main() {
    let ctx = Ctx::from_args("C20", Level::Exploration);
    let max_items = 4usize;
    ctx.set_rule("every sequence (hence every permutation of every multiset) of <= N bind requests over family {v4,v6} x prefix {0, mid, max, max+1} x default-route flag {unset, true, false} (24 requests), fed to Builder::empty().bind_addr_with_opts in order; thorough additionally x {clear_ip_transports first or not} x {is_required true/false}; distinct = distinct (model class, accepted | rejection text)");
    ctx.assume("a request is 'marked default' when set_is_default_route(true) was called, or when it was not called and the prefix length is 0 (explicit false on /0 is not a default)");
    ctx.assume("which of the two errors is reported when both conditions hold is not compared");
    ctx.bound("max_items", max_items);
    ctx.min_outcomes(8);
    if let Some(c) = ctx.replay_case::<Case>() {
        let mut agg = BTreeMap::new();
        run_case(&ctx, &c, &mut agg);
        for ((class, outcome), n) in agg {
            println!("replay: {class} => {outcome} ({n})");
        }
        ctx.finish();
    }
    let mut alphabet = Vec::new();
    for v6 in [false, true] {
        for prefix in 0..4u8 {
            for default in 0..3u8 {
                alphabet.push(Item { v6, prefix, default });
            }
        }
    }
    let seqs = sequences_up_to(&alphabet, max_items);
    let variants: Vec<(bool, bool)> = vec![(false, true), (true, true), (false, false), (true, false)]; // all builder variants in both tiers (cheap)
    let mut cases = Vec::with_capacity(seqs.len() * variants.len());
    for &(clear_first, required) in &variants {
        for s in &seqs {
            cases.push(Case { items: s.clone(), clear_first, required });
        }
    }
    ctx.bound("cases", cases.len());
    for (i, c) in cases.iter().enumerate().step_by((cases.len() / 11).max(1)) {
        ctx.sample(&format!("case#{i}"), c);
    }
    let chunks: Vec<&[Case]> = cases.chunks(2048).collect();
    par_for_each(&chunks, |chunk| {
        let mut agg = BTreeMap::new();
        for c in chunk.iter() {
            run_case(&ctx, c, &mut agg);
        }
        for ((class, outcome), n) in agg {
            ctx.eval_n(&class, &outcome, n);
        }
    });
    ctx.finish();
}
