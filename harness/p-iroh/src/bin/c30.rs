//! C30 Every lookup service ends up with the latest published address data — E3: all thread schedules of
//! concurrent publish(d1) / publish(d2) / add(service) on the real `AddressLookupServices`
//! (gates: thread start, inside `add_boxed` between handing over the historical data and registering the
//! service, inside `publish` before reading the service list and before storing `last_data`, and inside
//! every service's `publish` callback, which is harness code).
//!
//! Oracle (from the statement): when all calls have returned there is ONE datum d — the latest published:
//! any of the concurrently published ones, never an older one — such that every service (registered
//! before, added concurrently, and a service added afterwards) was most recently given filter(d).
use iroh::address_lookup::{AddrFilter, AddressLookup, AddressLookupServices, EndpointData};
use iroh_base::{RelayUrl, TransportAddr};
use serde::{Deserialize, Serialize};
use std::net::SocketAddr;
use std::str::FromStr;
use std::sync::{Arc, Mutex};
use vh_engine::thrsched::{self, Body};
use vh_engine::*;

#[derive(Clone, Copy, Debug, PartialEq, Eq, Serialize, Deserialize)]
enum Call {
    /// publish datum number n (n >= 1)
    Publish(u8),
    /// add a fresh service
    Add,
}

#[derive(Clone, Debug, Serialize, Deserialize)]
struct Program {
    /// services registered before the concurrent phase
    pre_services: usize,
    /// datum 0 published (sequentially) before the concurrent phase?
    pre_published: bool,
    /// 0 = no address filter, 1 = relay-only filter
    filter: u8,
    /// one call sequence per thread
    threads: Vec<Vec<Call>>,
}

#[derive(Clone, Debug, Serialize, Deserialize)]
struct Case {
    program: Program,
    schedule: Vec<usize>,
}

fn datum(n: u8) -> EndpointData {
    EndpointData::new(vec![
        TransportAddr::Relay(RelayUrl::from_str(&format!("https://relay{n}.example./")).unwrap()),
        TransportAddr::Ip(SocketAddr::from(([10, 0, 0, n], 1000 + n as u16))),
    ])
}
/// what a service must see for datum n under the program's filter (reference: relay-only keeps relay urls)
fn expected_repr(n: u8, filter: u8) -> String {
    let mut v = vec![format!("relay:https://relay{n}.example./")];
    if filter == 0 {
        v.push(format!("ip:10.0.0.{n}:{}", 1000 + n as u16));
    }
    v.sort();
    v.join(",")
}
fn repr(d: &EndpointData) -> String {
    let mut v: Vec<String> = d
        .addrs()
        .map(|a| match a {
            TransportAddr::Relay(u) => format!("relay:{u}"),
            TransportAddr::Ip(s) => format!("ip:{s}"),
            other => format!("other:{other:?}"),
        })
        .collect();
    v.sort();
    v.join(",")
}

#[derive(Debug, Clone)]
struct Recorder {
    log: Arc<Mutex<Vec<String>>>,
}
impl AddressLookup for Recorder {
    fn publish(&self, data: &EndpointData) {
        self.log.lock().unwrap().push(repr(data));
        thrsched::pause("service.publish");
    }
}

struct Obs {
    reg: AddressLookupServices,
    /// logs of all services in creation order: pre-registered ones first, then one per Add call (thread order)
    pre_logs: Vec<Arc<Mutex<Vec<String>>>>,
    added_logs: Vec<Arc<Mutex<Vec<String>>>>,
}

fn mk(program: &Program) -> (Vec<Body>, Obs) {
    let reg = AddressLookupServices::default();
    if program.filter == 1 {
        reg.set_addr_filter(AddrFilter::relay_only());
    }
    let mut pre_logs = vec![];
    for _ in 0..program.pre_services {
        let log = Arc::new(Mutex::new(vec![]));
        reg.add(Recorder { log: log.clone() });
        pre_logs.push(log);
    }
    if program.pre_published {
        iroh::verif::c30::publish(&reg, &datum(0));
    }
    let mut added_logs = vec![];
    let mut bodies: Vec<Body> = vec![];
    for calls in &program.threads {
        let calls = calls.clone();
        let reg2 = reg.clone();
        let mut my_logs = vec![];
        for c in &calls {
            if *c == Call::Add {
                let log = Arc::new(Mutex::new(vec![]));
                added_logs.push(log.clone());
                my_logs.push(log);
            }
        }
        bodies.push(Box::new(move || {
            let mut my_logs = my_logs.into_iter();
            let n_calls = calls.len();
            for (ci, c) in calls.into_iter().enumerate() {
                match c {
                    Call::Publish(n) => iroh::verif::c30::publish(&reg2, &datum(n)),
                    Call::Add => reg2.add(Recorder { log: my_logs.next().unwrap() }),
                }
                // scheduling point between two calls of a thread (the end of the thread is one anyway)
                if ci + 1 < n_calls {
                    thrsched::pause("call-returned");
                }
            }
        }));
    }
    (bodies, Obs { reg, pre_logs, added_logs })
}

/// Returns (outcome, problem)
fn check(program: &Program, x: &thrsched::Execution, obs: &Obs) -> (String, Option<String>) {
    if x.deadlock {
        return ("deadlock".into(), Some(format!("deadlock: threads {:?} blocked forever", x.blocked)));
    }
    if let Some((t, m)) = x.panics.first() {
        return ("panic".into(), Some(format!("thread {t} panicked: {m}")));
    }
    // a service added after everything returned shows what `last_data` is
    let probe = Arc::new(Mutex::new(vec![]));
    obs.reg.add(Recorder { log: probe.clone() });
    let mut lasts: Vec<(String, Option<String>)> = vec![];
    for (i, l) in obs.pre_logs.iter().enumerate() {
        lasts.push((format!("pre-registered#{i}"), l.lock().unwrap().last().cloned()));
    }
    for (i, l) in obs.added_logs.iter().enumerate() {
        lasts.push((format!("added-concurrently#{i}"), l.lock().unwrap().last().cloned()));
    }
    lasts.push(("added-afterwards".into(), probe.lock().unwrap().last().cloned()));
    // candidates for "the latest published data": for each thread its last publish; the latest overall is one of
    // those (publishes of one thread are ordered, publishes of different threads are concurrent)
    let mut candidates: Vec<u8> = program.threads.iter().filter_map(|t| t.iter().rev().find_map(|c| if let Call::Publish(n) = c { Some(*n) } else { None })).collect();
    if candidates.is_empty() && program.pre_published {
        candidates.push(0);
    }
    let summary = lasts.iter().map(|(n, l)| format!("{n}={}", l.clone().unwrap_or_else(|| "nothing".into()))).collect::<Vec<_>>().join(" ");
    if candidates.is_empty() {
        // nothing was ever published: nobody may have been given anything
        return if lasts.iter().all(|(_, l)| l.is_none()) { ("nothing-published".into(), None) } else { ("spurious".into(), Some(format!("data handed out although nothing was published: {summary}"))) };
    }
    for &c in &candidates {
        let want = expected_repr(c, program.filter);
        if lasts.iter().all(|(_, l)| l.as_deref() == Some(want.as_str())) {
            return (format!("all-services-have-d{c}"), None);
        }
    }
    ("inconsistent".into(), Some(format!("no single latest datum: {summary} (candidates {candidates:?}, filter {})", program.filter)))
}

fn programs(thorough: bool) -> Vec<Program> {
    use Call::*;
    let two: Vec<Vec<Vec<Call>>> = vec![vec![vec![Publish(1)], vec![Add]], vec![vec![Publish(1)], vec![Publish(2)]]];
    let three: Vec<Vec<Vec<Call>>> = vec![vec![vec![Publish(1)], vec![Publish(2)], vec![Add]], vec![vec![Publish(1)], vec![Add], vec![Add]]];
    // (pre-registered services, datum 0 published before, filter)
    let base_cfg: Vec<(usize, bool, u8)> = vec![(0, false, 0), (0, true, 0), (1, false, 0), (1, false, 1), (1, true, 0)];
    let mut v = vec![];
    for threads in &two {
        for &(pre_services, pre_published, filter) in &base_cfg {
            v.push(Program { pre_services, pre_published, filter, threads: threads.clone() });
        }
    }
    // quick: one three-thread program; thorough: both shapes under four configurations
    v.push(Program { pre_services: 0, pre_published: false, filter: 0, threads: three[0].clone() });
    if thorough {
        for threads in &three {
            for &(pre_services, pre_published, filter) in &[(0usize, false, 0u8), (0, true, 0), (1, false, 0), (1, false, 1)] {
                if !(std::ptr::eq(threads, &three[0]) && pre_services == 0 && !pre_published) {
                    v.push(Program { pre_services, pre_published, filter, threads: threads.clone() });
                }
            }
        }
        // two pre-registered services (publish iterates over more than one service)
        for threads in &two {
            for filter in [0u8, 1] {
                v.push(Program { pre_services: 2, pre_published: true, filter, threads: threads.clone() });
            }
        }
        // two calls per thread
        v.push(Program { pre_services: 1, pre_published: false, filter: 0, threads: vec![vec![Publish(1), Publish(2)], vec![Add, Publish(3)]] });
    }
    v
}

fn main() {
    let ctx = Ctx::from_args("C30", Level::ModelChecking);
    vh_hooks::install();
    ctx.set_rule(
        "every schedule (which parked thread runs next at each gate) of each program of concurrent publish/add calls on the real \
         AddressLookupServices, unbounded preemptions; one evaluation = one complete schedule; distinct = (program shape, final agreement outcome)",
    );
    ctx.assume("threads interleave only at the gates (thread start, the three gates inside add_boxed/publish, every service callback, return of each call)");
    ctx.assume("a thread blocked on one of the registry's RwLocks is recognised through /proc (futex wait) and is not schedulable until it acquires the lock");
    if let Some(case) = ctx.replay_case::<Case>() {
        let (bodies, obs) = mk(&case.program);
        let x = thrsched::run(bodies, &case.schedule);
        if let Some(d) = &x.diverged {
            machinery_error(&format!("replay diverged: {d}"));
        }
        let (outcome, problem) = check(&case.program, &x, &obs);
        ctx.eval("replay", &outcome);
        if let Some(p) = problem {
            ctx.discrepancy(None, &p, &case);
        }
        ctx.finish();
    }
    let progs = programs(ctx.thorough());
    ctx.bound("programs", progs.len());
    let max_exec = ctx.pick(5_000u64, 200_000u64);
    let (mut executions, mut points, mut maxp) = (0u64, 0u64, 0usize);
    let mut per_program: Vec<String> = vec![];
    for program in &progs {
        let shape = format!(
            "{}|pre-services={}|pre-published={}|filter={}",
            program.threads.iter().map(|t| t.iter().map(|c| match c { Call::Publish(_) => "P", Call::Add => "A" }).collect::<String>()).collect::<Vec<_>>().join("‖"),
            program.pre_services,
            program.pre_published,
            program.filter
        );
        let mut reported = false;
        let (st, capped) = thrsched::explore(
            &|| mk(program),
            &mut |x, obs| {
                let (outcome, problem) = check(program, x, &obs);
                ctx.eval(&shape, &outcome);
                let case = Case { program: program.clone(), schedule: x.choices() };
                ctx.sample(&format!("{shape} => {outcome}"), &case);
                if let Some(p) = problem {
                    if !reported {
                        reported = true;
                        ctx.discrepancy(None, &format!("{shape}: {p}"), &case);
                    }
                }
            },
            None,
            max_exec,
        );
        per_program.push(format!("{shape}: {} schedules, max {} decision points", st.executions, st.max_points));
        executions += st.executions;
        points += st.decision_points;
        maxp = maxp.max(st.max_points);
        if capped {
            ctx.cap_hit(&format!("schedule cap {max_exec} reached for {shape}"));
        }
    }
    ctx.add_states(points);
    ctx.add_transitions(points);
    ctx.add_traces(executions);
    ctx.extra("schedules_executed", executions);
    ctx.extra("schedules_per_program", &per_program);
    ctx.extra("max_decision_points_per_schedule", maxp);
    // every program shape must be seen, and where two publishes race both winners must occur
    ctx.min_outcomes(progs.len() + 2);
    ctx.finish();
}
