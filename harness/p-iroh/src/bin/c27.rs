//! C27 Net report aggregation is order-consistent — E1: breadth-first search over histories of probe reports fed to
//! the real `Report::update` (through `iroh::verif::c27::report_update`), de-duplicated on the pair
//! (real `Report` value — its complete postcard encoding —, reference-model state); plus an exhaustive pair enumeration of `RelayLatencies::merge`.
//!
//! De-duplication argument: `Report::update(&mut self, &ProbeReport)` is a function of the `Report` value alone (plain
//! data, no hidden state, no clock), and the reference model's state is part of the key, so two histories with equal
//! keys have identical futures in both the implementation and the oracle.
use iroh::verif::c27::{Probe, RelayLatencies, Report, latencies_get, latencies_merge, latencies_update, report_update};
use iroh_base::RelayUrl;
use serde::{Deserialize, Serialize};
use std::collections::{BTreeMap, HashSet};
use std::net::SocketAddr;
use std::sync::Mutex;
use std::time::Duration;
use vh_engine::*;

const RELAYS: [&str; 2] = ["https://r1.relay.example./", "https://r2.relay.example./"];
const ADDRS: [&str; 4] = ["192.0.2.1:1001", "198.51.100.7:2002", "[2001:db8::1]:1001", "[2001:db8::2]:2002"];
const KIND_NAMES: [&str; 3] = ["https", "qad-v4", "qad-v6"];

/// one probe report: kind (0 https, 1 qad-v4, 2 qad-v6), relay index, latency (ms), observed address index (ignored for https)
#[derive(Serialize, Deserialize, Clone, Copy, Debug, PartialEq, Eq, Hash)]
struct Op {
    kind: u8,
    relay: u8,
    lat: u8,
    addr: u8,
}

#[derive(Serialize, Deserialize, Clone, Debug, PartialEq, Eq)]
enum Case {
    /// a history of probe reports fed to one fresh Report
    History(Vec<Op>),
    /// two latency tables (slot = kind*2 + relay; 0 = absent, else latency in ms) merged both ways
    Merge([u8; 6], [u8; 6]),
}

fn probe(k: u8) -> Probe {
    match k {
        0 => Probe::Https,
        1 => Probe::QadIpv4,
        _ => Probe::QadIpv6,
    }
}
fn kind_index(p: Probe) -> u8 {
    match p {
        Probe::Https => 0,
        Probe::QadIpv4 => 1,
        Probe::QadIpv6 => 2,
        _ => 99,
    }
}

struct Env {
    urls: Vec<RelayUrl>,
    addrs: Vec<SocketAddr>,
}
fn env() -> Env {
    Env { urls: RELAYS.iter().map(|u| u.parse().unwrap()).collect(), addrs: ADDRS.iter().map(|a| a.parse().unwrap()).collect() }
}

// ---------------- reference model (from the statement) ----------------
#[derive(Clone, Debug, Default, PartialEq, Eq, Hash, PartialOrd, Ord)]
struct FamilyModel {
    /// first observed address (index), number of observations capped at 2, whether two of them differ
    first: Option<u8>,
    count: u8,
    differ: bool,
}
impl FamilyModel {
    fn observe(&mut self, addr: u8) {
        match self.first {
            None => self.first = Some(addr),
            Some(f) => {
                // once the first differs from one observation, or two later ones differ from each other, two differ.
                // (two later observations that differ from each other cannot both equal the first)
                if f != addr {
                    self.differ = true;
                }
            }
        }
        self.count = (self.count + 1).min(2);
    }
    fn mapping_varies(&self) -> Option<bool> {
        if self.count >= 2 { Some(self.differ) } else { None }
    }
}
#[derive(Clone, Debug, Default, PartialEq, Eq, Hash, PartialOrd, Ord)]
struct Model {
    v4: FamilyModel,
    v6: FamilyModel,
    /// (kind, relay) -> minimum latency observed
    lat: BTreeMap<(u8, u8), u8>,
}
impl Model {
    fn apply(&mut self, op: Op) {
        self.lat.entry((op.kind, op.relay)).and_modify(|l| *l = (*l).min(op.lat)).or_insert(op.lat);
        // an address of the wrong family is not an observation for either family
        match op.kind {
            1 if op.addr < 2 => self.v4.observe(op.addr),
            2 if op.addr >= 2 => self.v6.observe(op.addr),
            _ => {}
        }
    }
}

fn table_of(env: &Env, l: &RelayLatencies) -> Result<BTreeMap<(u8, u8), Duration>, String> {
    let mut m = BTreeMap::new();
    for (p, url, d) in l.iter() {
        let r = env.urls.iter().position(|u| u == url).ok_or_else(|| format!("unknown relay {url} in latency table"))? as u8;
        if m.insert((kind_index(p), r), d).is_some() {
            return Err(format!("latency table lists ({p},{url}) twice"));
        }
    }
    Ok(m)
}

/// compare every statement-relevant field of the real report with the model
fn compare(env: &Env, real: &Report, model: &Model) -> Result<(), String> {
    let want_v4 = model.v4.first.map(|i| match env.addrs[i as usize] {
        SocketAddr::V4(a) => a,
        _ => unreachable!(),
    });
    let want_v6 = model.v6.first.map(|i| match env.addrs[i as usize] {
        SocketAddr::V6(a) => a,
        _ => unreachable!(),
    });
    if real.global_v4 != want_v4 {
        return Err(format!("global_v4 = {:?}, first observed = {want_v4:?}", real.global_v4));
    }
    if real.global_v6 != want_v6 {
        return Err(format!("global_v6 = {:?}, first observed = {want_v6:?}", real.global_v6));
    }
    if real.mapping_varies_by_dest_ipv4 != model.v4.mapping_varies() {
        return Err(format!("mapping_varies_by_dest_ipv4 = {:?}, statement gives {:?}", real.mapping_varies_by_dest_ipv4, model.v4.mapping_varies()));
    }
    if real.mapping_varies_by_dest_ipv6 != model.v6.mapping_varies() {
        return Err(format!("mapping_varies_by_dest_ipv6 = {:?}, statement gives {:?}", real.mapping_varies_by_dest_ipv6, model.v6.mapping_varies()));
    }
    let got = table_of(env, &real.relay_latency)?;
    let want: BTreeMap<(u8, u8), Duration> = model.lat.iter().map(|(k, &l)| (*k, Duration::from_millis(l as u64))).collect();
    if got != want {
        return Err(format!("relay latencies {got:?}, minima observed {want:?}"));
    }
    // the per-relay lookup returns the lowest of the per-kind minima
    for (r, url) in env.urls.iter().enumerate() {
        let want = want.iter().filter(|((_, rr), _)| *rr as usize == r).map(|(_, d)| *d).min();
        let got = latencies_get(&real.relay_latency, url);
        if got != want {
            return Err(format!("RelayLatencies::get({url}) = {got:?}, lowest observed {want:?}"));
        }
    }
    Ok(())
}

fn describe(h: &[Op]) -> String {
    h.iter()
        .map(|o| if o.kind == 0 { format!("{}(r{},{}ms)", KIND_NAMES[0], o.relay + 1, o.lat) } else { format!("{}(r{},{}ms,{})", KIND_NAMES[o.kind as usize], o.relay + 1, o.lat, ADDRS[o.addr as usize]) })
        .collect::<Vec<_>>()
        .join(" ")
}

fn run_history(ctx: &Ctx, env: &Env, h: &[Op]) -> Option<(Report, Model)> {
    let mut real = Report::default();
    let mut model = Model::default();
    for (i, &op) in h.iter().enumerate() {
        let r = quiet_catch(|| report_update(&mut real, probe(op.kind), env.urls[op.relay as usize].clone(), Duration::from_millis(op.lat as u64), env.addrs[op.addr as usize]));
        if let Err(p) = r {
            ctx.discrepancy(None, &format!("panic: {p} at step {} of {}", i + 1, describe(h)), Case::History(h.to_vec()));
            return None;
        }
        model.apply(op);
        if let Err(why) = compare(env, &real, &model) {
            ctx.discrepancy(None, &format!("{why} after step {} of history {}", i + 1, describe(h)), Case::History(h[..=i].to_vec()));
            return None;
        }
    }
    Some((real, model))
}

fn ops(lats: &[u8]) -> Vec<Op> {
    let mut v = Vec::new();
    for relay in 0..2u8 {
        for &lat in lats {
            v.push(Op { kind: 0, relay, lat, addr: 0 });
            for kind in 1..=2u8 {
                for addr in 0..4u8 {
                    v.push(Op { kind, relay, lat, addr });
                }
            }
        }
    }
    v
}

fn outcome_class(m: &Model, op: Op) -> (&'static str, String) {
    let class = match op.kind {
        0 => "https probe",
        1 if op.addr < 2 => "qad-v4 probe",
        2 if op.addr >= 2 => "qad-v6 probe",
        _ => "qad probe, wrong-family address",
    };
    let fam = |f: &FamilyModel| match (f.first.is_some(), f.mapping_varies()) {
        (false, _) => "no-global",
        (true, None) => "global/varies-unset",
        (true, Some(false)) => "global/varies-false",
        (true, Some(true)) => "global/varies-true",
    };
    (class, format!("v4:{} v6:{}", fam(&m.v4), fam(&m.v6)))
}

struct Node {
    real: Report,
    model: Model,
    hist: Vec<Op>,
}

/// De-duplication key: the complete real state (postcard encoding of the whole `Report`) + the model state.
fn key_of(real: &Report, model: &Model) -> Vec<u8> {
    let mut k = postcard::to_stdvec(real).unwrap_or_else(|e| machinery_error(&format!("cannot serialize Report: {e}")));
    k.push(0xff);
    for f in [&model.v4, &model.v6] {
        k.extend([f.first.map(|x| x + 1).unwrap_or(0), f.count, f.differ as u8]);
    }
    for (&(kind, relay), &l) in &model.lat {
        k.extend([kind, relay, l]);
    }
    k
}

/// one real transition: clone the parent's Report, apply the operation with the real `Report::update`, compare with the model
fn step(ctx: &Ctx, env: &Env, n: &Node, op: Op) -> Option<(Report, Model)> {
    let mut real = n.real.clone();
    let r = quiet_catch(|| report_update(&mut real, probe(op.kind), env.urls[op.relay as usize].clone(), Duration::from_millis(op.lat as u64), env.addrs[op.addr as usize]));
    let hist = || {
        let mut h = n.hist.clone();
        h.push(op);
        h
    };
    if let Err(p) = r {
        ctx.discrepancy(None, &format!("panic: {p} in history {}", describe(&hist())), Case::History(hist()));
        return None;
    }
    let mut model = n.model.clone();
    model.apply(op);
    if let Err(why) = compare(env, &real, &model) {
        ctx.discrepancy(None, &format!("{why} after history {}", describe(&hist())), Case::History(hist()));
        return None;
    }
    Some((real, model))
}

fn bfs(ctx: &Ctx, env: &Env, menu: &[Op], max_depth: usize) {
    let mut seen: HashSet<Vec<u8>> = HashSet::new();
    let root = Node { real: Report::default(), model: Model::default(), hist: vec![] };
    seen.insert(key_of(&root.real, &root.model));
    ctx.add_states(1);
    let mut frontier = vec![root];
    let mut depth_done = 0;
    let mut exhausted = false;
    for depth in 1..=max_depth {
        // parallel phase: execute every (frontier state, operation) transition on the real code; report the keys of
        // successors that were not seen at an earlier level (`seen` is only read here)
        let fresh: Mutex<Vec<(usize, usize, Vec<u8>)>> = Mutex::new(Vec::new());
        let idx: Vec<usize> = (0..frontier.len()).collect();
        let chunks: Vec<&[usize]> = idx.chunks(64).collect();
        par_for_each(&chunks, |chunk| {
            let mut local = Vec::new();
            let mut agg: BTreeMap<(&'static str, String), u64> = BTreeMap::new();
            for &i in chunk.iter() {
                let n = &frontier[i];
                for (j, &op) in menu.iter().enumerate() {
                    let Some((real, model)) = step(ctx, env, n, op) else { continue };
                    let (class, outcome) = outcome_class(&model, op);
                    *agg.entry((class, outcome)).or_insert(0) += 1;
                    let key = key_of(&real, &model);
                    if !seen.contains(&key) {
                        local.push((i, j, key));
                    }
                }
            }
            for ((class, outcome), n) in agg {
                ctx.eval_n(class, &outcome, n);
            }
            fresh.lock().unwrap().extend(local);
        });
        ctx.add_transitions((frontier.len() * menu.len()) as u64);
        ctx.add_traces((frontier.len() * menu.len()) as u64);
        // sequential phase: deterministic order, first history reaching a new state represents it
        let mut fresh = fresh.into_inner().unwrap();
        fresh.sort();
        let mut next = Vec::new();
        for (i, j, key) in fresh {
            if seen.insert(key) {
                let n = &frontier[i];
                let op = menu[j];
                if let Some((real, model)) = step(ctx, env, n, op) {
                    let mut hist = n.hist.clone();
                    hist.push(op);
                    next.push(Node { real, model, hist });
                }
            }
        }
        ctx.add_states(next.len() as u64);
        depth_done = depth;
        frontier = next;
        if frontier.is_empty() {
            exhausted = true;
            break;
        }
        if ctx.violations() > 0 {
            break;
        }
    }
    ctx.bound("bfs_depth_completed", depth_done);
    ctx.bound("bfs_fixpoint_reached", exhausted);
    if !exhausted && ctx.violations() == 0 {
        ctx.extra("frontier_at_depth_bound", frontier.len());
    }
}

fn table_from(env: &Env, slots: &[u8; 6]) -> RelayLatencies {
    let mut l = RelayLatencies::default();
    for (s, &v) in slots.iter().enumerate() {
        if v != 0 {
            latencies_update(&mut l, env.urls[s % 2].clone(), Duration::from_millis(v as u64), probe((s / 2) as u8));
        }
    }
    l
}

fn run_merge(ctx: &Ctx, env: &Env, a: &[u8; 6], b: &[u8; 6]) -> Option<&'static str> {
    let ta = table_from(env, a);
    let tb = table_from(env, b);
    let r = quiet_catch(|| {
        let mut ab = ta.clone();
        latencies_merge(&mut ab, &tb);
        let mut ba = tb.clone();
        latencies_merge(&mut ba, &ta);
        (ab, ba)
    });
    let case = Case::Merge(*a, *b);
    let (ab, ba) = match r {
        Ok(x) => x,
        Err(p) => {
            ctx.discrepancy(None, &format!("panic in merge: {p}"), &case);
            return None;
        }
    };
    // reference: slot-wise minimum of the present values
    let mut want = BTreeMap::new();
    for s in 0..6 {
        let v = match (a[s], b[s]) {
            (0, 0) => continue,
            (0, x) | (x, 0) => x,
            (x, y) => x.min(y),
        };
        want.insert(((s / 2) as u8, (s % 2) as u8), Duration::from_millis(v as u64));
    }
    let got_ab = match table_of(env, &ab) {
        Ok(t) => t,
        Err(e) => {
            ctx.discrepancy(None, &e, &case);
            return None;
        }
    };
    let got_ba = match table_of(env, &ba) {
        Ok(t) => t,
        Err(e) => {
            ctx.discrepancy(None, &e, &case);
            return None;
        }
    };
    if ab != ba || got_ab != got_ba {
        ctx.discrepancy(None, &format!("merge is not commutative: a={a:?} b={b:?}: a+b={got_ab:?} b+a={got_ba:?}"), &case);
        return None;
    }
    if got_ab != want {
        ctx.discrepancy(None, &format!("merge does not keep minima: a={a:?} b={b:?}: got {got_ab:?} want {want:?}"), &case);
        return None;
    }
    let disjoint = (0..6).all(|s| a[s] == 0 || b[s] == 0);
    let a_wins = (0..6).any(|s| a[s] != 0 && b[s] != 0 && a[s] < b[s]);
    let b_wins = (0..6).any(|s| a[s] != 0 && b[s] != 0 && b[s] < a[s]);
    Some(match (disjoint, a_wins, b_wins) {
        (true, _, _) => "disjoint tables",
        (_, true, true) => "minima from both sides",
        (_, true, false) => "overlap, left lower",
        (_, false, true) => "overlap, right lower",
        _ => "overlap, equal",
    })
}

fn main() {
    let ctx = Ctx::from_args("C27", Level::ModelChecking);
    let lat_max = 3u8;
    let max_depth = ctx.pick(4usize, 40usize);
    ctx.set_rule("part 1: BFS over histories of probe reports {https, qad-v4, qad-v6} x relay {r1,r2} x latency {1,2,3 ms} x observed address {two IPv4, two IPv6 — incl. the wrong family for the probe} (54 operations), each applied to the real Report by Report::update; states de-duplicated on (complete postcard encoding of the real Report, reference-model state); quick: depth <= 4, thorough: to the fixpoint. part 2: every ordered pair of latency tables over 6 (kind, relay) slots x {absent, 1..k ms} merged both ways with the real RelayLatencies::merge (k = 2 quick, 3 thorough). distinct = distinct (operation class, resulting family-state) / merge classes");
    ctx.assume("a QAD probe reporting an address of the other family is not an observation for either family (its latency still counts)");
    ctx.assume("Report::update is a pure function of the Report value and the probe report (de-duplication key = whole serialized Report + model state)");
    ctx.bound("max_depth", max_depth);
    ctx.min_outcomes(20);
    let env = env();
    if let Some(c) = ctx.replay_case::<Case>() {
        match c {
            Case::History(h) => {
                if run_history(&ctx, &env, &h).is_some() {
                    println!("replay: history conforms");
                }
            }
            Case::Merge(a, b) => {
                if let Some(k) = run_merge(&ctx, &env, &a, &b) {
                    println!("replay: merge conforms ({k})");
                }
            }
        }
        ctx.finish();
    }
    let menu = ops(&(1..=lat_max).collect::<Vec<_>>());
    ctx.bound("operations", menu.len());
    ctx.sample("history", Case::History(vec![menu[1], menu[14], menu[30]]));
    bfs(&ctx, &env, &menu, max_depth);

    // part 2: merge
    let k = ctx.pick(2u8, 3u8);
    let mut tables: Vec<[u8; 6]> = vec![[0; 6]];
    for s in 0..6 {
        let mut next = Vec::new();
        for t in &tables {
            for v in 0..=k {
                let mut t2 = *t;
                t2[s] = v;
                next.push(t2);
            }
        }
        tables = next;
    }
    ctx.bound("merge_tables", tables.len());
    ctx.sample("merge", Case::Merge(tables[tables.len() / 3], tables[tables.len() / 2 + 1]));
    let idx: Vec<usize> = (0..tables.len()).collect();
    par_for_each(&idx, |&i| {
        let mut agg: BTreeMap<&'static str, u64> = BTreeMap::new();
        for b in &tables {
            if let Some(kind) = run_merge(&ctx, &env, &tables[i], b) {
                *agg.entry(kind).or_insert(0) += 1;
            }
        }
        for (kind, n) in agg {
            ctx.eval_n("merge", kind, n);
        }
        ctx.add_transitions(tables.len() as u64);
        ctx.add_traces(tables.len() as u64);
    });
    ctx.finish();
}
