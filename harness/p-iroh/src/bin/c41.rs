//! C41 Router shutdown returns only after handlers and endpoint are shut down — E5: a real `Router` on a
//! real loopback `Endpoint`; every order of {caller A/B/C starts `shutdown()`, caller A gives up, gate
//! release, external `endpoint.close()`} is executed. The `shutdown()` futures are polled BY HAND (a caller
//! "awaits" exactly when the harness holds its pending future), the handler's `shutdown` parks on a harness
//! gate, and after each step the harness waits only for the positive events the step must produce.
use std::collections::BTreeSet;
use std::sync::Arc;
use std::sync::atomic::{AtomicU32, Ordering};
use std::task::Poll;

use iroh::endpoint::Connection;
use iroh::protocol::{AcceptError, ProtocolHandler, Router};
use serde::{Deserialize, Serialize};
use vh_engine::*;
use vh_p_iroh::e5_router::*;

#[derive(Serialize, Deserialize, Clone, Copy, Debug, PartialEq, Eq, PartialOrd, Ord, Hash)]
enum Act {
    /// clone `i` of the router starts `shutdown()` (future created and polled once)
    Call(u8),
    /// caller 0 gives up: its pending `shutdown()` future is dropped
    DropA,
    /// the handler's gate is opened
    Release,
    /// somebody else closes the endpoint (awaited to completion)
    CloseExt,
}

#[derive(Serialize, Deserialize, Clone, Debug)]
struct Case {
    seq: Vec<Act>,
}

/// Handler whose `shutdown` parks on a harness gate.
#[derive(Debug, Clone)]
struct Gated {
    st: Arc<GState>,
}
#[derive(Debug, Default)]
struct GState {
    entered: Fact,
    done: Fact,
    calls: AtomicU32,
    gate: tokio::sync::watch::Sender<bool>,
}
impl ProtocolHandler for Gated {
    async fn accept(&self, _c: Connection) -> Result<(), AcceptError> {
        Ok(())
    }
    async fn shutdown(&self) {
        self.st.calls.fetch_add(1, Ordering::SeqCst);
        let mut rx = self.st.gate.subscribe();
        self.st.entered.set();
        // parks until the harness opens the gate
        let _ = rx.wait_for(|open| *open).await;
        self.st.done.set();
    }
}
/// Second handler with a `shutdown` that yields a few times and completes by itself.
#[derive(Debug, Clone)]
struct Plain {
    done: Arc<Fact>,
}
impl ProtocolHandler for Plain {
    async fn accept(&self, _c: Connection) -> Result<(), AcceptError> {
        Ok(())
    }
    async fn shutdown(&self) {
        for _ in 0..3 {
            tokio::task::yield_now().await;
        }
        self.done.set();
    }
}

#[derive(Clone, Copy, PartialEq, Eq, Debug, PartialOrd, Ord)]
enum CallSt {
    NotStarted,
    Pending,
    Returned,
    Dropped,
}

/// Reference model state: just the facts the statement talks about plus what the harness did.
#[derive(Clone, Debug, PartialEq, Eq, PartialOrd, Ord)]
struct Model {
    calls: [CallSt; 3],
    /// position of each call in the order in which calls were started (1-based, 0 = not started)
    order: [u8; 3],
    started: u8,
    gate_open: bool,
    ext_closed: bool,
}

struct Exec<'a> {
    ctx: &'a Ctx,
    case: &'a Case,
    ep: iroh::Endpoint,
    router: Router,
    g: Arc<GState>,
    plain_done: Arc<Fact>,
    futs: Vec<Option<HandPolled<Result<(), String>>>>,
    m: Model,
    log: Vec<String>,
    states: BTreeSet<Model>,
}

impl Exec<'_> {
    /// The oracle, straight from the statement: evaluated at the instant a call returns.
    fn returned(&mut self, i: usize, res: Result<(), String>, how: &str) {
        let handler_done = self.g.done.get() && self.plain_done.get();
        let closed = self.ep.is_closed();
        self.m.calls[i] = CallSt::Returned;
        let order = self.m.order[i];
        let class = format!(
            "call#{order} gate-{} at return{}{}",
            if self.m.gate_open { "open" } else { "closed" },
            if self.m.ext_closed { ", endpoint closed externally" } else { "" },
            if self.m.calls.contains(&CallSt::Dropped) { ", an earlier caller gave up" } else { "" },
        );
        self.log.push(format!("caller {i} returned ({how}) {res:?} handler_done={handler_done} endpoint_closed={closed}"));
        if handler_done && closed {
            self.ctx.eval(&class, "handlers shut down and endpoint closed");
        } else {
            self.ctx.eval(&class, "RETURNED EARLY");
            self.ctx.discrepancy(
                None,
                &format!(
                    "shutdown() of clone {i} returned {res:?} while handler-shutdown-completed={handler_done} endpoint-closed={closed}; steps {:?}; log {:?}",
                    self.case.seq, self.log
                ),
                self.case,
            );
        }
    }

    fn poll_call(&mut self, i: usize, first: bool) {
        let r = self.futs[i].as_mut().unwrap().poll_once();
        match r {
            Poll::Ready(res) => self.returned(i, res, if first { "first-poll" } else { "woken" }),
            Poll::Pending => {
                if first {
                    self.m.calls[i] = CallSt::Pending;
                    self.log.push(format!("caller {i} is awaiting"));
                }
            }
        }
    }

    /// Has shutting down been set in motion (so the handler's shutdown must get invoked)?
    fn triggered(&self) -> bool {
        self.m.started > 0 || self.m.ext_closed
    }
    /// Did a caller give up? (An implementation may tie the run task's life to that caller's future.)
    fn aborted(&self) -> bool {
        self.m.calls.contains(&CallSt::Dropped)
    }

    /// Wait for the positive events the last step must produce, re-polling woken callers.
    fn settle(&mut self) {
        if !self.triggered() {
            self.repoll_woken_nowait();
            return;
        }
        // after a caller gave up, an implementation may have aborted the run task: the events below are
        // then not guaranteed, so they are waited for only briefly and their absence is not reported
        let tmo = if self.aborted() { std::time::Duration::from_secs(3) } else { POSITIVE_TIMEOUT };
        if !wait_until(tmo, || self.g.entered.get()) {
            self.log.push("TIMEOUT: handler shutdown never invoked".into());
            return;
        }
        if !self.m.gate_open {
            // handler is parked: nothing further can happen by itself. Callers that are pending stay pending
            // on correct code; a caller woken now would be re-polled (and judged) below.
            self.repoll_woken_nowait();
            return;
        }
        if !wait_until(tmo, || self.g.done.get() && self.plain_done.get()) {
            self.log.push("TIMEOUT: handler shutdown never completed".into());
            return;
        }
        // the run task now closes the endpoint and ends: pending callers get woken; with no caller the
        // router flags itself shut down.
        let pend: Vec<usize> = (0..3).filter(|&i| self.m.calls[i] == CallSt::Pending).collect();
        if pend.is_empty() {
            if !wait_until(tmo, || self.router.is_shutdown() && self.ep.is_closed()) {
                self.log.push("TIMEOUT: run task did not finish".into());
            }
            return;
        }
        for i in pend {
            let r = self.futs[i].as_mut().unwrap().drive(tmo);
            match r {
                Some(res) => self.returned(i, res, "woken"),
                None => self.log.push(format!("TIMEOUT: caller {i} never woken although shutdown completed")),
            }
        }
    }

    fn repoll_woken_nowait(&mut self) {
        for i in 0..3 {
            if self.m.calls[i] == CallSt::Pending && self.futs[i].as_ref().unwrap().wait_woken(std::time::Duration::ZERO) {
                self.poll_call(i, false);
            }
        }
    }

    fn step(&mut self, rt: &tokio::runtime::Runtime, a: Act) {
        match a {
            Act::Call(i) => {
                let i = i as usize;
                let r = self.router.clone();
                self.futs[i] = Some(HandPolled::new(async move { r.shutdown().await.map_err(|e| format!("{e:?}")) }));
                self.m.started += 1;
                self.m.order[i] = self.m.started;
                self.poll_call(i, true);
            }
            Act::DropA => {
                if self.m.calls[0] == CallSt::Pending {
                    self.futs[0].as_mut().unwrap().cancel();
                    self.m.calls[0] = CallSt::Dropped;
                    self.log.push("caller 0 gave up".into());
                }
            }
            Act::Release => {
                self.g.gate.send_replace(true);
                self.m.gate_open = true;
            }
            Act::CloseExt => {
                let ep = self.ep.clone();
                rt.block_on(async move { ep.close().await });
                self.m.ext_closed = true;
            }
        }
        self.ctx.add_transitions(1);
        self.settle();
        self.states.insert(self.m.clone());
    }
}

fn run_case(ctx: &Ctx, case: &Case) {
    let r = quiet_catch(|| run_case_inner(ctx, case));
    if let Err(p) = r {
        ctx.discrepancy(None, &format!("panic: {p}"), case);
    }
}

fn run_case_inner(ctx: &Ctx, case: &Case) {
    let rt = runtime(2);
    let _enter = rt.enter();
    let ep = rt.block_on(async { loopback_builder(secret(1)).bind().await }).unwrap_or_else(|e| machinery_error(&format!("bind: {e:?}")));
    let g = Arc::new(GState::default());
    let plain_done = Arc::new(Fact::default());
    let router = Router::builder(ep.clone())
        .accept(b"c41/gated", Gated { st: g.clone() })
        .accept(b"c41/plain", Plain { done: plain_done.clone() })
        .spawn();
    let mut ex = Exec {
        ctx,
        case,
        ep: ep.clone(),
        router,
        g: g.clone(),
        plain_done,
        futs: vec![None, None, None],
        m: Model { calls: [CallSt::NotStarted; 3], order: [0; 3], started: 0, gate_open: false, ext_closed: false },
        log: vec![],
        states: BTreeSet::new(),
    };
    ex.states.insert(ex.m.clone());
    for &a in &case.seq {
        ex.step(&rt, a);
    }
    // closing phase: open the gate and let every caller that is still awaiting return (judged as above)
    if !ex.m.gate_open {
        ex.step(&rt, Act::Release);
    }
    let mut end = Vec::new();
    for i in 0..3 {
        let s = match ex.m.calls[i] {
            CallSt::Pending => {
                // only reachable when an earlier caller gave up (run task possibly aborted) or on a time-out
                match ex.futs[i].as_mut().unwrap().drive(std::time::Duration::from_secs(10)) {
                    Some(res) => {
                        ex.returned(i, res, "woken");
                        "returned"
                    }
                    None => "never-returns",
                }
            }
            CallSt::NotStarted => "-",
            CallSt::Returned => "returned",
            CallSt::Dropped => "gave-up",
        };
        end.push(s);
    }
    let timeouts = ex.log.iter().filter(|l| l.starts_with("TIMEOUT")).count();
    ctx.eval(
        &format!("end: callers {end:?}"),
        &format!(
            "handler-shutdown-invocations={} {}",
            g.calls.load(Ordering::SeqCst),
            if timeouts > 0 { "expected-event-missing" } else { "all-expected-events-seen" }
        ),
    );
    if timeouts > 0 && !ex.m.calls.contains(&CallSt::Dropped) {
        // not a verdict of the property (which is about returns), but never silently ignored
        ctx.cap_hit(&format!("expected positive event missing in {:?}: {:?}", case.seq, ex.log));
    }
    ALL_STATES.lock().unwrap().extend(ex.states.iter().map(|m| format!("{m:?}")));
    ctx.add_traces(1);
    ctx.sample(&format!("{} steps", case.seq.len()), serde_json::json!({"case": case, "log": ex.log}));
    // tidy up
    drop(ex);
    let _ = rt.block_on(async { tokio::time::timeout(std::time::Duration::from_secs(5), ep.close()).await });
    drop(_enter);
    rt.shutdown_timeout(std::time::Duration::from_secs(2));
}

/// distinct reference-model states visited over the whole run
static ALL_STATES: std::sync::Mutex<BTreeSet<String>> = std::sync::Mutex::new(BTreeSet::new());

/// All orders of all subsets of `acts` (no repetition); `DropA` only directly meaningful after `Call(0)`.
fn gen_cases(acts: &[Act]) -> Vec<Case> {
    fn rec(acts: &[Act], used: &mut Vec<bool>, cur: &mut Vec<Act>, out: &mut Vec<Case>) {
        out.push(Case { seq: cur.clone() });
        for i in 0..acts.len() {
            if used[i] {
                continue;
            }
            if acts[i] == Act::DropA && !cur.contains(&Act::Call(0)) {
                continue;
            }
            used[i] = true;
            cur.push(acts[i]);
            rec(acts, used, cur, out);
            cur.pop();
            used[i] = false;
        }
    }
    let mut out = Vec::new();
    rec(acts, &mut vec![false; acts.len()], &mut Vec::new(), &mut out);
    out
}

fn main() {
    let ctx = Ctx::from_args("C41", Level::ModelChecking);
    silence_all_panics();
    ctx.set_rule("every order of every subset (no repetition) of the step menu, executed on a real Router/Endpoint on loopback; a step = one caller starts shutdown() on its own clone (future polled once by hand), caller A drops its pending future, gate release, external endpoint.close() awaited; after each step the harness waits for the positive events implied (handler shutdown entered / completed, pending callers woken and re-polled); at the end the gate is opened and all awaiting callers are driven to return. Oracle at every return: both handlers' shutdown completed AND endpoint.is_closed(). Distinct = (call order, gate state, external close, drop) x verdict");
    ctx.assume("external endpoint.close() is one atomic step (awaited to completion); a close still in flight in another task is not explored");
    ctx.assume("the hand-polled futures are the only callers; the run task and endpoint actors run on a 2-worker real-time runtime and are only waited for through positive events");
    let menu: Vec<Act> = if ctx.thorough() {
        vec![Act::Call(0), Act::Call(1), Act::Call(2), Act::DropA, Act::Release, Act::CloseExt]
    } else {
        vec![Act::Call(0), Act::Call(1), Act::DropA, Act::Release, Act::CloseExt]
    };
    ctx.bound("menu", format!("{menu:?}"));
    ctx.min_outcomes(8);
    if let Some(c) = ctx.replay_case::<Case>() {
        run_case(&ctx, &c);
        ctx.add_states(ALL_STATES.lock().unwrap().len() as u64);
        ctx.finish();
    }
    let cases = gen_cases(&menu);
    ctx.bound("orders", cases.len());
    // a handful of cases in parallel: each owns its runtime, endpoint and sockets
    let jobs = workers().min(6);
    let chunks: Vec<Vec<Case>> = (0..jobs).map(|j| cases.iter().skip(j).step_by(jobs).cloned().collect()).collect();
    par_for_each(&chunks, |chunk| {
        for c in chunk {
            run_case(&ctx, c);
        }
    });
    ctx.add_states(ALL_STATES.lock().unwrap().len() as u64);
    ctx.finish();
}
