//! C29 Address lookup results stream follows its documented protocol — E1 on the public API:
//! `AddressLookupServices::resolve` over scripted services whose streams are driven by hand; every
//! interleaving of "service i produces its next output" and "the consumer polls once".
//!
//! Reference (from the statement): the stream yields exactly the multiset of items and per-service errors
//! produced; after every participating service has ended it ends — with one NoResults failure carrying all
//! errors iff no item was produced, with one NoServiceConfigured failure iff no service is configured,
//! otherwise directly; nothing after the end. A poll answers Pending only when nothing produced is
//! outstanding and some service is still running, and then the next production wakes the consumer.
use iroh::address_lookup::{AddressLookup, AddressLookupFailed, AddressLookupServices, EndpointInfo, Error as LookupError, Item};
use iroh_base::{EndpointId, SecretKey};
use n0_future::{Stream, boxed::BoxStream};
use serde::{Deserialize, Serialize};
use std::collections::VecDeque;
use std::pin::Pin;
use std::sync::atomic::{AtomicU64, Ordering};
use std::sync::{Arc, Mutex};
use std::task::{Context, Poll, Wake, Waker};
use vh_engine::*;

#[derive(Clone, Copy, Debug, PartialEq, Eq, Serialize, Deserialize)]
enum El {
    Item,
    Err,
}

/// service kinds: None = declines (resolve returns None), Some(script) = produces the script then ends
fn kinds() -> Vec<(&'static str, Option<Vec<El>>)> {
    vec![
        ("decline", None),
        ("empty", Some(vec![])),
        ("item", Some(vec![El::Item])),
        ("error", Some(vec![El::Err])),
        ("error-item", Some(vec![El::Err, El::Item])),
        ("item-error", Some(vec![El::Item, El::Err])),
        ("two-items", Some(vec![El::Item, El::Item])),
        ("two-errors", Some(vec![El::Err, El::Err])),
    ]
}

#[derive(Clone, Copy, Debug, PartialEq, Eq, Serialize, Deserialize)]
enum Step {
    /// service i produces its next output (an element of its script, or — after the script — the end of its stream)
    Emit(usize),
    /// the consumer polls the merged stream once
    Poll,
}

#[derive(Serialize, Deserialize, Clone, Debug)]
struct Case {
    services: Vec<usize>,
    steps: Vec<Step>,
}

#[derive(Default)]
struct Chan {
    queue: VecDeque<Result<Item, LookupError>>,
    closed: bool,
    waker: Option<Waker>,
}
struct ChanStream(Arc<Mutex<Chan>>);
impl Stream for ChanStream {
    type Item = Result<Item, LookupError>;
    fn poll_next(self: Pin<&mut Self>, cx: &mut Context<'_>) -> Poll<Option<Self::Item>> {
        let mut c = self.0.lock().unwrap();
        if let Some(x) = c.queue.pop_front() {
            return Poll::Ready(Some(x));
        }
        if c.closed {
            return Poll::Ready(None);
        }
        c.waker = Some(cx.waker().clone());
        Poll::Pending
    }
}
#[derive(Debug)]
struct Scripted {
    chan: Option<Arc<Mutex<Chan>>>,
    resolves: Arc<AtomicU64>,
}
impl std::fmt::Debug for Chan {
    fn fmt(&self, f: &mut std::fmt::Formatter<'_>) -> std::fmt::Result {
        write!(f, "Chan")
    }
}
impl AddressLookup for Scripted {
    fn resolve(&self, _endpoint_id: EndpointId) -> Option<BoxStream<Result<Item, LookupError>>> {
        self.resolves.fetch_add(1, Ordering::SeqCst);
        self.chan.as_ref().map(|c| Box::pin(ChanStream(c.clone())) as BoxStream<_>)
    }
}

const PROV: [[&str; 3]; 3] = [["s0-x0", "s0-x1", "s0-x2"], ["s1-x0", "s1-x1", "s1-x2"], ["s2-x0", "s2-x1", "s2-x2"]];

fn remote() -> EndpointId {
    SecretKey::from_bytes(&[5u8; 32]).public()
}
fn mk_item(svc: usize, n: usize) -> Item {
    Item::new(EndpointInfo::new(remote()), PROV[svc][n], Some((svc * 10 + n) as u64))
}
fn mk_err(svc: usize, n: usize) -> LookupError {
    LookupError::from_err(PROV[svc][n], std::io::Error::other(format!("scripted failure {svc}/{n}")))
}
fn err_id(e: &LookupError) -> String {
    format!("{e}")
}

struct CountWaker(AtomicU64);
impl Wake for CountWaker {
    fn wake(self: Arc<Self>) {
        self.0.fetch_add(1, Ordering::SeqCst);
    }
    fn wake_by_ref(self: &Arc<Self>) {
        self.0.fetch_add(1, Ordering::SeqCst);
    }
}

#[derive(Clone, Debug, PartialEq, Eq, PartialOrd, Ord)]
enum Y {
    Item(String),
    Err(String),
}

#[derive(Clone, Debug, PartialEq, Eq)]
enum PollRes {
    Pending,
    Yield(Y),
    FailNoResults(Vec<String>),
    FailNoService,
    FailOther,
    End,
}

/// What the next steps may be, computed by the executor for the explorer.
struct Outcome {
    /// services that still have something to emit
    can_emit: Vec<usize>,
    can_poll: bool,
    problems: Vec<String>,
    class: String,
    outcome: String,
}

fn execute(case: &Case) -> Outcome {
    let kinds = kinds();
    let reg = AddressLookupServices::default();
    let mut chans: Vec<Option<Arc<Mutex<Chan>>>> = vec![];
    let mut scripts: Vec<Vec<El>> = vec![];
    let mut resolves = vec![];
    for &k in &case.services {
        let (_, script) = &kinds[k];
        let chan = script.as_ref().map(|_| Arc::new(Mutex::new(Chan::default())));
        let r = Arc::new(AtomicU64::new(0));
        reg.add(Scripted { chan: chan.clone(), resolves: r.clone() });
        chans.push(chan);
        scripts.push(script.clone().unwrap_or_default());
        resolves.push(r);
    }
    let mut stream = Box::pin(reg.resolve(remote()));
    let counter = Arc::new(CountWaker(AtomicU64::new(0)));
    let waker = Waker::from(counter.clone());
    let mut problems = vec![];
    for (i, r) in resolves.iter().enumerate() {
        if r.load(Ordering::SeqCst) != 1 {
            problems.push(format!("service {i} was asked to resolve {} times", r.load(Ordering::SeqCst)));
        }
    }
    // model
    let participating: Vec<usize> = (0..chans.len()).filter(|i| chans[*i].is_some()).collect();
    let mut emitted = vec![0usize; chans.len()]; // script elements produced; script.len()+1 = ended
    let mut produced: Vec<Y> = vec![]; // everything produced so far, not yet yielded
    let mut all_errors: Vec<String> = vec![];
    let mut items_produced = 0usize;
    let mut yielded_items = 0usize;
    let mut ended = false; // the stream reported its end (terminal failure or None)
    let mut terminal_seen: Option<PollRes> = None;
    let mut polls_after_end = 0usize;
    let mut last_pending = false;
    let mut wakes_at_pending = 0u64;
    let mut pendings = 0usize;
    for (si, step) in case.steps.iter().enumerate() {
        match *step {
            Step::Emit(i) => {
                let chan = chans[i].as_ref().expect("emit on declining service").clone();
                let n = emitted[i];
                let mut c = chan.lock().unwrap();
                if n < scripts[i].len() {
                    match scripts[i][n] {
                        El::Item => {
                            let it = mk_item(i, n);
                            produced.push(Y::Item(format!("{}#{:?}", it.provenance(), it.last_updated())));
                            items_produced += 1;
                            c.queue.push_back(Ok(it));
                        }
                        El::Err => {
                            let e = mk_err(i, n);
                            produced.push(Y::Err(err_id(&e)));
                            all_errors.push(err_id(&e));
                            c.queue.push_back(Err(e));
                        }
                    }
                } else {
                    c.closed = true;
                }
                emitted[i] = n + 1;
                let w = c.waker.take();
                drop(c);
                if let Some(w) = w {
                    w.wake();
                }
                if last_pending && counter.0.load(Ordering::SeqCst) == wakes_at_pending {
                    problems.push(format!("step {si}: the consumer was told Pending, then service {i} produced output, and the consumer was not woken"));
                }
            }
            Step::Poll => {
                let mut cx = Context::from_waker(&waker);
                let r = match stream.as_mut().poll_next(&mut cx) {
                    Poll::Pending => PollRes::Pending,
                    Poll::Ready(None) => PollRes::End,
                    Poll::Ready(Some(Ok(Ok(item)))) => PollRes::Yield(Y::Item(format!("{}#{:?}", item.provenance(), item.last_updated()))),
                    Poll::Ready(Some(Ok(Err(e)))) => PollRes::Yield(Y::Err(err_id(&e))),
                    Poll::Ready(Some(Err(AddressLookupFailed::NoResults { errors, .. }))) => PollRes::FailNoResults(errors.iter().map(err_id).collect()),
                    Poll::Ready(Some(Err(AddressLookupFailed::NoServiceConfigured { .. }))) => PollRes::FailNoService,
                    Poll::Ready(Some(Err(_))) => PollRes::FailOther,
                };
                last_pending = r == PollRes::Pending;
                if last_pending {
                    wakes_at_pending = counter.0.load(Ordering::SeqCst);
                    pendings += 1;
                }
                let all_ended = participating.iter().all(|&i| emitted[i] == scripts[i].len() + 1);
                if ended {
                    polls_after_end += 1;
                    if r != PollRes::End {
                        problems.push(format!("step {si}: {r:?} after the end of the stream"));
                    }
                    continue;
                }
                match &r {
                    PollRes::Pending => {
                        if !produced.is_empty() {
                            problems.push(format!("step {si}: Pending although {:?} was produced and not yet yielded", produced));
                        } else if all_ended {
                            problems.push(format!("step {si}: Pending although every service has ended"));
                        }
                    }
                    PollRes::Yield(y) => match produced.iter().position(|p| p == y) {
                        Some(pos) => {
                            produced.remove(pos);
                            if matches!(y, Y::Item(_)) {
                                yielded_items += 1;
                            }
                        }
                        None => problems.push(format!("step {si}: yielded {y:?}, which no service produced (or it was yielded before)")),
                    },
                    PollRes::FailNoResults(errs) => {
                        ended = true; // a terminal failure; the next poll must be None
                        terminal_seen = Some(r.clone());
                        if case.services.is_empty() {
                            problems.push(format!("step {si}: NoResults although no service is configured"));
                        }
                        if !all_ended || !produced.is_empty() {
                            problems.push(format!("step {si}: NoResults before every service ended / everything was yielded"));
                        }
                        if items_produced > 0 {
                            problems.push(format!("step {si}: NoResults although {items_produced} item(s) were produced"));
                        }
                        let (mut a, mut b) = (errs.clone(), all_errors.clone());
                        a.sort();
                        b.sort();
                        if a != b {
                            problems.push(format!("step {si}: NoResults carries {a:?}, the services produced {b:?}"));
                        }
                    }
                    PollRes::FailNoService => {
                        ended = true;
                        terminal_seen = Some(r.clone());
                        if !case.services.is_empty() {
                            problems.push(format!("step {si}: NoServiceConfigured although {} service(s) are configured", case.services.len()));
                        }
                    }
                    PollRes::FailOther => problems.push(format!("step {si}: unknown failure")),
                    PollRes::End => {
                        ended = true;
                        if terminal_seen.is_none() {
                            terminal_seen = Some(PollRes::End);
                        }
                        if !all_ended || !produced.is_empty() {
                            problems.push(format!("step {si}: the stream ended while services were still running or {:?} was never yielded", produced));
                        }
                        if case.services.is_empty() {
                            problems.push(format!("step {si}: ended without the NoServiceConfigured failure"));
                        } else if items_produced == 0 {
                            problems.push(format!("step {si}: ended without the NoResults failure although no item was produced"));
                        }
                    }
                }
            }
        }
    }
    // a terminal failure must be followed by None: `ended` is set when it is seen, later polls are checked above.
    let can_emit: Vec<usize> = participating.iter().copied().filter(|&i| emitted[i] <= scripts[i].len()).collect();
    // polling is useful unless the consumer was just told Pending and nothing was produced since, or the end was confirmed twice
    let emitted_since_pending = !matches!(case.steps.last(), Some(Step::Poll));
    let can_poll = if ended { polls_after_end < 2 } else { !last_pending || emitted_since_pending };
    let names: Vec<&str> = case.services.iter().map(|k| kinds[*k].0).collect();
    let class = format!("services[{}] items={} errors={}", names.join(","), items_produced.min(1), all_errors.len().min(1));
    let outcome = format!(
        "terminal={} yielded-items={} pendings={}",
        match &terminal_seen {
            None => "-".to_string(),
            Some(PollRes::FailNoResults(e)) => format!("NoResults({})", e.len()),
            Some(PollRes::FailNoService) => "NoService".into(),
            Some(PollRes::End) => "None".into(),
            Some(o) => format!("{o:?}"),
        },
        yielded_items.min(1),
        pendings.min(1)
    );
    Outcome { can_emit, can_poll, problems, class, outcome }
}

/// Stateless DFS over all step sequences for one service set. Returns (nodes, leaves).
fn explore_set(ctx: &Ctx, services: &[usize]) -> (u64, u64) {
    let mut stack: Vec<Vec<Step>> = vec![vec![]];
    let (mut nodes, mut leaves) = (0u64, 0u64);
    while let Some(steps) = stack.pop() {
        let case = Case { services: services.to_vec(), steps };
        let out = match quiet_catch(|| execute(&case)) {
            Ok(o) => o,
            Err(p) => {
                ctx.discrepancy(None, &format!("panic: {p}"), &case);
                continue;
            }
        };
        nodes += 1;
        if let Some(p) = out.problems.first() {
            ctx.discrepancy(None, p, &case);
            continue; // do not explore below a violation
        }
        let mut children = 0;
        if out.can_poll {
            let mut s = case.steps.clone();
            s.push(Step::Poll);
            stack.push(s);
            children += 1;
        }
        for i in out.can_emit {
            let mut s = case.steps.clone();
            s.push(Step::Emit(i));
            stack.push(s);
            children += 1;
        }
        if children == 0 {
            leaves += 1;
            ctx.eval(&out.class, &out.outcome);
            ctx.sample(&format!("{} => {}", out.class, out.outcome), &case);
        }
    }
    (nodes, leaves)
}

fn main() {
    let ctx = Ctx::from_args("C29", Level::ModelChecking);
    ctx.set_rule(
        "for every ordered tuple of scripted services (bounded size), every sequence of steps {service i produces its next output | consumer polls once} \
         until every service ended and the end of the stream was confirmed by two further polls; executed by re-running the real \
         AddressLookupServices::resolve stream from scratch for every prefix; one evaluation = one complete interleaving (leaf); \
         distinct = (service kinds + whether items/errors exist, terminal item + whether items were yielded + whether Pending occurred)",
    );
    ctx.assume("services end their streams eventually and wake the waker they were polled with (the scripted services do)");
    if let Some(case) = ctx.replay_case::<Case>() {
        match quiet_catch(|| execute(&case)) {
            Ok(o) => {
                ctx.eval(&o.class, &o.outcome);
                for p in o.problems {
                    ctx.discrepancy(None, &p, &case);
                }
            }
            Err(p) => ctx.discrepancy(None, &format!("panic: {p}"), &case),
        }
        ctx.finish();
    }
    let nk = kinds().len();
    let outputs = |k: usize| kinds()[k].1.as_ref().map(|s| s.len()).unwrap_or(0);
    let mut sets: Vec<Vec<usize>> = vec![vec![]];
    for a in 0..nk {
        sets.push(vec![a]);
        for b in 0..nk {
            // quick: pairs with at most 3 scripted outputs in total; thorough: every pair
            if ctx.thorough() || outputs(a) + outputs(b) <= 3 {
                sets.push(vec![a, b]);
            }
        }
    }
    // three services: scripts with at most one element in the quick tier, up to 3 outputs in total in the thorough tier
    let small: Vec<usize> = (0..nk).filter(|k| kinds()[*k].1.as_ref().map(|s| s.len() <= 1).unwrap_or(true)).collect();
    if ctx.thorough() {
        for a in 0..nk {
            for b in 0..nk {
                for c in 0..nk {
                    let total: usize = [a, b, c].iter().map(|k| kinds()[*k].1.as_ref().map(|s| s.len()).unwrap_or(0)).sum();
                    if total <= 3 {
                        sets.push(vec![a, b, c]);
                    }
                }
            }
        }
    } else {
        for &a in &small {
            for &b in &small {
                for &c in &small {
                    let total: usize = [a, b, c].iter().map(|k| kinds()[*k].1.as_ref().map(|s| s.len()).unwrap_or(0)).sum();
                    if total <= 2 {
                        sets.push(vec![a, b, c]);
                    }
                }
            }
        }
    }
    ctx.bound("service_kinds", kinds().iter().map(|k| k.0).collect::<Vec<_>>());
    ctx.bound("service_sets", sets.len());
    ctx.bound("max_services", 3);
    let nodes = AtomicU64::new(0);
    let leaves = AtomicU64::new(0);
    let per_set: std::sync::Mutex<Vec<(u64, String)>> = std::sync::Mutex::new(vec![]);
    par_for_each(&sets, |s| {
        let (n, l) = explore_set(&ctx, s);
        per_set.lock().unwrap().push((n, format!("{:?}: {n} nodes, {l} complete interleavings", s.iter().map(|k| kinds()[*k].0).collect::<Vec<_>>())));
        nodes.fetch_add(n, Ordering::Relaxed);
        leaves.fetch_add(l, Ordering::Relaxed);
    });
    ctx.add_states(nodes.load(Ordering::Relaxed));
    ctx.add_transitions(nodes.load(Ordering::Relaxed).saturating_sub(sets.len() as u64));
    ctx.add_traces(nodes.load(Ordering::Relaxed));
    ctx.extra("complete_interleavings", leaves.load(Ordering::Relaxed));
    let mut per_set = per_set.into_inner().unwrap();
    per_set.sort_by(|a, b| b.cmp(a));
    ctx.extra("largest_service_sets", per_set.iter().take(8).map(|x| x.1.clone()).collect::<Vec<_>>());
    ctx.min_outcomes(20);
    ctx.finish();
}
