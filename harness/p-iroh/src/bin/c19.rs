//! C19 Outgoing datagrams go out the transport their address designates — E0 (exhaustive configurations x
//! destinations x sources against the real dispatch over real bound sockets) + E5 (loopback delivery, real endpoint).
//!
//! Part D  real `TransportsSender::poll_send` over every set of bound IP sockets x destination x optional source;
//!         observed = the `ip_sender.poll_send` hook event (which socket was handed the datagram) and, for loopback
//!         destinations, the source port seen by a harness listener.
//! Part T  the same sender for relay / custom paths with harness-held relay and custom ends.
//! Part Q  the real `noq::UdpSender` (`Sender`) of a bound endpoint's socket over a harness-built sender: synthetic
//!         relay / custom / per-endpoint / unknown addresses, plain IP, failures never fatal unless closed.
use iroh::endpoint::transports::{CustomSender, Transmit};
use iroh::verif::c19::{self, IpSock, Polled, Senders};
use iroh_base::{CustomAddr, EndpointAddr, EndpointId, RelayUrl, SecretKey, TransportAddr};
use serde::{Deserialize, Serialize};
use std::collections::BTreeSet;
use std::net::{IpAddr, Ipv6Addr, SocketAddr, SocketAddrV6};
use std::sync::{Arc, Mutex};
use std::task::Poll;
use std::time::Duration;
use vh_engine::*;

// ------------------------------------------------------------------------------------------------ cases
#[derive(Serialize, Deserialize, Clone, Debug, PartialEq, Eq, PartialOrd, Ord)]
struct Sock {
    addr: String,
    prefix: u8,
    scope: u32,
    default: bool,
}
impl Sock {
    fn ip(&self) -> IpAddr {
        self.addr.parse().unwrap()
    }
    fn real(&self) -> IpSock {
        IpSock { addr: self.ip(), prefix: self.prefix, scope_id: self.scope, is_default: self.default }
    }
    fn of(s: &IpSock) -> Sock {
        Sock { addr: s.addr.to_string(), prefix: s.prefix, scope: s.scope_id, default: s.is_default }
    }
}

#[derive(Serialize, Deserialize, Clone, Debug)]
enum Case {
    /// Part D: one socket set, all destinations x sources
    Dispatch { socks: Vec<Sock>, only: Option<(String, Option<String>)> },
    /// Part T
    Synthetic { n_relay: usize, custom_ids: Vec<u64> },
    /// Part Q (a whole scripted scenario on one endpoint)
    Quic,
}

static THOROUGH: std::sync::atomic::AtomicBool = std::sync::atomic::AtomicBool::new(false);
fn thorough() -> bool {
    THOROUGH.load(std::sync::atomic::Ordering::Relaxed)
}
fn v4_pool() -> Vec<(&'static str, u8)> {
    let mut v = vec![("127.0.0.1", 8), ("127.0.1.1", 24), ("127.0.2.1", 24), ("0.0.0.0", 0), ("127.0.1.2", 16)];
    if thorough() {
        // an equal-prefix tie with 127.0.2.1/24 and a host route
        v.extend([("127.0.2.2", 24), ("127.0.0.2", 32)]);
    }
    v
}
fn v6_pool() -> Vec<(&'static str, u8, u32)> {
    vec![("::1", 128, 0), ("::", 0, 0), ("::1", 64, 3)]
}
/// destinations (port is filled in with the listener's port)
fn dsts(v6: bool) -> Vec<&'static str> {
    if v6 {
        vec!["::1", "fd00::9", "fe80::1%3", "fe80::1%0", "fe80::2%7", "2001:db8::1"]
    } else {
        let mut v = vec!["127.0.0.1", "127.0.1.9", "127.0.2.9", "127.9.9.9", "127.0.1.1", "10.1.2.3"];
        if thorough() {
            v.extend(["127.0.0.2", "192.0.2.9", "127.0.255.255"]);
        }
        v
    }
}
fn srcs(v6: bool) -> Vec<Option<&'static str>> {
    if v6 {
        vec![None, Some("::1"), Some("fd00::2"), Some("127.0.0.1")]
    } else {
        let mut v = vec![None, Some("127.0.0.1"), Some("127.0.1.1"), Some("127.0.2.1"), Some("127.0.1.2"), Some("127.0.3.3"), Some("::1")];
        if thorough() {
            v.extend([Some("127.0.2.2"), Some("127.0.0.2"), Some("0.0.0.0")]);
        }
        v
    }
}
fn parse_dst(s: &str, port: u16) -> SocketAddr {
    if let Some((ip, scope)) = s.split_once('%') {
        SocketAddr::V6(SocketAddrV6::new(ip.parse().unwrap(), port, 0, scope.parse().unwrap()))
    } else {
        SocketAddr::new(s.parse().unwrap(), port)
    }
}

/// every set of <= k sockets of the pool, with no default or exactly one member flagged default
fn socket_sets(v6: bool, k: usize) -> Vec<Vec<Sock>> {
    let pool: Vec<Sock> = if v6 {
        v6_pool().into_iter().map(|(a, p, s)| Sock { addr: a.into(), prefix: p, scope: s, default: false }).collect()
    } else {
        v4_pool().into_iter().map(|(a, p)| Sock { addr: a.into(), prefix: p, scope: 0, default: false }).collect()
    };
    let mut out = Vec::new();
    for sub in subsets_up_to(pool.len(), k) {
        for d in 0..=sub.len() {
            let mut set: Vec<Sock> = sub.iter().map(|&i| pool[i].clone()).collect();
            if d > 0 {
                set[d - 1].default = true;
            }
            out.push(set);
        }
    }
    out
}

// ------------------------------------------------------------------------------------------------ reference router
fn net_contains(sock: &Sock, ip: IpAddr) -> bool {
    match (sock.ip(), ip) {
        (IpAddr::V4(a), IpAddr::V4(b)) => {
            let m = if sock.prefix == 0 { 0 } else { u32::MAX << (32 - sock.prefix as u32) };
            u32::from(a) & m == u32::from(b) & m
        }
        (IpAddr::V6(a), IpAddr::V6(b)) => {
            let m = if sock.prefix == 0 { 0 } else { u128::MAX << (128 - sock.prefix as u32) };
            u128::from(a) & m == u128::from(b) & m
        }
        _ => false,
    }
}
fn is_link_local_v6(ip: IpAddr) -> bool {
    matches!(ip, IpAddr::V6(a) if a.segments()[0] & 0xffc0 == 0xfe80)
}
fn same_family(a: IpAddr, b: IpAddr) -> bool {
    a.is_ipv4() == b.is_ipv4()
}

/// The statement's router: the set of sockets the datagram may be handed to; empty = must be dropped.
/// (second component: a label of the rule that decided, used as class)
fn reference(socks: &[Sock], dst: SocketAddr, src: Option<IpAddr>) -> (Vec<Sock>, &'static str) {
    match src {
        Some(src) => {
            // "handed to a socket bound to that source or to a wildcard address, else to the family's default-route socket"
            if !same_family(src, dst.ip()) {
                // the statement does not say which family; allow the default-route socket of either family, or a drop
                let d: Vec<Sock> = socks.iter().filter(|s| s.default).cloned().collect();
                return (d, "src:family-mismatch");
            }
            let fam: Vec<&Sock> = socks.iter().filter(|s| same_family(s.ip(), src)).collect();
            let m: Vec<Sock> = fam.iter().filter(|s| s.ip() == src || s.ip().is_unspecified()).map(|s| (*s).clone()).collect();
            if !m.is_empty() {
                return (m, "src:bound-or-wildcard");
            }
            let d: Vec<Sock> = fam.iter().filter(|s| s.default).map(|s| (*s).clone()).collect();
            if d.is_empty() { (d, "src:no-socket-drop") } else { (d, "src:default-route") }
        }
        None => {
            let fam: Vec<&Sock> = socks.iter().filter(|s| same_family(s.ip(), dst.ip())).collect();
            let containing: Vec<&&Sock> = fam.iter().filter(|s| net_contains(s, dst.ip())).collect();
            let best = containing.iter().map(|s| s.prefix).max();
            let mut m: Vec<Sock> = containing.iter().filter(|s| Some(s.prefix) == best).map(|s| (**s).clone()).collect();
            let mut label = "dst:longest-prefix";
            if is_link_local_v6(dst.ip()) {
                // "(or, for link-local IPv6, on the destination's scope)": both readings are accepted
                let scope = match dst {
                    SocketAddr::V6(a) => a.scope_id(),
                    _ => 0,
                };
                for s in fam.iter().filter(|s| s.scope == scope) {
                    if !m.contains(s) {
                        m.push((*s).clone());
                    }
                }
                label = if containing.is_empty() { "dst:link-local-scope" } else { "dst:prefix-or-scope" };
            }
            if !m.is_empty() {
                return (m, label);
            }
            let d: Vec<Sock> = fam.iter().filter(|s| s.default).map(|s| (*s).clone()).collect();
            if d.is_empty() { (d, "dst:no-socket-drop") } else { (d, "dst:default-route") }
        }
    }
}

// ------------------------------------------------------------------------------------------------ Part D
fn rt() -> tokio::runtime::Runtime {
    tokio::runtime::Builder::new_current_thread().enable_all().build().unwrap()
}

fn run_dispatch(ctx: &Ctx, socks: &[Sock], only: &Option<(String, Option<String>)>) {
    let case_of = |d: &str, s: Option<&str>| Case::Dispatch { socks: socks.to_vec(), only: Some((d.to_string(), s.map(|x| x.to_string()))) };
    let r = quiet_catch(|| {
        rt().block_on(async {
            seams::reset_local();
            let v6 = socks.iter().any(|s| s.ip().is_ipv6());
            let real: Vec<IpSock> = socks.iter().map(|s| s.real()).collect();
            let mut senders = match Senders::new(&real, 0, vec![]) {
                Ok(s) => s,
                Err(e) => return Err(format!("cannot bind {socks:?}: {e}")),
            };
            let bound = senders.ip_sockets();
            // one listener per family on the wildcard address: sees every loopback destination of that port
            let listener = tokio::net::UdpSocket::bind(if v6 { "[::]:0" } else { "0.0.0.0:0" }).await.map_err(|e| e.to_string())?;
            let port = listener.local_addr().unwrap().port();
            let mut n = 0u32;
            for d in dsts(v6) {
                for s in srcs(v6) {
                    if let Some((od, os)) = only {
                        if od != d || os.as_deref() != s {
                            continue;
                        }
                    }
                    n += 1;
                    let dst = parse_dst(d, port);
                    let src: Option<IpAddr> = s.map(|x| x.parse().unwrap());
                    let (allowed, rule) = reference(socks, dst, src);
                    let payload = format!("c19-{n}").into_bytes();
                    seams::take_events();
                    // a UDP socket answers Pending until it is known to be writable: poll again, as QUIC's driver would
                    let mut res = senders.send_ip(dst, src, &payload).await;
                    let mut polls = 1;
                    while res == Polled::Pending && polls < 500 {
                        tokio::time::sleep(Duration::from_millis(1)).await;
                        res = senders.send_ip(dst, src, &payload).await;
                        polls += 1;
                    }
                    let evs: Vec<String> = seams::take_events().into_iter().filter(|(l, _)| l == "ip_sender.poll_send").map(|(_, d)| d).collect();
                    // which socket(s) were handed the datagram (every poll dispatches again: all polls must agree)
                    let mut handed: Vec<Sock> = Vec::new();
                    for e in &evs {
                        match bound.iter().find(|(b, _)| e.starts_with(&b.event_key())) {
                            Some((b, _)) => {
                                if !handed.contains(&Sock::of(b)) {
                                    handed.push(Sock::of(b))
                                }
                            }
                            None => return Err(format!("event {e} matches no bound socket")),
                        }
                    }
                    if !handed.is_empty() && evs.len() != polls {
                        return Err(format!("{} dispatch events for {polls} polls", evs.len()));
                    }
                    let class = format!("{}{}", if v6 { "v6 " } else { "v4 " }, rule);
                    if handed.len() > 1 {
                        ctx.discrepancy(None, &format!("datagram to {dst} src {src:?} handed to {} sockets: {handed:?}", handed.len()), case_of(d, s));
                        continue;
                    }
                    match handed.first() {
                        None => {
                            if !allowed.is_empty() && rule != "src:family-mismatch" {
                                ctx.discrepancy(None, &format!("datagram to {dst} src {src:?} over {socks:?} was dropped; statement routes it to one of {allowed:?} ({rule})"), case_of(d, s));
                                continue;
                            }
                            if res != Polled::Ok {
                                ctx.discrepancy(None, &format!("dropped datagram reported {res:?}"), case_of(d, s));
                                continue;
                            }
                            ctx.eval(&class, "dropped");
                        }
                        Some(h) => {
                            if !allowed.contains(h) {
                                ctx.discrepancy(
                                    None,
                                    &format!("datagram to {dst} src {src:?} over {socks:?} handed to {h:?}; statement allows {allowed:?} ({rule})"),
                                    case_of(d, s),
                                );
                                continue;
                            }
                            // end-to-end on loopback: the listener must see the datagram coming from that socket's port
                            let local_port = bound.iter().find(|(b, _)| Sock::of(b) == *h).unwrap().1.port();
                            if std::env::var_os("C19_DEBUG").is_some() {
                                eprintln!("dst={dst} src={src:?} handed={h:?} res={res:?}");
                            }
                            let mut delivery = "not-deliverable";
                            if res == Polled::Ok && dst.ip().is_loopback() {
                                let mut buf = [0u8; 64];
                                let got = tokio::time::timeout(Duration::from_millis(2000), async {
                                    loop {
                                        let (len, from) = listener.recv_from(&mut buf).await.unwrap();
                                        if buf[..len] == payload[..] {
                                            return from;
                                        }
                                    }
                                })
                                .await;
                                match got {
                                    Ok(from) if from.port() == local_port => delivery = "delivered-from-that-socket",
                                    Ok(from) => {
                                        ctx.discrepancy(None, &format!("datagram handed to {h:?} (port {local_port}) arrived from {from}"), case_of(d, s));
                                        continue;
                                    }
                                    Err(_) => delivery = "sent-but-not-received",
                                }
                            } else if let Polled::Err(_) = res {
                                delivery = "os-send-error";
                            } else if res == Polled::Pending {
                                delivery = "socket-never-writable";
                            } else {
                                delivery = "sent-to-non-loopback";
                            }
                            let how = if h.ip().is_unspecified() { "wildcard" } else if Some(h.ip()) == src { "bound-to-src" } else if h.default && !net_contains(h, dst.ip()) { "default" } else { "prefix" };
                            ctx.eval(&class, &format!("handed:{how} {delivery}"));
                        }
                    }
                }
            }
            seams::clear_local();
            Ok(())
        })
    });
    match r {
        Ok(Ok(())) => {}
        Ok(Err(e)) => machinery_error(&format!("C19 dispatch harness: {e}")),
        Err(p) => ctx.discrepancy(None, &format!("panic: {p}"), Case::Dispatch { socks: socks.to_vec(), only: only.clone() }),
    }
}

// ------------------------------------------------------------------------------------------------ harness custom sender
#[derive(Debug)]
struct RecCustom {
    id: u64,
    calls: Mutex<Vec<(CustomAddr, Option<CustomAddr>, Vec<u8>)>>,
    answer: Mutex<&'static str>, // "ok" | "err" | "pending"
}
impl RecCustom {
    fn new(id: u64) -> Arc<Self> {
        Arc::new(Self { id, calls: Mutex::new(vec![]), answer: Mutex::new("ok") })
    }
}
impl CustomSender for RecCustom {
    fn is_valid_send_addr(&self, addr: &CustomAddr) -> bool {
        addr.id() == self.id
    }
    fn poll_send(&self, _cx: &mut std::task::Context, dst: &CustomAddr, src: Option<&CustomAddr>, transmit: &Transmit<'_>) -> Poll<std::io::Result<()>> {
        self.calls.lock().unwrap().push((dst.clone(), src.cloned(), transmit.contents.to_vec()));
        match *self.answer.lock().unwrap() {
            "ok" => Poll::Ready(Ok(())),
            "err" => Poll::Ready(Err(std::io::Error::other("custom transport failed"))),
            _ => Poll::Pending,
        }
    }
}

fn key(i: u8) -> EndpointId {
    SecretKey::from_bytes(&[i; 32]).public()
}
fn relay_url(i: usize) -> RelayUrl {
    ["https://r0.example.com./", "https://r1.example.com./"][i].parse().unwrap()
}

// ------------------------------------------------------------------------------------------------ Part T
fn run_synthetic(ctx: &Ctx, n_relay: usize, custom_ids: &[u64]) {
    let case = Case::Synthetic { n_relay, custom_ids: custom_ids.to_vec() };
    let r = quiet_catch(|| {
        rt().block_on(async {
            seams::reset_local();
            let customs: Vec<Arc<RecCustom>> = custom_ids.iter().map(|&i| RecCustom::new(i)).collect();
            let socks = [IpSock { addr: "127.0.0.1".parse().unwrap(), prefix: 8, scope_id: 0, is_default: true }];
            let mut senders = Senders::new(&socks, n_relay, customs.iter().map(|c| c.clone() as Arc<dyn CustomSender>).collect()).map_err(|e| e.to_string())?;
            let mut bad: Option<String> = None;
            // relay paths
            for (u, k) in [(0usize, 1u8), (1, 2)] {
                seams::take_events();
                let payload = format!("relay-{u}-{k}").into_bytes();
                let res = senders.send_relay(relay_url(u), key(k), &payload).await;
                let ip_events = seams::take_events().iter().filter(|(l, _)| l == "ip_sender.poll_send").count();
                let got: Vec<Vec<(RelayUrl, EndpointId, Vec<u8>)>> = (0..n_relay).map(|i| senders.relay_received(i)).collect();
                let total: usize = got.iter().map(|g| g.len()).sum();
                let custom_calls: usize = customs.iter().map(|c| c.calls.lock().unwrap().len()).sum();
                if ip_events > 0 || custom_calls > 0 {
                    bad.get_or_insert(format!("relay datagram leaked to ip ({ip_events}) / custom ({custom_calls}) transports"));
                }
                if n_relay == 0 {
                    if total != 0 || res != Polled::Ok {
                        bad.get_or_insert(format!("relay datagram without relay transport: {res:?}"));
                    }
                    ctx.eval("T relay-path no-relay-transport", "dropped");
                } else {
                    let ok = total == 1 && got.iter().flatten().all(|(gu, gk, gp)| *gu == relay_url(u) && *gk == key(k) && *gp == payload);
                    if !ok || res != Polled::Ok {
                        bad.get_or_insert(format!("relay datagram for ({}, {}) handed as {got:?}, result {res:?}", relay_url(u), key(k).fmt_short()));
                    }
                    ctx.eval(&format!("T relay-path {n_relay}-relay-transports"), "handed to exactly one relay path with its url+endpoint");
                }
            }
            // custom paths: ids 1, 2 and an id nobody serves
            for id in [1u64, 2, 9] {
                for c in &customs {
                    c.calls.lock().unwrap().clear();
                }
                seams::take_events();
                let remote = CustomAddr::from_parts(id, &[id as u8; 4]);
                let local = Some(CustomAddr::from_parts(id, &[0xaa; 2]));
                let res = senders.send_custom(remote.clone(), local.clone(), b"custom").await;
                let ip_events = seams::take_events().iter().filter(|(l, _)| l == "ip_sender.poll_send").count();
                let relay_items: usize = (0..n_relay).map(|i| senders.relay_received(i).len()).sum();
                if ip_events > 0 || relay_items > 0 {
                    bad.get_or_insert(format!("custom datagram leaked to ip ({ip_events}) / relay ({relay_items}) transports"));
                }
                let served = custom_ids.contains(&id);
                for c in &customs {
                    let calls = c.calls.lock().unwrap().clone();
                    if c.id == id {
                        if calls != vec![(remote.clone(), local.clone(), b"custom".to_vec())] {
                            bad.get_or_insert(format!("custom sender {id} saw {calls:?}"));
                        }
                    } else if !calls.is_empty() {
                        bad.get_or_insert(format!("custom datagram for id {id} handed to the sender of id {}", c.id));
                    }
                }
                if !served && res != Polled::Ok {
                    bad.get_or_insert(format!("custom datagram without serving transport: {res:?}"));
                }
                ctx.eval(&format!("T custom-path served={served}"), if served { "handed only to its custom transport" } else { "dropped" });
            }
            seams::clear_local();
            Ok::<Option<String>, String>(bad)
        })
    });
    match r {
        Ok(Ok(None)) => {}
        Ok(Ok(Some(b))) => ctx.discrepancy(None, &b, &case),
        Ok(Err(e)) => machinery_error(&format!("C19 synthetic harness: {e}")),
        Err(p) => ctx.discrepancy(None, &format!("panic: {p}"), &case),
    }
}

// ------------------------------------------------------------------------------------------------ Part Q
fn flip(a: SocketAddr) -> SocketAddr {
    match a {
        SocketAddr::V6(v) => {
            let mut o = v.ip().octets();
            o[15] ^= 0x5a;
            o[14] ^= 0xa5;
            SocketAddr::new(IpAddr::V6(Ipv6Addr::from(o)), v.port())
        }
        o => o,
    }
}

fn run_quic(ctx: &Ctx) {
    let case = Case::Quic;
    let r = quiet_catch(|| {
        rt().block_on(async {
            seams::reset_local();
            let ep = iroh::Endpoint::builder(iroh::endpoint::presets::Minimal)
                .relay_mode(iroh::RelayMode::Disabled)
                .bind()
                .await
                .map_err(|e| format!("bind endpoint: {e:?}"))?;
            let custom = RecCustom::new(1);
            let socks = [IpSock { addr: "127.0.0.1".parse().unwrap(), prefix: 8, scope_id: 0, is_default: true }];
            let senders = Senders::new(&socks, 1, vec![custom.clone() as Arc<dyn CustomSender>]).map_err(|e| e.to_string())?;
            let mut q = senders.into_quic_sender(&ep);
            let listener = tokio::net::UdpSocket::bind("127.0.0.1:0").await.map_err(|e| e.to_string())?;
            let lport = listener.local_addr().unwrap().port();
            let mut bad: Option<String> = None;
            let mut step = |name: &str, outcome: &str, problem: Option<String>| {
                if let Some(p) = problem {
                    bad.get_or_insert(format!("{name}: {p}"));
                } else {
                    ctx.eval(&format!("Q {name}"), outcome);
                }
            };
            // observation helper: what did this one send touch?
            #[derive(Debug, PartialEq, Eq, Default)]
            struct Seen {
                ip: Vec<String>,
                relay: Vec<(RelayUrl, EndpointId, Vec<u8>)>,
                custom: Vec<(CustomAddr, Option<CustomAddr>, Vec<u8>)>,
                states: Vec<String>,
            }
            macro_rules! send {
                ($dst:expr, $src:expr, $payload:expr) => {{
                    custom.calls.lock().unwrap().clear();
                    seams::take_events();
                    let res = q.send($dst, $src, $payload).await;
                    // let a per-remote state task (if any) process the datagram
                    tokio::time::sleep(Duration::from_millis(50)).await;
                    let evs = seams::take_events();
                    let seen = Seen {
                        ip: evs.iter().filter(|(l, _)| l == "ip_sender.poll_send").map(|(_, d)| d.clone()).collect(),
                        relay: q.relay_received(0),
                        custom: custom.calls.lock().unwrap().clone(),
                        states: evs.iter().filter(|(l, _)| l == "remote_state.handle_send_datagram").map(|(_, d)| d.clone()).collect(),
                    };
                    (res, seen)
                }};
            }
            let none = Seen::default();
            // 1. registered relay address
            let a_relay = c19::relay_mapped_addr(&ep, relay_url(0), key(1));
            let (res, seen) = send!(a_relay, None, b"q-relay");
            let want = Seen { relay: vec![(relay_url(0), key(1), b"q-relay".to_vec())], ..Default::default() };
            step("relay-address", "only that relay path", (res != Polled::Ok || seen != want).then(|| format!("{res:?} {seen:?}")));
            // 2. registered custom address (+ custom source address)
            let ca = CustomAddr::from_parts(1, &[7; 6]);
            let cl = CustomAddr::from_parts(1, &[8; 6]);
            let a_custom = c19::custom_mapped_addr(&ep, ca.clone());
            let a_custom_local = c19::custom_mapped_addr(&ep, cl.clone());
            let (res, seen) = send!(a_custom, Some(a_custom_local.ip()), b"q-custom");
            let want = Seen { custom: vec![(ca.clone(), Some(cl.clone()), b"q-custom".to_vec())], ..Default::default() };
            step("custom-address", "only that custom address", (res != Polled::Ok || seen != want).then(|| format!("{res:?} {seen:?}")));
            // 3. unknown synthetic addresses of the three kinds
            let a_endpoint_y = c19::endpoint_mapped_addr(&ep, key(3));
            for (name, a) in [("unknown-relay-address", flip(a_relay)), ("unknown-custom-address", flip(a_custom)), ("unknown-endpoint-address", flip(a_endpoint_y))] {
                let (res, seen) = send!(a, None, b"q-unknown");
                step(name, "dropped", (res != Polled::Ok || seen != none).then(|| format!("{res:?} {seen:?}")));
            }
            // 4. per-endpoint address: X has a running state (with one IP path to our listener), Y is only registered
            let x = key(2);
            let x_addr = EndpointAddr::from_parts(x, [TransportAddr::Ip(SocketAddr::from(([127, 0, 0, 1], lport)))]);
            let a_endpoint_x = c19::start_remote_state(&ep, x_addr).await?;
            let (res, seen) = send!(a_endpoint_x, None, b"q-mixed-x");
            let ok = res == Polled::Ok && seen.states == vec![x.to_string()] && seen.relay.is_empty() && seen.custom.is_empty() && seen.ip.len() == 1 && seen.ip[0].contains(&format!("dst=127.0.0.1:{lport}"));
            step("endpoint-address-with-state", "only that endpoint's state, which sends on its path", (!ok).then(|| format!("{res:?} {seen:?}")));
            let mut buf = [0u8; 64];
            let got = tokio::time::timeout(Duration::from_secs(2), listener.recv_from(&mut buf)).await;
            step(
                "endpoint-address-delivery",
                "datagram arrives at the path's address",
                match got {
                    Ok(Ok((n, _))) if &buf[..n] == b"q-mixed-x" => None,
                    other => Some(format!("{other:?}")),
                },
            );
            let (res, seen) = send!(a_endpoint_y, None, b"q-mixed-y");
            step("endpoint-address-without-state", "dropped", (res != Polled::Ok || seen != none).then(|| format!("{res:?} {seen:?}")));
            // 5. plain IP destination in the IPv4-mapped form QUIC uses
            let mapped = SocketAddr::new(IpAddr::V6("127.0.0.1".parse::<std::net::Ipv4Addr>().unwrap().to_ipv6_mapped()), lport);
            let (res, seen) = send!(mapped, None, b"q-ip");
            let ok = res == Polled::Ok && seen.ip.len() == 1 && seen.ip[0].contains(&format!("dst=127.0.0.1:{lport}")) && seen.relay.is_empty() && seen.custom.is_empty() && seen.states.is_empty();
            step("ip-address", "only the ip socket", (!ok).then(|| format!("{res:?} {seen:?}")));
            // 6. per-datagram failures are not fatal: custom transport error, custom transport pending, relay queue full, relay path closed, OS error
            *custom.answer.lock().unwrap() = "err";
            let (res, seen) = send!(a_custom, None, b"q-custom-err");
            step("custom-transport-error", "Ok", (res != Polled::Ok || seen.custom.len() != 1).then(|| format!("{res:?} {seen:?}")));
            *custom.answer.lock().unwrap() = "pending";
            let (res, seen) = send!(a_custom, None, b"q-custom-pending");
            step("custom-transport-pending", "Ok", (res != Polled::Ok || seen.custom.len() != 1).then(|| format!("{res:?} {seen:?}")));
            let mut results = Vec::new();
            for _ in 0..8 {
                results.push(q.send(a_relay, None, b"q-relay-flood").await);
            }
            let queued = q.relay_received(0).len();
            step("relay-queue-full", "Ok", (results.iter().any(|r| *r != Polled::Ok) || queued == 0 || queued >= 8).then(|| format!("{results:?} queued={queued}")));
            let unroutable = SocketAddr::new("10.1.2.3".parse().unwrap(), 9);
            let (res, seen) = send!(unroutable, None, b"q-unroutable");
            step("unroutable-destination", "Ok", (res != Polled::Ok || seen.ip.len() != 1).then(|| format!("{res:?} {seen:?}")));
            // 7. closed endpoint: an error is allowed (and is what tells QUIC to stop)
            ep.close().await;
            let (res, seen) = send!(a_relay, None, b"q-closed");
            step("closed-endpoint", if res == Polled::Ok { "Ok" } else { "error" }, (seen != none).then(|| format!("closed endpoint still handed the datagram on: {seen:?}")));
            seams::clear_local();
            Ok::<Option<String>, String>(bad)
        })
    });
    match r {
        Ok(Ok(None)) => {}
        Ok(Ok(Some(b))) => ctx.discrepancy(None, &b, &case),
        Ok(Err(e)) => machinery_error(&format!("C19 quic harness: {e}")),
        Err(p) => ctx.discrepancy(None, &format!("panic: {p}"), &case),
    }
}

fn run_case(ctx: &Ctx, c: &Case) {
    match c {
        Case::Dispatch { socks, only } => run_dispatch(ctx, socks, only),
        Case::Synthetic { n_relay, custom_ids } => run_synthetic(ctx, *n_relay, custom_ids),
        Case::Quic => run_quic(ctx),
    }
}

fn main() {
    vh_hooks::install();
    let ctx = Ctx::from_args("C19", Level::Exploration);
    ctx.set_rule("D: every set of <=k bound sockets from a pool (v4: 127.0.0.1/8, 127.0.1.1/24, 127.0.2.1/24, 0.0.0.0/0, 127.0.1.2/16; v6: ::1/128, ::/0, ::1/64 scope 3) with no or exactly one default-route member, x 6 destinations (thorough 9) x {no source, bound/unbound/other-family sources}, through the real TransportsSender::poll_send over really bound sockets; T: relay paths with 0/1/2 relay senders, custom paths with served/unserved ids; Q: scripted scenario on a bound endpoint through the real noq::UdpSender; distinct = (thorough adds 127.0.2.2/24, 127.0.0.2/32, 3 destinations, 3 sources, sets of <=4); distinct = (family, deciding rule of the reference router) x (how the chosen socket qualifies, delivery)");
    ctx.assume("which socket was handed a datagram is observed by the ip_sender.poll_send hook event and cross-checked for loopback destinations by the source port a harness listener sees; OS send errors for unroutable destinations are outcomes, not verdicts");
    ctx.min_outcomes(ctx.pick(20, 30));
    if let Some(c) = ctx.replay_case::<Case>() {
        THOROUGH.store(true, std::sync::atomic::Ordering::Relaxed);
        run_case(&ctx, &c);
        ctx.finish();
    }
    THOROUGH.store(ctx.thorough(), std::sync::atomic::Ordering::Relaxed);
    let k = ctx.pick(3, 4);
    ctx.bound("max_sockets_per_set", k);
    let mut cases: Vec<Case> = Vec::new();
    for set in socket_sets(false, k) {
        cases.push(Case::Dispatch { socks: set, only: None });
    }
    let v6_ok = std::net::UdpSocket::bind("[::1]:0").is_ok();
    ctx.bound("ipv6_available", v6_ok);
    if v6_ok {
        for set in socket_sets(true, 3) {
            cases.push(Case::Dispatch { socks: set, only: None });
        }
    } else {
        ctx.cap_hit("no IPv6 loopback in this environment: v6 socket sets not run");
    }
    for n_relay in 0..=2 {
        for ids in [vec![], vec![1u64], vec![1, 2]] {
            cases.push(Case::Synthetic { n_relay, custom_ids: ids });
        }
    }
    let n_sets = cases.len();
    ctx.bound("socket_sets_and_synthetic_configs", n_sets);
    ctx.sample("dispatch", &cases[7]);
    ctx.sample("dispatch-v6", cases.iter().rev().find(|c| matches!(c, Case::Dispatch { .. })).unwrap());
    ctx.sample("synthetic", cases.last().unwrap());
    par_for_each(&cases, |c| run_case(&ctx, c));
    run_case(&ctx, &Case::Quic);
    let _ = BTreeSet::<u8>::new();
    ctx.finish();
}
