//! C01 Dialing by public key authenticates the remote endpoint.
//!
//! * verifier level (E0): the real certificate verifiers and `tls::name::{encode,decode}` (exposed by the
//!   `iroh::verif::c01` hook) are run over an exhaustive small-scope domain of names, certificates, chains,
//!   server names and TLS 1.3 CertificateVerify inputs and compared with independent reference codecs
//!   (own base32hex, own SPKI builder, own strict Ed25519 verification on curve25519-dalek).
//! * handshake level (E5): a real iroh `Endpoint` dials a harness noq/rustls acceptor that presents a chosen
//!   certificate list and signs with a chosen key (x every dialed id), and a harness noq/rustls dialer with
//!   a chosen certificate list / signing key dials a real accepting iroh `Endpoint`.
use std::net::{Ipv4Addr, SocketAddr};
use std::sync::{Arc, Mutex};
use std::time::Duration;

use curve25519_dalek::edwards::{CompressedEdwardsY, EdwardsPoint};
use curve25519_dalek::scalar::Scalar;
use iroh::verif::c01 as hook;
use iroh::{EndpointAddr, EndpointId, SecretKey, TransportAddr};
use rustls::client::danger::{HandshakeSignatureValid, ServerCertVerified, ServerCertVerifier};
use rustls::internal::msgs::codec::{Codec, Reader};
use rustls::pki_types::{CertificateDer, PrivateKeyDer, PrivatePkcs8KeyDer, ServerName, SubjectPublicKeyInfoDer, UnixTime};
use rustls::server::danger::{ClientCertVerified, ClientCertVerifier};
use rustls::sign::{CertifiedKey, Signer, SigningKey};
use rustls::{DigitallySignedStruct, DistinguishedName, SignatureAlgorithm, SignatureScheme};
use serde::{Deserialize, Serialize};
use sha2::{Digest, Sha512};
use vh_engine::*;
use vh_p_iroh::e5_router::*;

const ALPN: &[u8] = b"c01/test";

// ------------------------------------------------------------------ reference codecs (independent)
const SPKI_PREFIX: [u8; 12] = [0x30, 0x2a, 0x30, 0x05, 0x06, 0x03, 0x2b, 0x65, 0x70, 0x03, 0x21, 0x00];
fn spki(key: &[u8; 32]) -> Vec<u8> {
    let mut v = SPKI_PREFIX.to_vec();
    v.extend_from_slice(key);
    v
}
const B32HEX: &[u8; 32] = b"0123456789abcdefghijklmnopqrstuv";
fn b32hex_encode(b: &[u8]) -> String {
    let mut out = String::new();
    let (mut acc, mut bits) = (0u32, 0u32);
    for &x in b {
        acc = (acc << 8) | x as u32;
        bits += 8;
        while bits >= 5 {
            bits -= 5;
            out.push(B32HEX[((acc >> bits) & 31) as usize] as char);
        }
        acc &= (1 << bits) - 1;
    }
    if bits > 0 {
        out.push(B32HEX[((acc << (5 - bits)) & 31) as usize] as char);
    }
    out
}
fn point_valid(b: &[u8; 32]) -> bool {
    CompressedEdwardsY(*b).decompress().is_some()
}
/// `Some(key bytes)` iff `name` is exactly `<base32hex (any case) of 32 bytes>.iroh.invalid` and the bytes are a curve point.
fn ref_shape(name: &str) -> Option<[u8; 32]> {
    let labels: Vec<&str> = name.split('.').collect();
    if labels.len() != 3 || labels[1] != "iroh" || labels[2] != "invalid" {
        return None;
    }
    let l = labels[0];
    if l.len() != 52 || !l.is_ascii() {
        return None;
    }
    let lower = l.to_ascii_lowercase();
    let mut acc: u64 = 0;
    let mut bits = 0;
    let mut out = Vec::new();
    for c in lower.bytes() {
        let v = B32HEX.iter().position(|&a| a == c)? as u64;
        acc = (acc << 5) | v;
        bits += 5;
        if bits >= 8 {
            bits -= 8;
            out.push((acc >> bits) as u8);
            acc &= (1 << bits) - 1;
        }
    }
    if acc != 0 {
        return None; // non-canonical trailing bits
    }
    let arr: [u8; 32] = out.try_into().ok()?;
    // the text must be *the* base32 of the bytes
    if b32hex_encode(&arr) != lower {
        return None;
    }
    point_valid(&arr).then_some(arr)
}
/// Strict Ed25519 verification written on the curve API: canonical S, A and R decompress and are not of
/// small order, [S]B - [k]A == R with k = SHA-512(R || A || M) mod l.
fn ref_verify_strict(a: &[u8; 32], msg: &[u8], sig: &[u8]) -> bool {
    if sig.len() != 64 {
        return false;
    }
    let r_bytes: [u8; 32] = sig[..32].try_into().unwrap();
    let s_bytes: [u8; 32] = sig[32..].try_into().unwrap();
    let Some(a_pt) = CompressedEdwardsY(*a).decompress() else { return false };
    let Some(r_pt) = CompressedEdwardsY(r_bytes).decompress() else { return false };
    if a_pt.is_small_order() || r_pt.is_small_order() {
        return false;
    }
    let s: Option<Scalar> = Scalar::from_canonical_bytes(s_bytes).into();
    let Some(s) = s else { return false };
    let mut h = Sha512::new();
    h.update(r_bytes);
    h.update(a);
    h.update(msg);
    let digest: [u8; 64] = h.finalize().into();
    let k = Scalar::from_bytes_mod_order_wide(&digest);
    let r_check = EdwardsPoint::vartime_double_scalar_mul_basepoint(&(-k), &a_pt, &s);
    r_check.compress().0 == r_bytes
}

// ------------------------------------------------------------------ keys
fn keys() -> Vec<SecretKey> {
    (1u8..=8).map(secret).collect()
}
const IDENTITY: [u8; 32] = {
    let mut b = [0u8; 32];
    b[0] = 1;
    b
};
/// signature (R = identity, S = 0): verifies for the identity key under cofactored/non-strict rules
fn weak_sig() -> Vec<u8> {
    let mut s = vec![0u8; 64];
    s[0] = 1;
    s
}
fn x509_for(sk: &SecretKey) -> Vec<u8> {
    // PKCS#8 v1 of an Ed25519 seed
    let mut p8 = unhex("302e020100300506032b657004220420");
    p8.extend_from_slice(&sk.to_bytes());
    let kp = rcgen::KeyPair::try_from(&p8[..]).expect("rcgen key");
    let params = rcgen::CertificateParams::new(vec!["c01.test".to_string()]).expect("params");
    params.self_signed(&kp).expect("self signed").der().to_vec()
}

// ------------------------------------------------------------------ cases
#[derive(Serialize, Deserialize, Clone, Debug)]
enum Case {
    /// decode(name)
    Name(String),
    /// decode(encode(key k)) for the secret derived from `n`
    RoundTrip(u8),
    /// verify_server_cert / verify_client_cert: end entity (hex), number of intermediates, server name ("ip" = IpAddress)
    Cert { ee: String, inter: usize, name: String },
    /// verify_tls13_signature (both verifiers) + verify_tls12_signature
    Sig { msg: String, cert: String, scheme: u16, sig: String },
    /// iroh endpoint dials id #dialed at a harness acceptor using presentation #present
    Out { present: usize, dialed: usize },
    /// harness dialer using presentation #present dials an accepting iroh endpoint
    In { present: usize },
    /// two iroh endpoints, honest
    Pair,
}

fn run_case(ctx: &Ctx, case: &Case) {
    let r = quiet_catch(|| match case {
        Case::Out { .. } | Case::In { .. } | Case::Pair => {
            let rt = runtime(2);
            let out = rt.block_on(run_handshake(ctx, case));
            rt.shutdown_background();
            out
        }
        _ => run_verifier(ctx, case),
    });
    match r {
        Ok(Ok((class, outcome))) => ctx.eval(&class, &outcome),
        Ok(Err(msg)) => ctx.discrepancy(None, &msg, case),
        Err(p) => ctx.discrepancy(None, &format!("panic: {p}"), case),
    }
}

fn dss(scheme: u16, sig: &[u8]) -> DigitallySignedStruct {
    let mut b = vec![(scheme >> 8) as u8, scheme as u8, (sig.len() >> 8) as u8, sig.len() as u8];
    b.extend_from_slice(sig);
    DigitallySignedStruct::read(&mut Reader::init(&b)).expect("dss")
}

fn run_verifier(_ctx: &Ctx, case: &Case) -> Result<(String, String), String> {
    match case {
        Case::RoundTrip(n) => {
            let id = secret(*n).public();
            let name = hook::name_encode(id);
            if name != format!("{}.iroh.invalid", b32hex_encode(id.as_bytes())) {
                return Err(format!("encode({id}) = {name:?} is not <base32hex>.iroh.invalid"));
            }
            if hook::name_decode(&name) != Some(id) {
                return Err(format!("decode(encode({id})) != id"));
            }
            // and the name is usable as a TLS server name accepted for exactly this key
            let sn = ServerName::try_from(name.clone()).map_err(|e| format!("encode() is not a DNS name: {e}"))?;
            let v = hook::server_cert_verifier();
            let ok = v.verify_server_cert(&CertificateDer::from(spki(id.as_bytes())), &[], &sn, &[], UnixTime::now()).is_ok();
            Ok(("name round trip".into(), if ok { "decodes to the id, own key accepted" } else { "decodes to the id, OWN KEY REFUSED" }.into()))
        }
        Case::Name(s) => {
            let want = ref_shape(s);
            let got = hook::name_decode(s).map(|id| *id.as_bytes());
            if let Some(g) = got {
                if want != Some(g) {
                    return Err(format!("decode({s:?}) = {} but the name does not have the shape <base32 of these 32 bytes>.iroh.invalid (reference: {:?})", hex(&g), want.map(|w| hex(&w))));
                }
            }
            let class = if want.is_some() { "name of the exact shape" } else { "name not of the shape" };
            Ok((class.into(), if got.is_some() { "decodes" } else { "refused" }.into()))
        }
        Case::Cert { ee, inter, name } => {
            let ee_b = unhex(ee);
            let sn = if name == "ip" {
                ServerName::IpAddress(std::net::IpAddr::V4(Ipv4Addr::LOCALHOST).into())
            } else {
                match ServerName::try_from(name.clone()) {
                    Ok(n) => n,
                    Err(_) => return Ok(("server name not constructible".into(), "skipped".into())),
                }
            };
            let inters: Vec<CertificateDer> = (0..*inter).map(|i| CertificateDer::from(spki(secret(7 + i as u8).public().as_bytes()))).collect();
            let v = hook::server_cert_verifier();
            let got = v.verify_server_cert(&CertificateDer::from(ee_b.clone()), &inters, &sn, &[], UnixTime::now()).is_ok();
            let named = if name == "ip" { None } else { ref_shape(name) };
            let matches = named.map(|id| spki(&id) == ee_b).unwrap_or(false);
            if got && !matches {
                return Err(format!("server certificate accepted although it is not the raw key of the id named by the server name: ee={ee} name={name:?} intermediates={inter}"));
            }
            // the accepting side's verifier: recorded only (authentication there rests on the signature check)
            let c = hook::client_cert_verifier().verify_client_cert(&CertificateDer::from(ee_b), &inters, UnixTime::now()).is_ok();
            let class = format!(
                "cert: {} / {} / {} intermediates",
                if matches { "raw key of the named id" } else { "not the raw key of the named id" },
                if name == "ip" { "ip name" } else if named.is_some() { "id name" } else { "other dns name" },
                inter
            );
            Ok((class, format!("server-verifier {} client-verifier {}", if got { "accepts" } else { "refuses" }, if c { "accepts" } else { "refuses" })))
        }
        Case::Sig { msg, cert, scheme, sig } => {
            let (m, c, s) = (unhex(msg), unhex(cert), unhex(sig));
            let d = dss(*scheme, &s);
            let cd = CertificateDer::from(c.clone());
            let sv = hook::server_cert_verifier();
            let cv = hook::client_cert_verifier();
            let r1 = sv.verify_tls13_signature(&m, &cd, &d).is_ok();
            let r2 = cv.verify_tls13_signature(&m, &cd, &d).is_ok();
            let t1 = sv.verify_tls12_signature(&m, &cd, &d).is_ok();
            let t2 = cv.verify_tls12_signature(&m, &cd, &d).is_ok();
            let key: Option<[u8; 32]> = (c.len() == 44 && c[..12] == SPKI_PREFIX).then(|| c[12..].try_into().unwrap());
            let valid = *scheme == 0x0807 && key.map(|k| ref_verify_strict(&k, &m, &s)).unwrap_or(false);
            if (r1 || r2 || t1 || t2) && !valid {
                return Err(format!("signature accepted (server-verifier13={r1} client-verifier13={r2} tls12={t1}/{t2}) although it does not strictly verify under the certificate's Ed25519 key: scheme {scheme:#06x} cert {cert} sig {sig} msg {msg}"));
            }
            if r1 != r2 {
                return Err("the two verifiers disagree".into());
            }
            let class = if valid {
                "valid Ed25519 signature by the certificate's key"
            } else if *scheme != 0x0807 {
                "other signature scheme"
            } else if key.is_none() {
                "certificate is not an Ed25519 raw key"
            } else {
                "signature does not verify strictly"
            };
            Ok((format!("sig: {class}"), if r1 { "accepted" } else { "refused" }.into()))
        }
        _ => unreachable!(),
    }
}

// ------------------------------------------------------------------ harness TLS peers
#[derive(Debug)]
struct AnyServer;
impl ServerCertVerifier for AnyServer {
    fn verify_server_cert(&self, _: &CertificateDer<'_>, _: &[CertificateDer<'_>], _: &ServerName<'_>, _: &[u8], _: UnixTime) -> Result<ServerCertVerified, rustls::Error> {
        Ok(ServerCertVerified::assertion())
    }
    fn verify_tls12_signature(&self, _: &[u8], _: &CertificateDer<'_>, _: &DigitallySignedStruct) -> Result<HandshakeSignatureValid, rustls::Error> {
        Ok(HandshakeSignatureValid::assertion())
    }
    fn verify_tls13_signature(&self, _: &[u8], _: &CertificateDer<'_>, _: &DigitallySignedStruct) -> Result<HandshakeSignatureValid, rustls::Error> {
        Ok(HandshakeSignatureValid::assertion())
    }
    fn supported_verify_schemes(&self) -> Vec<SignatureScheme> {
        vec![SignatureScheme::ED25519, SignatureScheme::ECDSA_NISTP256_SHA256]
    }
    fn requires_raw_public_keys(&self) -> bool {
        true
    }
}
#[derive(Debug)]
struct AnyClient;
impl ClientCertVerifier for AnyClient {
    fn offer_client_auth(&self) -> bool {
        true
    }
    fn client_auth_mandatory(&self) -> bool {
        false
    }
    fn root_hint_subjects(&self) -> &[DistinguishedName] {
        &[]
    }
    fn verify_client_cert(&self, _: &CertificateDer<'_>, _: &[CertificateDer<'_>], _: UnixTime) -> Result<ClientCertVerified, rustls::Error> {
        Ok(ClientCertVerified::assertion())
    }
    fn verify_tls12_signature(&self, _: &[u8], _: &CertificateDer<'_>, _: &DigitallySignedStruct) -> Result<HandshakeSignatureValid, rustls::Error> {
        Ok(HandshakeSignatureValid::assertion())
    }
    fn verify_tls13_signature(&self, _: &[u8], _: &CertificateDer<'_>, _: &DigitallySignedStruct) -> Result<HandshakeSignatureValid, rustls::Error> {
        Ok(HandshakeSignatureValid::assertion())
    }
    fn supported_verify_schemes(&self) -> Vec<SignatureScheme> {
        vec![SignatureScheme::ED25519, SignatureScheme::ECDSA_NISTP256_SHA256]
    }
    fn requires_raw_public_keys(&self) -> bool {
        true
    }
}

#[derive(Debug, Clone)]
enum SignMode {
    Ed(SecretKey),
    EdCorrupt(SecretKey),
    Const(Vec<u8>),
}
#[derive(Debug, Clone)]
struct FakeKey {
    mode: SignMode,
    claimed_spki: Vec<u8>,
}
impl SigningKey for FakeKey {
    fn choose_scheme(&self, offered: &[SignatureScheme]) -> Option<Box<dyn Signer>> {
        offered.contains(&SignatureScheme::ED25519).then(|| Box::new(self.clone()) as Box<dyn Signer>)
    }
    fn public_key(&self) -> Option<SubjectPublicKeyInfoDer<'_>> {
        Some(SubjectPublicKeyInfoDer::from(self.claimed_spki.clone()))
    }
    fn algorithm(&self) -> SignatureAlgorithm {
        SignatureAlgorithm::ED25519
    }
}
impl Signer for FakeKey {
    fn sign(&self, message: &[u8]) -> Result<Vec<u8>, rustls::Error> {
        Ok(match &self.mode {
            SignMode::Ed(k) => k.sign(message).to_bytes().to_vec(),
            SignMode::EdCorrupt(k) => {
                let mut s = k.sign(message).to_bytes().to_vec();
                s[40] ^= 1;
                s
            }
            SignMode::Const(s) => s.clone(),
        })
    }
    fn scheme(&self) -> SignatureScheme {
        SignatureScheme::ED25519
    }
}

/// What a harness peer presents and what it really holds.
struct Present {
    label: &'static str,
    certs: Vec<Vec<u8>>,
    key: Option<Arc<dyn SigningKey>>,
    raw_keys: bool,
    /// the Ed25519 public key whose secret key the peer really signs with (None: no Ed25519 key / forged)
    holds: Option<[u8; 32]>,
}
const N_PRESENT: usize = 14;
fn presentation(i: usize) -> Present {
    let k0 = secret(1);
    let k1 = secret(2);
    let p0 = *k0.public().as_bytes();
    let p1 = *k1.public().as_bytes();
    let ed = |k: &SecretKey, claimed: Vec<u8>| Some(Arc::new(FakeKey { mode: SignMode::Ed(k.clone()), claimed_spki: claimed }) as Arc<dyn SigningKey>);
    match i {
        0 => Present { label: "raw key K0, signs with K0", certs: vec![spki(&p0)], key: ed(&k0, spki(&p0)), raw_keys: true, holds: Some(p0) },
        1 => Present { label: "raw key K1, signs with K1", certs: vec![spki(&p1)], key: ed(&k1, spki(&p1)), raw_keys: true, holds: Some(p1) },
        2 => Present { label: "raw key K0, signs with K1", certs: vec![spki(&p0)], key: ed(&k1, spki(&p0)), raw_keys: true, holds: Some(p1) },
        3 => Present { label: "X.509 for K0 (as X.509), signs with K0", certs: vec![x509_for(&k0)], key: ed(&k0, spki(&p0)), raw_keys: false, holds: Some(p0) },
        4 => Present { label: "X.509 for K0 presented as raw key, signs with K0", certs: vec![x509_for(&k0)], key: ed(&k0, spki(&p0)), raw_keys: true, holds: Some(p0) },
        5 => Present { label: "chain [raw K0, raw K1], signs with K0", certs: vec![spki(&p0), spki(&p1)], key: ed(&k0, spki(&p0)), raw_keys: true, holds: Some(p0) },
        6 => Present { label: "chain [raw K0, X.509 K0], signs with K0", certs: vec![spki(&p0), x509_for(&k0)], key: ed(&k0, spki(&p0)), raw_keys: true, holds: Some(p0) },
        7 => {
            let kp = rcgen::KeyPair::generate().expect("ecdsa key");
            let der = PrivateKeyDer::Pkcs8(PrivatePkcs8KeyDer::from(kp.serialize_der()));
            let sk = rustls::crypto::ring::sign::any_supported_type(&der).expect("ecdsa signer");
            let pk = sk.public_key().expect("spki").as_ref().to_vec();
            Present { label: "ECDSA P-256 raw key, honest", certs: vec![pk], key: Some(sk), raw_keys: true, holds: None }
        }
        8 => Present {
            label: "raw key K0, corrupted signature",
            certs: vec![spki(&p0)],
            key: Some(Arc::new(FakeKey { mode: SignMode::EdCorrupt(k0.clone()), claimed_spki: spki(&p0) })),
            raw_keys: true,
            holds: None,
        },
        9 => Present { label: "raw key K0 truncated by one byte, signs with K0", certs: vec![spki(&p0)[..43].to_vec()], key: ed(&k0, spki(&p0)), raw_keys: true, holds: Some(p0) },
        10 => {
            let mut c = spki(&p0);
            c[8] = 0x71; // algorithm OID 1.3.101.113 (Ed448) with K0's bytes
            Present { label: "raw key K0 under another algorithm id, signs with K0", certs: vec![c], key: ed(&k0, spki(&p0)), raw_keys: true, holds: Some(p0) }
        }
        11 => Present {
            label: "small-order key, forged signature (R=identity,S=0)",
            certs: vec![spki(&IDENTITY)],
            key: Some(Arc::new(FakeKey { mode: SignMode::Const(weak_sig()), claimed_spki: spki(&IDENTITY) })),
            raw_keys: true,
            holds: None,
        },
        12 => {
            let mut c = spki(&p0);
            c.push(0);
            Present { label: "raw key K0 with a trailing byte, signs with K0", certs: vec![c], key: ed(&k0, spki(&p0)), raw_keys: true, holds: Some(p0) }
        }
        13 => Present { label: "no certificate", certs: vec![], key: None, raw_keys: true, holds: None },
        _ => unreachable!(),
    }
}
fn dialed_ids() -> Vec<([u8; 32], &'static str)> {
    vec![(*secret(1).public().as_bytes(), "K0"), (*secret(2).public().as_bytes(), "K1"), (IDENTITY, "small-order id")]
}

#[derive(Debug)]
struct Resolver {
    ck: Option<Arc<CertifiedKey>>,
    raw: bool,
}
impl Resolver {
    fn new(p: &Present) -> Self {
        let ck = p.key.as_ref().map(|k| Arc::new(CertifiedKey::new(p.certs.iter().map(|c| CertificateDer::from(c.clone())).collect(), k.clone())));
        Resolver { ck, raw: p.raw_keys }
    }
}
impl rustls::server::ResolvesServerCert for Resolver {
    fn resolve(&self, _: rustls::server::ClientHello<'_>) -> Option<Arc<CertifiedKey>> {
        self.ck.clone()
    }
    fn only_raw_public_keys(&self) -> bool {
        self.raw
    }
}
impl rustls::client::ResolvesClientCert for Resolver {
    fn resolve(&self, _: &[&[u8]], _: &[SignatureScheme]) -> Option<Arc<CertifiedKey>> {
        self.ck.clone()
    }
    fn only_raw_public_keys(&self) -> bool {
        self.raw
    }
    fn has_certs(&self) -> bool {
        self.ck.is_some()
    }
}
fn provider() -> Arc<rustls::crypto::CryptoProvider> {
    Arc::new(rustls::crypto::ring::default_provider())
}

async fn wait_async(timeout: Duration, mut cond: impl FnMut() -> bool) -> bool {
    let t0 = std::time::Instant::now();
    loop {
        if cond() {
            return true;
        }
        if t0.elapsed() > timeout {
            return false;
        }
        tokio::time::sleep(Duration::from_millis(1)).await;
    }
}

async fn run_handshake(ctx: &Ctx, case: &Case) -> Result<(String, String), String> {
    match case {
        Case::Out { present, dialed } => {
            let p = presentation(*present);
            let (d, dlabel) = dialed_ids()[*dialed];
            // harness acceptor
            let mut tls = rustls::ServerConfig::builder_with_provider(provider())
                .with_protocol_versions(&[&rustls::version::TLS13])
                .map_err(|e| format!("{e}"))?
                .with_client_cert_verifier(Arc::new(AnyClient))
                .with_cert_resolver(Arc::new(Resolver::new(&p)));
            tls.alpn_protocols = vec![ALPN.to_vec()];
            let qsc = noq::crypto::rustls::QuicServerConfig::try_from(tls).map_err(|e| format!("quic server config: {e}"))?;
            let acceptor = noq::Endpoint::server(noq::ServerConfig::with_crypto(Arc::new(qsc)), SocketAddr::from((Ipv4Addr::LOCALHOST, 0))).map_err(|e| format!("{e}"))?;
            let addr = acceptor.local_addr().map_err(|e| format!("{e}"))?;
            let held: Arc<Mutex<Vec<noq::Connection>>> = Default::default();
            let acc2 = acceptor.clone();
            let held2 = held.clone();
            let accept_task = tokio::spawn(async move {
                while let Some(inc) = acc2.accept().await {
                    let held = held2.clone();
                    tokio::spawn(async move {
                        if let Ok(c) = inc.await {
                            held.lock().unwrap().push(c);
                        }
                    });
                }
            });
            // the real dialer (its own key is K3, unrelated)
            let ep = loopback_builder(secret(3)).bind().await.map_err(|e| format!("bind: {e:?}"))?;
            let Ok(did) = EndpointId::from_bytes(&d) else { return Err("machinery: dialed id not constructible".into()) };
            let target = EndpointAddr::from_parts(did, [TransportAddr::Ip(addr)]);
            let res = tokio::time::timeout(POSITIVE_TIMEOUT, ep.connect(target, ALPN))
                .await
                .map_err(|_| "machinery: dial neither completed nor failed".to_string())?;
            // the statement allows completion iff the peer really holds the dialed id's secret key and signs with
            // it (whatever else it presents, e.g. a chain); it never demands completion
            let allowed = p.certs.first() == Some(&spki(&d)) && p.holds == Some(d);
            let class = format!("dial {dlabel}; peer presents: {}", p.label);
            let out = match &res {
                Ok(conn) => {
                    let rid = *conn.remote_id().as_bytes();
                    if !allowed {
                        Err(format!("connection to id {dlabel} COMPLETED although the peer did not prove possession of its secret key (peer: {}); reported remote id {}", p.label, hex(&rid)))
                    } else if Some(rid) != p.holds || rid != d {
                        Err(format!("reported remote id {} differs from the key the peer holds", hex(&rid)))
                    } else {
                        Ok((class, "completed, remote id = dialed id = key held".to_string()))
                    }
                }
                Err(e) => {
                    ctx.sample(if allowed { "out-refused-honest" } else { "out-refused" }, format!("{class}: {e:#}"));
                    if allowed && p.certs.len() == 1 {
                        HONEST_REFUSED.fetch_add(1, std::sync::atomic::Ordering::Relaxed);
                    }
                    Ok((class, if allowed && p.certs.len() == 1 { "NOT completed although the peer is honest" } else { "refused" }.to_string()))
                }
            };
            if out.as_ref().map(|o| o.1.starts_with("completed")).unwrap_or(false) {
                COMPLETED.fetch_add(1, std::sync::atomic::Ordering::Relaxed);
            }
            if let Ok(c) = &res {
                c.close(0u32.into(), b"");
            }
            accept_task.abort();
            acceptor.close(0u32.into(), b"");
            drop(ep);
            out
        }
        Case::In { present } => {
            let p = presentation(*present);
            let ep = loopback_builder(secret(4)).alpns(vec![ALPN.to_vec()]).bind().await.map_err(|e| format!("bind: {e:?}"))?;
            let addr = loopback_sockaddr(&ep);
            // accepting side log
            let log: Arc<Mutex<Vec<Result<[u8; 32], String>>>> = Default::default();
            let (ep2, log2) = (ep.clone(), log.clone());
            let accept_task = tokio::spawn(async move {
                while let Some(inc) = ep2.accept().await {
                    let r = match inc.accept() {
                        Ok(a) => a.await.map_err(|e| format!("{e:#}")),
                        Err(e) => Err(format!("{e:#}")),
                    };
                    match r {
                        Ok(conn) => {
                            log2.lock().unwrap().push(Ok(*conn.remote_id().as_bytes()));
                            tokio::spawn(async move {
                                conn.closed().await;
                            });
                        }
                        Err(e) => log2.lock().unwrap().push(Err(e)),
                    }
                }
            });
            // harness dialer
            let mut tls = rustls::ClientConfig::builder_with_provider(provider())
                .with_protocol_versions(&[&rustls::version::TLS13])
                .map_err(|e| format!("{e}"))?
                .dangerous()
                .with_custom_certificate_verifier(Arc::new(AnyServer))
                .with_client_cert_resolver(Arc::new(Resolver::new(&p)));
            tls.alpn_protocols = vec![ALPN.to_vec()];
            let qcc = noq::crypto::rustls::QuicClientConfig::try_from(tls).map_err(|e| format!("quic client config: {e}"))?;
            let dialer = noq::Endpoint::client(SocketAddr::from((Ipv4Addr::LOCALHOST, 0))).map_err(|e| format!("{e}"))?;
            let connecting = dialer.connect_with(noq::ClientConfig::new(Arc::new(qcc)), addr, "peer.test").map_err(|e| format!("connect_with: {e}"))?;
            let cres = tokio::time::timeout(POSITIVE_TIMEOUT, connecting).await.map_err(|_| "machinery: harness dial hangs".to_string())?;
            // the accepting iroh endpoint must reach a verdict on this flow (accept or refuse): positive event
            if !wait_async(POSITIVE_TIMEOUT, || !log.lock().unwrap().is_empty()).await {
                return Err(format!("machinery: accepting endpoint reached no verdict (harness dialer: {:?})", cres.as_ref().map(|_| "ok").map_err(|e| e.to_string())));
            }
            let verdict = log.lock().unwrap()[0].clone();
            let key_presented: Option<[u8; 32]> = (!p.certs.is_empty() && p.certs[0].len() == 44 && p.certs[0][..12] == SPKI_PREFIX).then(|| p.certs[0][12..].try_into().unwrap());
            let allowed = key_presented.is_some() && key_presented == p.holds;
            let class = format!("accept; peer presents: {}", p.label);
            let out = match verdict {
                Ok(rid) => {
                    if !allowed {
                        Err(format!("incoming connection COMPLETED although the peer did not prove possession of a key it presented (peer: {}); reported remote id {}", p.label, hex(&rid)))
                    } else if Some(rid) != p.holds {
                        Err(format!("reported remote id {} differs from the key the peer holds", hex(&rid)))
                    } else {
                        Ok((class, "completed, remote id = key held".to_string()))
                    }
                }
                Err(e) => {
                    ctx.sample(if allowed { "in-refused-honest" } else { "in-refused" }, format!("{class}: {e}"));
                    if allowed && p.certs.len() == 1 {
                        HONEST_REFUSED.fetch_add(1, std::sync::atomic::Ordering::Relaxed);
                    }
                    Ok((class, if allowed && p.certs.len() == 1 { "NOT completed although the peer is honest" } else { "refused" }.to_string()))
                }
            };
            if out.as_ref().map(|o| o.1.starts_with("completed")).unwrap_or(false) {
                COMPLETED.fetch_add(1, std::sync::atomic::Ordering::Relaxed);
            }
            if let Ok(c) = &cres {
                c.close(0u32.into(), b"");
            }
            accept_task.abort();
            dialer.close(0u32.into(), b"");
            drop(ep);
            out
        }
        Case::Pair => {
            let a = loopback_builder(secret(1)).alpns(vec![ALPN.to_vec()]).bind().await.map_err(|e| format!("bind: {e:?}"))?;
            let b = loopback_builder(secret(2)).alpns(vec![ALPN.to_vec()]).bind().await.map_err(|e| format!("bind: {e:?}"))?;
            let mut seen = Vec::new();
            for (x, y) in [(&a, &b), (&b, &a)] {
                let y2 = y.clone();
                let acc = tokio::spawn(async move {
                    let inc = y2.accept().await.ok_or("closed")?;
                    let c = inc.accept().map_err(|e| e.to_string())?.await.map_err(|e| format!("{e:#}"))?;
                    Ok::<_, String>(c)
                });
                let c1 = tokio::time::timeout(POSITIVE_TIMEOUT, x.connect(dial_addr(y), ALPN)).await.map_err(|_| "machinery: dial hangs")?.map_err(|e| format!("honest dial failed: {e:#}"))?;
                let c2 = tokio::time::timeout(POSITIVE_TIMEOUT, acc).await.map_err(|_| "machinery: accept hangs")?.map_err(|e| e.to_string())??;
                if c1.remote_id() != y.id() || c2.remote_id() != x.id() {
                    return Err(format!("remote ids wrong: dialer reports {}, acceptor reports {}", c1.remote_id(), c2.remote_id()));
                }
                seen.push((c1, c2));
            }
            drop(seen);
            Ok(("two honest endpoints, both directions".into(), "both sides report the key the other holds".into()))
        }
        _ => unreachable!(),
    }
}

static HONEST_REFUSED: std::sync::atomic::AtomicU64 = std::sync::atomic::AtomicU64::new(0);
static COMPLETED: std::sync::atomic::AtomicU64 = std::sync::atomic::AtomicU64::new(0);

// ------------------------------------------------------------------ enumeration
fn gen_verifier_cases(ctx: &Ctx) -> Vec<Case> {
    let mut out = Vec::new();
    let nkeys = ctx.pick(3usize, 8usize);
    let ks: Vec<SecretKey> = keys().into_iter().take(nkeys).collect();
    for n in 1..=64u8 {
        out.push(Case::RoundTrip(n));
    }
    // ---- names
    let symbols: Vec<char> = "0123456789abcdefghijklmnopqrstuvABCDEFGHIJKLMNOPQRSTUV".chars().chain(['.', '-', 'w', 'W', 'z', '=', ' ', '_', 'é']).collect();
    for k in &ks {
        let enc = hook::name_encode(k.public());
        let chars: Vec<char> = enc.chars().collect();
        out.push(Case::Name(enc.clone()));
        out.push(Case::Name(enc.to_uppercase()));
        for pos in 0..chars.len() {
            for &c in &symbols {
                let mut v = chars.clone();
                v[pos] = c;
                out.push(Case::Name(v.into_iter().collect()));
            }
            let mut v = chars.clone();
            v.remove(pos);
            out.push(Case::Name(v.into_iter().collect()));
            let mut v = chars.clone();
            v.insert(pos, chars[pos]);
            out.push(Case::Name(v.into_iter().collect()));
            out.push(Case::Name(chars[..pos].iter().collect()));
        }
        // label games
        let b = &enc[..52];
        let parts = [b, "iroh", "invalid"];
        for p in permutations(3) {
            out.push(Case::Name(p.iter().map(|&i| parts[i]).collect::<Vec<_>>().join(".")));
        }
        for s in [
            format!("{b}"),
            format!("{b}.iroh"),
            format!("{b}.invalid"),
            format!("{b}.iroh.invalid."),
            format!(".{b}.iroh.invalid"),
            format!("{b}..iroh.invalid"),
            format!("x.{b}.iroh.invalid"),
            format!("{b}.iroh.invalid.x"),
            format!("{b}.IROH.invalid"),
            format!("{b}.iroh.INVALID"),
            format!("{b}.iroh.invalid\0"),
            format!("{b}.iroh.localhost"),
            format!("{b}.n0.invalid"),
            format!("{b}=.iroh.invalid"),
            format!("{b}0.iroh.invalid"),
            format!("{}.iroh.invalid", &b[..51]),
            format!("{}.iroh.invalid", data_encoding::BASE32_NOPAD.encode(k.public().as_bytes())),
            format!("{}.iroh.invalid", data_encoding::BASE32_NOPAD.encode(k.public().as_bytes()).to_lowercase()),
            format!("{}.iroh.invalid", hex(k.public().as_bytes())),
            format!("{}.iroh.invalid", k.public().to_z32()),
        ] {
            out.push(Case::Name(s));
        }
    }
    // names of 32-byte strings that are not curve points / small-order
    for bytes in [[2u8; 32], IDENTITY, [0xffu8; 32]] {
        out.push(Case::Name(format!("{}.iroh.invalid", b32hex_encode(&bytes))));
    }
    for s in sequences_up_to(&['a', '.', 'i', '0', 'é', 'V'], 2) {
        out.push(Case::Name(s.into_iter().collect()));
    }
    // ---- certificates x intermediates x server names
    let k0 = ks[0].public();
    let k1 = ks[1].public();
    let names = vec![hook::name_encode(k0), hook::name_encode(k1), hook::name_encode(k0).to_uppercase(), "localhost".to_string(), "ip".to_string()];
    let base = spki(k0.as_bytes());
    let mut ees: Vec<Vec<u8>> = vec![base.clone(), spki(k1.as_bytes()), x509_for(&ks[0]), vec![], spki(&IDENTITY)];
    for pos in 0..base.len() {
        for v in 0..=255u8 {
            if v != base[pos] {
                let mut b = base.clone();
                b[pos] = v;
                ees.push(b);
            }
        }
        ees.push(base[..pos].to_vec());
    }
    for v in 0..=255u8 {
        let mut b = base.clone();
        b.push(v);
        ees.push(b);
    }
    for v in [0u8, 1, 0xff] {
        let mut b = base.clone();
        b.extend_from_slice(&[v, v]);
        ees.push(b);
    }
    for ee in &ees {
        for inter in 0..=2 {
            for n in &names {
                out.push(Case::Cert { ee: hex(ee), inter, name: n.clone() });
            }
        }
    }
    // ---- TLS 1.3 CertificateVerify inputs
    let msgs: Vec<Vec<u8>> = vec![vec![], b"TLS 1.3, server CertificateVerify".to_vec(), vec![0x20; 98]];
    for (mi, m) in msgs.iter().enumerate() {
        let other = &msgs[(mi + 1) % msgs.len()];
        let good = ks[0].sign(m).to_bytes().to_vec();
        let by_other = ks[1].sign(m).to_bytes().to_vec();
        let over_other = ks[0].sign(other).to_bytes().to_vec();
        let mut mutated = base.clone();
        mutated[20] ^= 1;
        let certs: Vec<Vec<u8>> = vec![base.clone(), spki(k1.as_bytes()), mutated, x509_for(&ks[0]), base[..43].to_vec(), spki(&IDENTITY)];
        for c in &certs {
            let mut sigs: Vec<(u16, Vec<u8>)> = vec![(0x0807, good.clone()), (0x0807, by_other.clone()), (0x0807, over_other.clone()), (0x0807, weak_sig()), (0x0807, vec![]), (0x0807, good[..63].to_vec())];
            let mut longer = good.clone();
            longer.push(0);
            sigs.push((0x0807, longer));
            for bit in 0..512 {
                let mut s = good.clone();
                s[bit / 8] ^= 1 << (bit % 8);
                sigs.push((0x0807, s));
            }
            for scheme in [0x0403u16, 0x0804, 0x0808, 0x0401, 0x0000] {
                sigs.push((scheme, good.clone()));
            }
            for (scheme, s) in sigs {
                out.push(Case::Sig { msg: hex(m), cert: hex(c), scheme, sig: hex(&s) });
            }
        }
    }
    out
}

fn gen_handshake_cases(ctx: &Ctx) -> Vec<Case> {
    let mut out = vec![Case::Pair];
    let presents: Vec<usize> = if ctx.thorough() { (0..N_PRESENT).collect() } else { vec![0, 1, 2, 4, 5, 8, 11] };
    for &p in &presents {
        for d in 0..dialed_ids().len() {
            if !ctx.thorough() && d == 2 && p != 11 {
                continue;
            }
            out.push(Case::Out { present: p, dialed: d });
        }
        out.push(Case::In { present: p });
    }
    out
}

fn main() {
    let ctx = Ctx::from_args("C01", Level::Exploration);
    silence_all_panics();
    ctx.set_rule("verifier level: exhaustive product of small alphabets run through the real verifiers / name codec (every single-character substitution over 63 symbols, deletion, duplication and truncation at every position of encode(K), label permutations and decorations, all strings of length <=2 over 6 symbols; every single-byte mutation, truncation and 1-byte extension of SPKI(K) x {0,1,2} intermediates x 5 server names; 3 messages x 6 certificates x {right/wrong-key/wrong-message/forged/short/long signatures, all 512 bit flips, 5 other schemes}); handshake level: every presentation of the menu x every dialed id against a real dialing Endpoint, every presentation against a real accepting Endpoint; distinct = (reference class, outcome)");
    ctx.assume("point validity and strict signature validity are decided by an independent reference written on curve25519-dalek + sha2");
    ctx.assume("base32 case-insensitivity of the first label is allowed by the statement's '<base32 of 32 key bytes>'");
    ctx.min_outcomes(20);
    if let Some(c) = ctx.replay_case::<Case>() {
        run_case(&ctx, &c);
        ctx.finish();
    }
    let vcases = gen_verifier_cases(&ctx);
    ctx.bound("verifier_cases", vcases.len());
    for c in vcases.iter().step_by((vcases.len() / 6).max(1)) {
        ctx.sample(&format!("{c:?}").chars().take(8).collect::<String>(), c);
    }
    par_for_each(&vcases, |c| run_case(&ctx, c));
    let hcases = gen_handshake_cases(&ctx);
    ctx.bound("handshakes", hcases.len());
    let jobs = workers().min(6);
    let chunks: Vec<Vec<Case>> = (0..jobs).map(|j| hcases.iter().skip(j).step_by(jobs).cloned().collect()).collect();
    par_for_each(&chunks, |chunk| {
        for c in chunk {
            run_case(&ctx, c);
        }
    });
    let (hr, done) = (HONEST_REFUSED.load(std::sync::atomic::Ordering::Relaxed), COMPLETED.load(std::sync::atomic::Ordering::Relaxed));
    ctx.extra("handshakes_completed", done);
    if ctx.violations() == 0 && (hr > 0 || done < 4) {
        // not a verdict of the property ("only if"), but the negative results would be vacuous
        machinery_error(&format!("{hr} honest handshakes were refused / only {done} completed: the harness peers do not interoperate, negative results would be vacuous"));
    }
    ctx.finish();
}
