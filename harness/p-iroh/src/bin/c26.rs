//! C26 Published home relay is the relay most recently chosen — E3 (controlled OS-thread schedules).
//!
//! The real `HomeRelayWatch` is shared by one *chooser* thread (the `RelayActor`: `set` / `clear`, exactly the
//! calls `on_network_change` makes) and one thread per relay connection (`ActiveRelayActor`: `set_status(own url, ..)`).
//! Gates: thread start, between two operations of a thread, and — inside the real `set_status` — between its read
//! of the current URL and its write. Every schedule of every program is executed; at every quiescent point the
//! advertised value is read back and compared with what the statement allows.
use iroh::verif::c26::{State, Watch};
use iroh_base::RelayUrl;
use serde::{Deserialize, Serialize};
use std::collections::BTreeSet;
use std::sync::{Arc, Mutex};
use vh_engine::thrsched::{self, Body};
use vh_engine::*;

#[derive(Serialize, Deserialize, Clone, Debug, PartialEq, Eq)]
enum St {
    Connecting,
    Connected,
    /// Disconnected with an error whose text is the tag (unique per operation, so the writer is identifiable)
    Disc(String),
    DiscNone,
}
impl St {
    fn real(&self) -> State {
        match self {
            St::Connecting => State::Connecting,
            St::Connected => State::Connected,
            St::Disc(t) => State::Disconnected(Some(t.clone())),
            St::DiscNone => State::Disconnected(None),
        }
    }
    fn of(s: &State) -> St {
        match s {
            State::Connecting => St::Connecting,
            State::Connected => St::Connected,
            State::Disconnected(Some(t)) => St::Disc(t.clone()),
            State::Disconnected(None) => St::DiscNone,
        }
    }
}

#[derive(Serialize, Deserialize, Clone, Debug, PartialEq, Eq)]
enum Op {
    /// chooser: a new home relay is chosen (`HomeRelayWatch::set(url, Connecting)`)
    Choose(usize),
    /// chooser: no home relay any more (`HomeRelayWatch::clear`)
    Clear,
    /// relay connection `url`: publish own status (`HomeRelayWatch::set_status(url, st)`)
    Status(usize, St),
}

#[derive(Serialize, Deserialize, Clone, Debug)]
struct Program {
    name: String,
    /// executed sequentially before the threads start (thread 0 of `threads` is the chooser)
    init: Vec<Op>,
    /// thread 0: chooser ops; thread i>0: ops of one relay connection (all `Status` with the same url)
    threads: Vec<Vec<Op>>,
}

#[derive(Serialize, Deserialize, Clone, Debug)]
struct Case {
    program: Program,
    /// scheduler choices (index into the enabled set at each decision point); beyond it: default continuation
    schedule: Vec<usize>,
}

fn url(i: usize) -> RelayUrl {
    ["https://a.example.com./", "https://b.example.com./", "https://c.example.com./"][i].parse().unwrap()
}
fn url_idx(u: &RelayUrl) -> usize {
    (0..3).find(|&i| &url(i) == u).expect("unknown url")
}

fn apply(w: &Watch, op: &Op) {
    match op {
        Op::Choose(u) => w.set(url(*u), State::Connecting),
        Op::Clear => w.clear(),
        Op::Status(u, st) => w.set_status(&url(*u), st.real()),
    }
}

#[derive(Clone, Debug, PartialEq, Eq)]
enum Ev {
    Begin(usize, usize),
    End(usize, usize),
}

type Val = Option<(usize, St)>;
struct Obs {
    watch: Watch,
    log: Arc<Mutex<Vec<Ev>>>,
    /// (log length, value via get, value via watcher) at every quiescent point
    snaps: Mutex<Vec<(usize, Val, Val)>>,
}

fn conv(v: Option<(RelayUrl, State)>) -> Val {
    v.map(|(u, s)| (url_idx(&u), St::of(&s)))
}

fn mk(p: &Program) -> (Vec<Body>, Arc<Obs>) {
    let watch = Watch::default();
    for op in &p.init {
        apply(&watch, op);
    }
    let log = Arc::new(Mutex::new(Vec::new()));
    let mut bodies: Vec<Body> = Vec::new();
    for (t, ops) in p.threads.iter().enumerate() {
        let (w, ops, log) = (watch.clone(), ops.clone(), log.clone());
        bodies.push(Box::new(move || {
            for (i, op) in ops.iter().enumerate() {
                if i > 0 {
                    thrsched::pause("next-op");
                }
                log.lock().unwrap().push(Ev::Begin(t, i));
                apply(&w, op);
                log.lock().unwrap().push(Ev::End(t, i));
            }
        }));
    }
    (bodies, Arc::new(Obs { watch, log, snaps: Mutex::new(Vec::new()) }))
}

fn observe(o: &Arc<Obs>) {
    let n = o.log.lock().unwrap().len();
    let v = conv(o.watch.get());
    let w = conv(o.watch.watched());
    o.snaps.lock().unwrap().push((n, v, w));
}

// ---------------- reference model (from the statement) ----------------
//
// There is one chooser, so choices are totally ordered. At an instant (a prefix of the begin/end log):
//   home     = url of the last *completed* choice (init included); while a choice is in flight (begun, not
//              ended — only possible when the chooser is blocked) either the previous or the new one;
//   U        the advertised url is `home` (None after a clear);
//   S        the advertised status is the one published with that choice, or one published by the relay
//              connection of `home` itself (any of its operations begun so far) — never by another connection;
//   L        ("whose connection state it reports") if no choice is in flight and the connection of `home` has
//              completed status publications that began after the choice completed, the advertised status is the
//              last of them (or the one it is publishing right now); otherwise it is the choice's status or one
//              of that connection's publications overlapping the choice (or in flight).
fn pos(log: &[Ev], e: &Ev) -> Option<usize> {
    log.iter().position(|x| x == e)
}

struct Verdict {
    bad: Option<String>,
    class: String,
}

fn oracle(p: &Program, log: &[Ev], snaps: &[(usize, Val, Val)]) -> Verdict {
    // the choice published with `Choose` is Connecting; with Clear nothing
    let init_home: Option<Option<usize>> = p.init.iter().rev().find_map(|op| match op {
        Op::Choose(u) => Some(Some(*u)),
        Op::Clear => Some(None),
        _ => None,
    });
    let init_home: Option<usize> = init_home.unwrap_or(None);
    // statuses published during init by connection u (sequential, so they are "completed after" semantics handled below)
    let mut class_bits: Vec<String> = Vec::new();
    let mut bad = None;
    for (k, (n, v, w)) in snaps.iter().enumerate() {
        let l = &log[..*n];
        if v != w {
            bad.get_or_insert(format!("point {k}: get() = {v:?} but watcher sees {w:?}"));
        }
        // choices
        let mut completed: Option<(usize, &Op)> = None; // (op index, op) of last completed chooser op
        let mut inflight: Option<&Op> = None;
        for (i, op) in p.threads[0].iter().enumerate() {
            let b = pos(l, &Ev::Begin(0, i));
            let e = pos(l, &Ev::End(0, i));
            match (b, e) {
                (Some(_), Some(_)) => completed = Some((i, op)),
                (Some(_), None) => inflight = Some(op),
                _ => {}
            }
        }
        let home_of = |op: &Op| match op {
            Op::Choose(u) => Some(*u),
            _ => None,
        };
        let home_completed: Option<usize> = match completed {
            Some((_, op)) => home_of(op),
            None => init_home,
        };
        let mut allowed_urls: Vec<Option<usize>> = vec![home_completed];
        if let Some(op) = inflight {
            allowed_urls.push(home_of(op));
        }
        let got_url = v.as_ref().map(|x| x.0);
        if !allowed_urls.contains(&got_url) {
            bad.get_or_insert(format!(
                "point {k}: advertised url {:?} but the relay most recently chosen is {:?} (log {:?})",
                got_url.map(url),
                allowed_urls.iter().map(|u| u.map(url)).collect::<Vec<_>>(),
                l
            ));
            continue;
        }
        let Some((h, got_st)) = v.clone() else { continue };
        // S: status comes from the choice or from connection h
        let mut s_allowed: Vec<St> = vec![St::Connecting];
        for op in &p.init {
            if let Op::Status(u, st) = op {
                if *u == h {
                    s_allowed.push(st.clone());
                }
            }
        }
        for (t, ops) in p.threads.iter().enumerate().skip(1) {
            for (i, op) in ops.iter().enumerate() {
                if let Op::Status(u, st) = op {
                    if *u == h && pos(l, &Ev::Begin(t, i)).is_some() {
                        s_allowed.push(st.clone());
                    }
                }
            }
        }
        if !s_allowed.contains(&got_st) {
            bad.get_or_insert(format!(
                "point {k}: advertised status {got_st:?} for home {} was not published by that relay's connection (allowed {s_allowed:?})",
                url(h)
            ));
            continue;
        }
        // L
        if inflight.is_none() && got_url == home_completed {
            // end position of the choice that made h home (None = init, i.e. before everything)
            let choice_end: Option<usize> = completed.map(|(i, _)| pos(l, &Ev::End(0, i)).unwrap());
            let choice_begin: Option<usize> = completed.map(|(i, _)| pos(l, &Ev::Begin(0, i)).unwrap());
            let mut last_after_completed: Option<St> = None;
            let mut others: Vec<St> = Vec::new(); // overlapping or in flight
            if completed.is_none() {
                // statuses of init by h, sequentially after the init choice: the last one counts as completed-after
                let mut seen_choice = false;
                for op in &p.init {
                    match op {
                        Op::Choose(_) | Op::Clear => {
                            seen_choice = true;
                            last_after_completed = None;
                        }
                        Op::Status(u, st) if *u == h && seen_choice => last_after_completed = Some(st.clone()),
                        _ => {}
                    }
                }
            }
            for (t, ops) in p.threads.iter().enumerate().skip(1) {
                for (i, op) in ops.iter().enumerate() {
                    let Op::Status(u, st) = op else { continue };
                    if *u != h {
                        continue;
                    }
                    let (b, e) = (pos(l, &Ev::Begin(t, i)), pos(l, &Ev::End(t, i)));
                    let Some(b) = b else { continue };
                    let began_after_choice = choice_end.map(|ce| b > ce).unwrap_or(true);
                    match e {
                        Some(e) => {
                            if began_after_choice {
                                last_after_completed = Some(st.clone());
                                others.clear();
                            } else if choice_begin.map(|cb| e > cb).unwrap_or(false) {
                                others.push(st.clone()); // overlaps the choice
                            }
                        }
                        None => others.push(st.clone()), // in flight
                    }
                }
            }
            let l_allowed: Vec<St> = match &last_after_completed {
                Some(s) => std::iter::once(s.clone()).chain(others.iter().cloned()).collect(),
                None => std::iter::once(St::Connecting).chain(others.iter().cloned()).collect(),
            };
            if !l_allowed.contains(&got_st) {
                bad.get_or_insert(format!(
                    "point {k}: home {} advertises status {got_st:?} but its connection's latest publication is {l_allowed:?} (log {:?})",
                    url(h),
                    l
                ));
            }
        }
    }
    // class: relation of every connection op to the chooser ops, on the complete log
    for (t, ops) in p.threads.iter().enumerate().skip(1) {
        for (i, _) in ops.iter().enumerate() {
            let (b, e) = (pos(log, &Ev::Begin(t, i)), pos(log, &Ev::End(t, i)));
            let mut rel = String::new();
            for (j, _) in p.threads[0].iter().enumerate() {
                let (cb, ce) = (pos(log, &Ev::Begin(0, j)), pos(log, &Ev::End(0, j)));
                let r = match (b, e, cb, ce) {
                    (Some(b), _, _, Some(ce)) if b > ce => 'a', // after the choice
                    (_, Some(e), Some(cb), _) if e < cb => 'b', // before the choice
                    _ => 'o',                                   // overlapping
                };
                rel.push(r);
            }
            class_bits.push(format!("t{t}.{i}:{rel}"));
        }
    }
    Verdict { bad, class: format!("{} [{}]", p.name, class_bits.join(" ")) }
}

fn show(v: &Val) -> String {
    match v {
        None => "none".into(),
        Some((u, s)) => format!("{}:{s:?}", ["a", "b", "c"][*u]),
    }
}

fn programs(ctx: &Ctx) -> Vec<Program> {
    let d = |t: &str| St::Disc(t.to_string());
    let home_a = vec![Op::Choose(0), Op::Status(0, St::Connected)];
    let mut v = vec![
        // the situation of the statement: a is home and connected; b is chosen while a's connection reports a loss
        Program {
            name: "demote".into(),
            init: home_a.clone(),
            threads: vec![vec![Op::Choose(1)], vec![Op::Status(0, d("a1"))], vec![Op::Status(1, St::Connected)]],
        },
        // home is cleared while a's connection reports
        Program { name: "clear".into(), init: home_a.clone(), threads: vec![vec![Op::Clear], vec![Op::Status(0, d("a1"))]] },
        // first choice racing with that relay's own connection (which may already exist as a non-home connection)
        Program { name: "first".into(), init: vec![], threads: vec![vec![Op::Choose(0)], vec![Op::Status(0, St::Connected)]] },
        // a demoted and chosen again
        Program {
            name: "repromote".into(),
            init: home_a.clone(),
            threads: vec![vec![Op::Choose(1), Op::Choose(0)], vec![Op::Status(0, d("a1"))], vec![Op::Status(1, d("b1"))]],
        },
    ];
    if ctx.thorough() {
        v.extend([
            // the demoted connection reports twice (disconnect, then reconnecting)
            Program {
                name: "demote-2ops".into(),
                init: home_a.clone(),
                threads: vec![
                    vec![Op::Choose(1)],
                    vec![Op::Status(0, d("a1")), Op::Status(0, St::Connecting)],
                    vec![Op::Status(1, St::Connecting), Op::Status(1, St::Connected)],
                ],
            },
            // second demotion: a -> b -> c with three connections
            Program {
                name: "demote-twice".into(),
                init: home_a.clone(),
                threads: vec![
                    vec![Op::Choose(1), Op::Choose(2)],
                    vec![Op::Status(0, d("a1"))],
                    vec![Op::Status(1, d("b1"))],
                    vec![Op::Status(2, St::Connected)],
                ],
            },
            Program {
                name: "demote-then-clear".into(),
                init: home_a.clone(),
                threads: vec![vec![Op::Choose(1), Op::Clear], vec![Op::Status(0, d("a1"))], vec![Op::Status(1, d("b1"))]],
            },
            Program {
                name: "clear-then-choose".into(),
                init: home_a.clone(),
                threads: vec![vec![Op::Clear, Op::Choose(1)], vec![Op::Status(0, d("a1"))], vec![Op::Status(1, St::Connected)]],
            },
            Program {
                name: "repromote-2ops".into(),
                init: home_a,
                threads: vec![
                    vec![Op::Choose(1), Op::Choose(0)],
                    vec![Op::Status(0, d("a1")), Op::Status(0, d("a2"))],
                    vec![Op::Status(1, d("b1"))],
                ],
            },
        ]);
    }
    v
}

fn run_one(ctx: &Ctx, p: &Program, x: &thrsched::Execution, o: Arc<Obs>, states: &mut BTreeSet<String>) {
    let log = o.log.lock().unwrap().clone();
    let snaps = o.snaps.lock().unwrap().clone();
    let case = Case { program: p.clone(), schedule: x.choices() };
    if x.deadlock {
        ctx.discrepancy(None, &format!("deadlock: threads {:?} blocked forever", x.blocked), &case);
        return;
    }
    if let Some((t, m)) = x.panics.first() {
        ctx.discrepancy(None, &format!("thread {t} panicked: {m}"), &case);
        return;
    }
    let expected_events: usize = p.threads.iter().map(|t| 2 * t.len()).sum();
    if log.len() != expected_events {
        machinery_error(&format!("C26: incomplete execution log {log:?}"));
    }
    // a state = which operations have begun / ended (as sets: the order in which two threads that were woken
    // by a lock hand-over log their ends is not scheduler-controlled) + the advertised value
    for (n, v, _) in &snaps {
        let mut done: Vec<String> = log[..*n].iter().map(|e| format!("{e:?}")).collect();
        done.sort();
        states.insert(format!("{}|{:?}|{}", p.name, done, show(v)));
    }
    let verdict = oracle(p, &log, &snaps);
    let fin = snaps.last().map(|s| show(&s.1)).unwrap_or_default();
    match verdict.bad {
        Some(what) => ctx.discrepancy(None, &format!("program {}: {what}; schedule threads {:?}", p.name, x.schedule_threads()), &case),
        None => {
            ctx.sample(&verdict.class, serde_json::json!({"case": case, "final": fin, "log": format!("{log:?}")}));
            ctx.eval(&verdict.class, &format!("final {fin}"));
        }
    }
}

fn main() {
    vh_hooks::install();
    let ctx = Ctx::from_args("C26", Level::ModelChecking);
    ctx.set_rule("for each program (initial state + 1 chooser thread + 1 thread per relay connection) every schedule of the OS threads over the gates {thread start, between two ops of a thread, inside the real HomeRelayWatch::set_status between its read and its write} (stateless DFS, no preemption bound); the advertised value is read at every quiescent point; distinct = (program, order relation of every status publication to every choice) x final advertised value");
    ctx.assume("one chooser (the RelayActor is a single task) and one thread per relay connection; HomeRelayWatch::set/clear/get and each half of set_status are atomic (single Watchable operations under its RwLock); sequentially consistent interleavings only");
    ctx.min_outcomes(ctx.pick(8, 16));
    if let Some(c) = ctx.replay_case::<Case>() {
        let (bodies, o) = mk(&c.program);
        let o2 = o.clone();
        let x = thrsched::run_observed(bodies, &c.schedule, &mut |_k| observe(&o2));
        if let Some(d) = &x.diverged {
            machinery_error(&format!("replay diverged: {d}"));
        }
        let mut st = BTreeSet::new();
        run_one(&ctx, &c.program, &x, o, &mut st);
        ctx.finish();
    }
    let progs = programs(&ctx);
    ctx.bound("programs", progs.iter().map(|p| p.name.clone()).collect::<Vec<_>>());
    ctx.bound("preemption_bound", "none (all schedules)");
    let mut states = BTreeSet::new();
    let mut per_prog = Vec::new();
    let mut discarded = 0u64;
    for p in &progs {
        let (st, capped, retries) = thrsched::explore_observed(
            &|| mk(p),
            &mut |o: &Arc<Obs>, _k| observe(o),
            &mut |x, o| run_one(&ctx, p, x, o, &mut states),
            None,
            200_000,
        );
        if capped {
            ctx.cap_hit(&format!("program {}: execution cap", p.name));
        }
        discarded += retries;
        ctx.add_traces(st.executions);
        ctx.add_transitions(st.decision_points);
        per_prog.push(serde_json::json!({"program": p.name, "schedules": st.executions, "decision_points": st.decision_points, "max_points": st.max_points, "deadlocks": st.deadlocks}));
    }
    ctx.add_states(states.len() as u64);
    ctx.extra("per_program", per_prog);
    // executions thrown away because the OS did not reproduce a recorded prefix (not part of any count above)
    ctx.extra("replays_discarded_and_repeated", discarded);
    ctx.finish();
}
