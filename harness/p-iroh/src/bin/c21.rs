//! C21 Per-remote state never loses requests across idle shutdown and restart — E2 (stimulus-order exploration).
//!
//! A real `RemoteMap` (real `RemoteStateActor` tasks) runs on a paused-clock current-thread tokio runtime. The
//! harness plays the socket actor (`resolve_remote`, one poll of `cleanup`), a holder of a cloned inbox sender
//! (`Socket::remote_info`), the clock (`advance(61 s)` > the 60 s idle timeout) and a gate between the actor's exit
//! from its loop and `inbox.close()`. Every sequence of stimuli up to the depth bound is executed from scratch.
use iroh::verif::c21::{DirectSend, Map};
use iroh_base::{EndpointAddr, EndpointId, SecretKey, TransportAddr};
use serde::{Deserialize, Serialize};
use std::collections::BTreeMap;
use std::net::SocketAddr;
use std::time::Duration;
use tokio::sync::oneshot::error::TryRecvError;
use vh_engine::*;

const GATE: &str = "remote_state.before_close";

#[derive(Serialize, Deserialize, Clone, Copy, Debug, PartialEq, Eq, Hash)]
enum Stim {
    /// socket actor: `resolve_remote` for remote r with one IP address carrying the request's sequence number
    ResolveAddr(usize),
    /// socket actor: `resolve_remote` for remote r without addresses
    ResolveEmpty(usize),
    /// holder of a cloned sender hands a `RemoteInfo` request to remote r's inbox
    Direct(usize),
    /// 61 s pass (idle timeout is 60 s)
    Advance,
    /// the oldest actor parked between its loop exit and `inbox.close()` continues
    Release,
    /// socket actor: one poll of `RemoteMap::cleanup`
    Cleanup,
}

#[derive(Serialize, Deserialize, Clone, Debug)]
struct Case {
    stimuli: Vec<Stim>,
}

fn remote(r: usize) -> EndpointId {
    SecretKey::from_bytes(&[r as u8 + 1; 32]).public()
}

struct Req {
    remote: usize,
    marker: Option<u16>,
    rx: tokio::sync::oneshot::Receiver<Result<(), iroh::verif::c21::AddressLookupFailed>>,
    answer: Option<&'static str>,
}

struct Outcome {
    noop: bool,
    class: String,
    outcome: String,
    bad: Option<String>,
    events: usize,
}

fn settle() -> tokio::time::Sleep {
    tokio::time::sleep(Duration::from_millis(1))
}

/// per-remote lifecycle check over the complete event log: start/stop strictly alternate (at most one live instance)
fn check_lifecycle(events: &[(String, String)], n_remotes: usize) -> Result<Vec<(u32, bool)>, String> {
    let mut live = vec![false; n_remotes];
    let mut starts = vec![0u32; n_remotes];
    for (label, data) in events {
        let r = (0..n_remotes).find(|&r| data.starts_with(&remote(r).to_string()));
        let Some(r) = r else { continue };
        match label.as_str() {
            "remote_state.start" => {
                if live[r] {
                    return Err(format!("a second state instance for remote {r} started while one is live"));
                }
                live[r] = true;
                starts[r] += 1;
            }
            "remote_state.stop" => {
                if !live[r] {
                    return Err(format!("stop without live instance for remote {r}"));
                }
                live[r] = false;
            }
            "remote_state.handle_resolve" | "remote_state.handle_remote_info" | "remote_state.loop_exit" => {
                if !live[r] {
                    return Err(format!("{label} for remote {r} outside a live instance"));
                }
            }
            _ => {}
        }
    }
    Ok((0..n_remotes).map(|r| (starts[r], live[r])).collect())
}

/// `Debug` output of the real `RemoteMap` (sender map with each inbox channel's counters, task set, cleanup waker, mapped
/// addresses, metrics) with pointer values masked. Used only to decide whether a stimulus left the implementation untouched.
fn map_fingerprint(map: &Map) -> String {
    let d = format!("{map:?}");
    let mut out = String::with_capacity(d.len());
    let mut it = d.chars().peekable();
    while let Some(c) = it.next() {
        out.push(c);
        if c == '0' && it.peek() == Some(&'x') {
            out.push(it.next().unwrap());
            while it.peek().is_some_and(|h| h.is_ascii_hexdigit()) {
                it.next();
            }
            out.push('_');
        }
    }
    out
}

/// number of state instances that are inside their main loop (started, not stopped, not parked at the gate before `inbox.close()`)
fn running_instances(events: &[(String, String)]) -> usize {
    let starts = events.iter().filter(|(l, _)| l == "remote_state.start").count();
    let stops = events.iter().filter(|(l, _)| l == "remote_state.stop").count();
    starts.saturating_sub(stops).saturating_sub(seams::waiting(GATE))
}

async fn run_case(stimuli: &[Stim], n_remotes: usize) -> Outcome {
    seams::reset_local();
    seams::arm(GATE);
    let mut map = Map::new();
    let mut reqs: Vec<Req> = Vec::new();
    let mut directs = Vec::new();
    let mut bad: Option<String> = None;
    let mut noop = false;
    let mut direct_results: Vec<&'static str> = Vec::new();
    for (i, s) in stimuli.iter().enumerate() {
        let ev_before = seams::events_snapshot().len();
        let waiting_before = seams::waiting(GATE);
        let senders_before: Vec<bool> = (0..n_remotes).map(|r| map.has_sender(remote(r))).collect();
        let fp_before = map_fingerprint(&map);
        let mut changed = false;
        match *s {
            Stim::ResolveAddr(r) | Stim::ResolveEmpty(r) => {
                let marker = if matches!(s, Stim::ResolveAddr(_)) { Some(1000 + i as u16) } else { None };
                let addrs: Vec<TransportAddr> =
                    marker.iter().map(|p| TransportAddr::Ip(SocketAddr::from(([127, 0, 0, 1], *p)))).collect();
                let addr = EndpointAddr::from_parts(remote(r), addrs);
                match tokio::time::timeout(Duration::from_secs(3600), map.resolve(addr)).await {
                    Ok(rx) => reqs.push(Req { remote: r, marker, rx, answer: None }),
                    Err(_) => {
                        bad.get_or_insert(format!("step {i}: resolve_remote for remote {r} did not return within an hour of virtual time"));
                        break;
                    }
                }
                changed = true;
            }
            Stim::Direct(r) => match map.remote_info_direct(remote(r)) {
                DirectSend::Accepted(rx) => {
                    directs.push((r, rx));
                    direct_results.push("accepted");
                    changed = true;
                }
                DirectSend::NoSender => direct_results.push("no-sender"),
                DirectSend::Closed => direct_results.push("closed"),
                DirectSend::Full => direct_results.push("full"),
            },
            Stim::Advance => tokio::time::advance(Duration::from_secs(61)).await,
            Stim::Release => {
                changed = seams::release(GATE);
            }
            Stim::Cleanup => {
                // like the socket actor's select loop: the cleanup future is polled, and dropped when it is pending
                changed = map.cleanup_once().is_some();
            }
        }
        settle().await;
        let ev_after = seams::events_snapshot().len();
        let senders_after: Vec<bool> = (0..n_remotes).map(|r| map.has_sender(remote(r))).collect();
        // "no effect" must hold for the implementation, not only for what the harness watches: the real map's own state
        // (Debug fingerprint) must be unchanged, and time may only be called a pure shift when no instance is inside its
        // main loop (a running instance has timers — idle deadline, connection check — that 61 s move even if nothing fires)
        let impl_untouched = map_fingerprint(&map) == fp_before && !(matches!(s, Stim::Advance) && running_instances(&seams::events_snapshot()) > 0);
        let step_noop = !changed && ev_after == ev_before && seams::waiting(GATE) == waiting_before && senders_after == senders_before && impl_untouched;
        if i + 1 == stimuli.len() {
            noop = step_noop;
        }
    }
    // ---- final drain: let every parked actor continue and let the socket actor clean up, until nothing moves ----
    if bad.is_none() {
        for _round in 0..20 {
            let mut moved = false;
            while seams::release(GATE) {
                moved = true;
                settle().await;
            }
            while map.cleanup_once().is_some() {
                moved = true;
                settle().await;
            }
            settle().await;
            if !moved && seams::waiting(GATE) == 0 {
                break;
            }
        }
    }
    let events = seams::events_snapshot();
    // answers
    for q in reqs.iter_mut() {
        q.answer = Some(match q.rx.try_recv() {
            Ok(Ok(())) => "ok",
            Ok(Err(_)) => "err",
            Err(TryRecvError::Empty) => "UNANSWERED",
            Err(TryRecvError::Closed) => "DROPPED",
        });
    }
    if bad.is_none() {
        for (k, q) in reqs.iter().enumerate() {
            if matches!(q.answer, Some("UNANSWERED") | Some("DROPPED")) {
                bad = Some(format!("request #{k} (remote {}, marker {:?}) was never answered: {}", q.remote, q.marker, q.answer.unwrap()));
                break;
            }
        }
    }
    // lifecycle
    let life = check_lifecycle(&events, n_remotes);
    if bad.is_none() {
        if let Err(e) = &life {
            bad = Some(e.clone());
        }
    }
    // processing order per remote = issue order; every request processed exactly once
    if bad.is_none() {
        for r in 0..n_remotes {
            let issued: Vec<String> = reqs.iter().filter(|q| q.remote == r).map(|q| q.marker.map(|m| m.to_string()).unwrap_or("-".into())).collect();
            let id = remote(r).to_string();
            let handled: Vec<String> = events
                .iter()
                .filter(|(l, d)| l == "remote_state.handle_resolve" && d.starts_with(&id))
                .map(|(_, d)| {
                    // data = "<id> {Ip(127.0.0.1:PORT)}" or "<id> {}"
                    match d.rfind("127.0.0.1:") {
                        Some(p) => d[p + 10..].chars().take_while(|c| c.is_ascii_digit()).collect::<String>(),
                        None => "-".to_string(),
                    }
                })
                .collect();
            if issued != handled {
                bad = Some(format!("remote {r}: requests issued in order {issued:?} but processed as {handled:?}"));
                break;
            }
        }
    }
    map.shutdown();
    settle().await;
    drop(map);
    seams::clear_local();
    let restarts: Vec<String> = match &life {
        Ok(v) => v.iter().map(|(s, _)| s.to_string()).collect(),
        Err(_) => vec!["?".into()],
    };
    let leftovers = events.iter().filter(|(l, d)| l == "remote_state.stop" && !d.ends_with("leftover=0")).count();
    let restarted_with_initial = events.iter().filter(|(l, d)| l == "remote_state.start" && !d.ends_with("initial=0")).count();
    let answers: Vec<&str> = reqs.iter().map(|q| q.answer.unwrap_or("?")).collect();
    let _ = directs;
    Outcome {
        noop,
        class: format!(
            "instances[{}] leftover-handoffs={} restarts-with-initial={} direct[{}]",
            restarts.join(","),
            leftovers.min(2),
            restarted_with_initial.min(2),
            {
                let mut d = direct_results.clone();
                d.sort();
                d.dedup();
                d.join(",")
            }
        ),
        outcome: {
            let mut a = answers.clone();
            a.sort();
            a.dedup();
            format!("answers{{{}}}", a.join(","))
        },
        bad,
        events: events.len(),
    }
}

fn exec(stimuli: &[Stim], n_remotes: usize) -> Result<Outcome, String> {
    quiet_catch(|| {
        let rt = tokio::runtime::Builder::new_current_thread().enable_all().start_paused(true).build().unwrap();
        let out = rt.block_on(run_case(stimuli, n_remotes));
        drop(rt);
        out
    })
}

fn main() {
    vh_hooks::install();
    let ctx = Ctx::from_args("C21", Level::ModelChecking);
    // (number of remotes, depth bound) explored one after the other
    let configs: Vec<(usize, usize)> = ctx.pick(vec![(1, 7), (2, 7)], vec![(1, 9), (2, 8)]); // two remotes at depth >= 7 are needed for "both idled out, neither reaped, request for the second, then for the first" (seeded change C21-seed35)
    ctx.set_rule("every sequence of stimuli {resolve_remote with address, resolve_remote without address, direct RemoteInfo through the shared sender map (per remote), advance 61 s, release the oldest actor parked before inbox.close(), one poll of cleanup} up to the depth bound, each executed from scratch on a fresh RemoteMap under the paused clock with a settle (run to quiescence) after every stimulus and a final drain; a sequence whose last stimulus had no effect (no event, no gate/sender change, nothing accepted, the Debug fingerprint of the real RemoteMap unchanged, and — for the 61 s advance — no state instance inside its main loop whose timers it could move) is evaluated but not extended; distinct = (instance counts, leftover hand-offs, direct-send results) x set of answers");
    ctx.assume("single-threaded runtime: interleavings inside one poll exist only at the gate before inbox.close(); AddConnection (needs a live QUIC connection) shares send_to_actor with resolve_remote and is not driven; no address-lookup service configured, so a resolve without any known address is answered with an error at once");
    ctx.bound("remotes_x_depth", &configs);
    ctx.min_outcomes(8);
    let report = |ctx: &Ctx, stimuli: &[Stim], r: Result<Outcome, String>| -> bool {
        let case = Case { stimuli: stimuli.to_vec() };
        match r {
            Err(p) => {
                ctx.discrepancy(None, &format!("panic: {p}"), &case);
                false
            }
            Ok(o) => {
                if let Some(b) = &o.bad {
                    ctx.discrepancy(None, b, &case);
                    return false;
                }
                ctx.sample(&o.class, serde_json::json!({"case": case, "outcome": o.outcome, "events": o.events}));
                ctx.eval(&o.class, &o.outcome);
                !o.noop
            }
        }
    };
    if let Some(c) = ctx.replay_case::<Case>() {
        let nr = c.stimuli.iter().map(|s| match s { Stim::ResolveAddr(r) | Stim::ResolveEmpty(r) | Stim::Direct(r) => r + 1, _ => 1 }).max().unwrap_or(1);
        report(&ctx, &c.stimuli, exec(&c.stimuli, nr));
        ctx.finish();
    }
    let mut total_states = 0u64;
    let mut per_depth: BTreeMap<String, (usize, usize)> = BTreeMap::new();
    for &(n_remotes, depth) in &configs {
        total_states += 1;
        let mut alphabet: Vec<Stim> = Vec::new();
        for r in 0..n_remotes {
            alphabet.extend([Stim::ResolveAddr(r), Stim::ResolveEmpty(r), Stim::Direct(r)]);
        }
        alphabet.extend([Stim::Advance, Stim::Release, Stim::Cleanup]);
        let mut frontier: Vec<Vec<Stim>> = vec![vec![]];
        for d in 1..=depth {
            let mut cands: Vec<Vec<Stim>> = Vec::new();
            for h in &frontier {
                for a in &alphabet {
                    // symmetry: remote 1 may only appear after remote 0 has been used (remotes are interchangeable)
                    if let Stim::ResolveAddr(1) | Stim::ResolveEmpty(1) | Stim::Direct(1) = a {
                        if !h.iter().any(|s| matches!(s, Stim::ResolveAddr(0) | Stim::ResolveEmpty(0) | Stim::Direct(0))) {
                            continue;
                        }
                    }
                    let mut h2 = h.clone();
                    h2.push(*a);
                    cands.push(h2);
                }
            }
            let results = std::sync::Mutex::new(vec![false; cands.len()]);
            let idx: Vec<usize> = (0..cands.len()).collect();
            par_for_each(&idx, |&i| {
                let keep = report(&ctx, &cands[i], exec(&cands[i], n_remotes));
                results.lock().unwrap()[i] = keep;
            });
            let results = results.into_inner().unwrap();
            ctx.add_transitions(cands.len() as u64);
            ctx.add_traces(cands.len() as u64);
            let next: Vec<Vec<Stim>> = cands.iter().zip(&results).filter(|(_, k)| **k).map(|(c, _)| c.clone()).collect();
            total_states += next.len() as u64;
            per_depth.insert(format!("{n_remotes}r/d{d}"), (cands.len(), next.len()));
            frontier = next;
            if ctx.violations() > 0 || frontier.is_empty() {
                break;
            }
        }
        if ctx.violations() > 0 {
            break;
        }
    }
    ctx.add_states(total_states);
    ctx.extra("per_depth_executed_and_extended", per_depth);
    ctx.finish();
}
