//! C28 Preferred relay choice is current and sticky — E1: every history of net reports (within the bounds below) is
//! executed against the real `Client::add_report_history_and_set_preferred_relay` (through
//! `iroh::verif::c28::ReportHistory`) under tokio's paused clock; after every report the chosen preferred relay is
//! compared with a reference model written from the property statement (exact integer arithmetic for 2/3).
use iroh::verif::c28::{Probe, Report, ReportHistory, latencies_update};
use iroh_base::RelayUrl;
use serde::{Deserialize, Serialize};
use std::collections::{BTreeMap, BTreeSet, HashSet};
use std::hash::{Hash, Hasher};
use std::sync::{Arc, Mutex};
use std::time::Duration;
use vh_engine::*;

/// "the last five minutes"
const WINDOW_S: u64 = 300;
const RELAYS: [&str; 3] = ["https://a.relay.example./", "https://b.relay.example./", "https://c.relay.example./"];
const KINDS: [&str; 3] = ["https", "v4", "v6"];

/// one measurement: (relay index, probe kind 0 https / 1 qad-v4 / 2 qad-v6, latency in ms)
type Meas = (u8, u8, u16);

#[derive(Serialize, Deserialize, Clone, Debug, PartialEq, Eq)]
struct Step {
    /// seconds of (virtual) time elapsed since the previous report (ignored for the first)
    gap_s: u32,
    meas: Vec<Meas>,
}
#[derive(Serialize, Deserialize, Clone, Debug, PartialEq, Eq)]
struct Case {
    steps: Vec<Step>,
}

// ---------------- reference model (from the statement) ----------------
#[derive(Default)]
struct Model {
    now_s: u64,
    /// (time, per-relay lowest latency of that report)
    past: Vec<(u64, BTreeMap<u8, u64>)>,
    prev_preferred: Option<u8>,
}
struct Expect {
    allowed: BTreeSet<Option<u8>>,
    class: &'static str,
}
impl Model {
    fn expect(&self, meas: &[Meas]) -> Expect {
        let mut cur_low: BTreeMap<u8, u64> = BTreeMap::new();
        for &(r, _, l) in meas {
            let l = l as u64;
            cur_low.entry(r).and_modify(|x| *x = (*x).min(l)).or_insert(l);
        }
        let mut allowed = BTreeSet::new();
        if cur_low.is_empty() {
            allowed.insert(None);
            return Expect { allowed, class: "nothing measured" };
        }
        // best latency over the last five minutes, for the relays measured in this report
        let best = |r: u8| -> u64 {
            let mut b = cur_low[&r];
            for (t, lows) in &self.past {
                if self.now_s - t <= WINDOW_S {
                    if let Some(&l) = lows.get(&r) {
                        b = b.min(l);
                    }
                }
            }
            b
        };
        let m = cur_low.keys().map(|&r| best(r)).min().unwrap();
        let cands: Vec<u8> = cur_low.keys().copied().filter(|&r| best(r) == m).collect();
        let class;
        match self.prev_preferred.filter(|p| cur_low.contains_key(p)) {
            None => {
                allowed.extend(cands.iter().map(|&c| Some(c)));
                class = if self.prev_preferred.is_none() { "no previous preferred relay" } else { "previous preferred relay not measured" };
            }
            Some(p) => {
                let low_cur = cur_low[&p];
                // change only when new best <= 2/3 * previous relay's lowest latency in this report (exact)
                let much_better = 3 * m <= 2 * low_cur;
                if cands.contains(&p) {
                    allowed.insert(Some(p));
                    if much_better {
                        allowed.extend(cands.iter().map(|&c| Some(c)));
                    }
                    class = "previous still best";
                } else if much_better {
                    allowed.extend(cands.iter().map(|&c| Some(c)));
                    class = "another relay better by >= 1/3: change";
                } else {
                    allowed.insert(Some(p));
                    class = "another relay better by < 1/3: stick";
                }
            }
        }
        Expect { allowed, class }
    }
    fn commit(&mut self, meas: &[Meas], chosen: Option<u8>) {
        let mut lows: BTreeMap<u8, u64> = BTreeMap::new();
        for &(r, _, l) in meas {
            let l = l as u64;
            lows.entry(r).and_modify(|x| *x = (*x).min(l)).or_insert(l);
        }
        self.past.push((self.now_s, lows));
        self.prev_preferred = chosen;
    }
    /// canonical form of what can influence the future: in-window reports (age, lows) + previous preferred relay
    fn canon(&self) -> u64 {
        let mut h = std::collections::hash_map::DefaultHasher::new();
        for (t, lows) in &self.past {
            (self.now_s - t, lows).hash(&mut h);
        }
        self.prev_preferred.hash(&mut h);
        h.finish()
    }
}

// ---------------- execution against the real code ----------------
struct Real {
    hist: ReportHistory,
    urls: Vec<RelayUrl>,
}
fn probe(k: u8) -> Probe {
    match k {
        0 => Probe::Https,
        1 => Probe::QadIpv4,
        _ => Probe::QadIpv6,
    }
}
fn build_report(urls: &[RelayUrl], meas: &[Meas]) -> Report {
    let mut r = Report::default();
    for &(relay, kind, lat) in meas {
        latencies_update(&mut r.relay_latency, urls[relay as usize].clone(), Duration::from_millis(lat as u64), probe(kind));
    }
    r
}
fn describe(c: &Case) -> String {
    c.steps
        .iter()
        .map(|s| format!("+{}s {{{}}}", s.gap_s, s.meas.iter().map(|&(r, k, l)| format!("{}/{}={}ms", ["a", "b", "c"][r as usize], KINDS[k as usize], l)).collect::<Vec<_>>().join(" ")))
        .collect::<Vec<_>>()
        .join(" ; ")
}

struct Agg {
    outcomes: BTreeMap<(&'static str, &'static str), u64>,
    states: HashSet<u64>,
    transitions: u64,
}

async fn run_case(ctx: &Ctx, real: &mut Real, c: &Case, agg: &mut Agg, check_all_steps: bool) {
    real.hist.reset();
    let mut model = Model::default();
    for (i, step) in c.steps.iter().enumerate() {
        if i > 0 {
            tokio::time::advance(Duration::from_secs(step.gap_s as u64)).await;
            model.now_s += step.gap_s as u64;
        }
        let mut report = build_report(&real.urls, &step.meas);
        let hist = &mut real.hist;
        if let Err(p) = quiet_catch(|| hist.add_report(&mut report)) {
            ctx.discrepancy(None, &format!("panic: {p} in history {}", describe(c)), c);
            return;
        }
        agg.transitions += 1;
        let got: Option<u8> = match &report.preferred_relay {
            None => None,
            Some(u) => match real.urls.iter().position(|x| x == u) {
                Some(i) => Some(i as u8),
                None => {
                    ctx.discrepancy(None, &format!("preferred relay {u} is not a known relay; history {}", describe(c)), c);
                    return;
                }
            },
        };
        let exp = model.expect(&step.meas);
        let last = i + 1 == c.steps.len();
        if !exp.allowed.contains(&got) {
            let name = |o: &Option<u8>| o.map(|r| ["a", "b", "c"][r as usize]).unwrap_or("none");
            ctx.discrepancy(
                None,
                &format!(
                    "after report {} preferred relay = {} but the statement admits only {{{}}} [{}]; previous preferred = {}; history {}",
                    i + 1,
                    name(&got),
                    exp.allowed.iter().map(name).collect::<Vec<_>>().join(","),
                    exp.class,
                    name(&model.prev_preferred),
                    describe(c)
                ),
                c,
            );
            return;
        }
        if last || check_all_steps {
            let outcome = match (got, model.prev_preferred) {
                (None, _) => "none",
                (Some(_), None) => "chosen",
                (Some(g), Some(p)) if g == p => "kept previous",
                _ => "changed",
            };
            if last {
                *agg.outcomes.entry((exp.class, outcome)).or_insert(0) += 1;
            }
        }
        model.commit(&step.meas, got);
        agg.states.insert(model.canon());
    }
}

// ---------------- alphabets ----------------
const L_FULL: [u16; 5] = [10, 20, 21, 30, 31];

/// every measurement profile of one relay in a "full" report
fn profiles_full(relay: u8) -> Vec<Vec<Meas>> {
    let mut v: Vec<Vec<Meas>> = vec![vec![]];
    for &x in &L_FULL {
        v.push(vec![(relay, 0, x)]);
    }
    // two kinds (https + qad-v6): lowest != last-iterated in both directions
    for &(x, y) in &[(21u16, 31u16), (31, 21), (20, 30), (30, 20)] {
        v.push(vec![(relay, 0, x), (relay, 2, y)]);
    }
    // three kinds: lowest / highest / last-iterated all in different positions
    for &(x, y, z) in &[(21u16, 31u16, 30u16), (30, 21, 31), (31, 30, 21)] {
        v.push(vec![(relay, 0, x), (relay, 1, y), (relay, 2, z)]);
    }
    v
}
fn profiles_simple(relay: u8, lats: &[u16]) -> Vec<Vec<Meas>> {
    let mut v: Vec<Vec<Meas>> = vec![vec![]];
    for &x in lats {
        v.push(vec![(relay, 0, x)]);
    }
    v
}
fn product(per_relay: &[Vec<Vec<Meas>>]) -> Vec<Vec<Meas>> {
    let mut out: Vec<Vec<Meas>> = vec![vec![]];
    for p in per_relay {
        let mut next = Vec::new();
        for base in &out {
            for add in p {
                let mut b = base.clone();
                b.extend(add.iter().copied());
                next.push(b);
            }
        }
        out = next;
    }
    out
}
fn reports_full() -> Vec<Vec<Meas>> {
    product(&[profiles_full(0), profiles_full(1), profiles_simple(2, &[10, 21, 30])])
}
fn reports_simple(relays: &[u8], lats: &[u16]) -> Vec<Vec<Meas>> {
    product(&relays.iter().map(|&r| profiles_simple(r, lats)).collect::<Vec<_>>())
}

const GAPS: [u32; 3] = [1, 200, 301];

/// A work item: a fixed prefix of earlier reports + the gap before the last report; the last report ranges over
/// `last` (kept out of the item so that the big product is never materialised).
struct Work<'a> {
    prefix: Vec<Step>,
    last_gap: u32,
    last: &'a Vec<Vec<Meas>>,
}

/// work items for histories = earlier[0] x gap x earlier[1] x gap ... x gap x last
fn work_items<'a>(earlier: &[&Vec<Vec<Meas>>], last: &'a Vec<Vec<Meas>>, out: &mut Vec<Work<'a>>) {
    fn rec<'a>(earlier: &[&Vec<Vec<Meas>>], last: &'a Vec<Vec<Meas>>, cur: &mut Vec<Step>, out: &mut Vec<Work<'a>>) {
        let first = cur.is_empty();
        let gaps: &[u32] = if first { &[0] } else { &GAPS };
        match earlier.split_first() {
            None => {
                for &g in gaps {
                    out.push(Work { prefix: cur.clone(), last_gap: g, last });
                }
            }
            Some((e, rest)) => {
                for &g in gaps {
                    for m in e.iter() {
                        cur.push(Step { gap_s: g, meas: m.clone() });
                        rec(rest, last, cur, out);
                        cur.pop();
                    }
                }
            }
        }
    }
    rec(earlier, last, &mut Vec::new(), out);
}

fn make_real() -> Real {
    let resolver = iroh_dns::dns::DnsResolver::with_nameserver("127.0.0.1:53".parse().unwrap());
    let tls = iroh_relay::tls::CaTlsConfig::embedded()
        .client_config(Arc::new(rustls::crypto::ring::default_provider()))
        .unwrap_or_else(|e| machinery_error(&format!("tls config: {e}")));
    Real { hist: ReportHistory::new(resolver, tls), urls: RELAYS.iter().map(|u| u.parse().unwrap()).collect() }
}
fn runtime() -> tokio::runtime::Runtime {
    tokio::runtime::Builder::new_current_thread().enable_all().start_paused(true).build().unwrap_or_else(|e| machinery_error(&format!("runtime: {e}")))
}

fn main() {
    let ctx = Ctx::from_args("C28", Level::ModelChecking);
    ctx.set_rule("histories of net reports over 3 relays; last report from the 'full' alphabet (relays a,b: absent | https x in {10,20,21,30,31} ms | https+v6 pairs (21,31),(31,21),(20,30),(30,20) | https+v4+v6 triples (21,31,30),(30,21,31),(31,30,21); relay c: absent | https 10,21,30 — 676 reports), earlier reports from 'simple' alphabets (each relay absent or one https latency), gaps between reports {1 s, 200 s, 301 s} of virtual time; every history is executed from a fresh report history on the real code under the paused tokio clock and the oracle is evaluated after every report; distinct = distinct (model class, outcome) pairs of the last report");
    ctx.assume("'chosen by best latency' + 'changes only when <= 2/3': the choice must be a relay with the best 5-minute latency among those measured now, except that it must stay with the previous preferred relay (if measured now) unless the best is <= 2/3 of that relay's lowest current latency; ties are free");
    ctx.assume("no two reports are exactly 300 s apart (inclusive/exclusive window edge is left open by the statement)");
    ctx.assume("latencies are whole milliseconds: the code's Duration/3*2 truncation (below 2 ns) cannot matter");
    ctx.min_outcomes(7);
    if let Some(c) = ctx.replay_case::<Case>() {
        let rt = runtime();
        rt.block_on(async {
            let mut real = make_real();
            let mut agg = Agg { outcomes: BTreeMap::new(), states: HashSet::new(), transitions: 0 };
            run_case(&ctx, &mut real, &c, &mut agg, true).await;
            for ((class, outcome), n) in agg.outcomes {
                println!("replay: {class} => {outcome} ({n})");
            }
        });
        ctx.finish();
    }
    let full = reports_full();
    let s_first = reports_simple(&[0, 1, 2], &L_FULL); // 216
    let s_mid3 = reports_simple(&[0, 1, 2], &[10, 21, 30]); // 64
    let s_ab = reports_simple(&[0, 1], &[10, 30]); // 9
    let mut work: Vec<Work> = Vec::new();
    // depth 1: full and simple alphabets
    work_items(&[], &full, &mut work);
    work_items(&[], &s_first, &mut work);
    // depth 2
    work_items(&[&s_first], &full, &mut work);
    // depth 3 / 4
    if ctx.thorough() {
        work_items(&[&s_mid3, &s_mid3], &full, &mut work);
        work_items(&[&s_ab, &s_ab, &s_ab], &full, &mut work);
        ctx.bound("max_reports", 4);
    } else {
        work_items(&[&s_ab, &s_ab], &full, &mut work);
        ctx.bound("max_reports", 3);
    }
    let n_hist: u64 = work.iter().map(|w| w.last.len() as u64).sum();
    ctx.bound("histories", n_hist);
    ctx.bound("full_report_alphabet", full.len());
    // the window edge is never hit exactly
    for w in &work {
        let mut t = 0u64;
        let mut times = vec![];
        for s in &w.prefix {
            t += s.gap_s as u64;
            times.push(t);
        }
        times.push(t + w.last_gap as u64);
        for i in 0..times.len() {
            for j in i + 1..times.len() {
                if times[j] - times[i] == WINDOW_S {
                    machinery_error("alphabet produces reports exactly 300 s apart");
                }
            }
        }
    }
    let case_of = |w: &Work, k: usize| -> Case {
        let mut steps = w.prefix.clone();
        steps.push(Step { gap_s: w.last_gap, meas: w.last[k].clone() });
        Case { steps }
    };
    for (i, w) in work.iter().enumerate().step_by((work.len() / 11).max(1)) {
        let k = (i * 131) % w.last.len();
        ctx.sample(&format!("work#{i}/last#{k}"), case_of(w, k));
    }
    let all_states: Mutex<HashSet<u64>> = Mutex::new(HashSet::new());
    par_for_each(&work, |w| {
        let rt = runtime();
        let mut agg = Agg { outcomes: BTreeMap::new(), states: HashSet::new(), transitions: 0 };
        rt.block_on(async {
            let mut real = make_real();
            for k in 0..w.last.len() {
                let c = case_of(w, k);
                run_case(&ctx, &mut real, &c, &mut agg, false).await;
            }
        });
        for ((class, outcome), n) in &agg.outcomes {
            ctx.eval_n(class, outcome, *n);
        }
        ctx.add_transitions(agg.transitions);
        ctx.add_traces(w.last.len() as u64);
        all_states.lock().unwrap().extend(agg.states);
    });
    ctx.add_states(all_states.lock().unwrap().len() as u64);
    ctx.finish();
}
