//! C23 Path pruning bounds stale paths without discarding live ones — E0 exhaustive input enumeration
//! of the real `prune_non_relay_paths` (through `iroh::verif::c23::prune`).
//!
//! A case is a count vector (open, unknown, unusable, inactive, relay) plus a close-time pattern for the
//! inactive paths and a status pattern for the relay paths. The reference model is written from the property
//! statement; ties between equal close times are free.
use iroh::verif::c23::{Addr, Status, prune};
use iroh_base::{CustomAddr, EndpointId, RelayUrl, SecretKey};
use serde::{Deserialize, Serialize};
use std::collections::{BTreeMap, BTreeSet};
use std::net::{Ipv4Addr, Ipv6Addr, SocketAddr};
use vh_engine::*;

/// Statement constants (written from the property statement, not imported from the code).
const THRESHOLD: usize = 30;
const KEEP_INACTIVE: usize = 10;
const KEEP_ALL_FAILED: usize = 30;

#[derive(Serialize, Deserialize, Clone, Debug, PartialEq, Eq)]
struct Case {
    open: u8,
    unknown: u8,
    unusable: u8,
    inactive: u8,
    relay: u8,
    /// close times of the inactive paths: 0 distinct (permuted), 1 all equal, 2 pairwise equal
    times: u8,
    /// statuses of the relay paths: 0 all open, 1 all unusable, 2 cycling open/inactive(old)/unusable/unknown
    relay_status: u8,
}

struct Pools {
    non_relay: Vec<Addr>,
    relay: Vec<Addr>,
}

fn pools() -> Pools {
    // non-relay addresses: IPv4, IPv6 and custom-transport addresses interleaved
    let non_relay = (0..64u16)
        .map(|i| match i % 3 {
            0 => Addr::Ip(SocketAddr::new(Ipv4Addr::new(10, 0, (i / 3) as u8, 1).into(), 1000 + i)),
            1 => Addr::Ip(SocketAddr::new(Ipv6Addr::new(0x2001, 0xdb8, 0, 0, 0, 0, 0, i).into(), 2000 + i)),
            _ => Addr::Custom(CustomAddr::from_parts(7, &[i as u8, 1, 2, 3])),
        })
        .collect();
    let relay = (0..64u16)
        .map(|i| {
            let url: RelayUrl = format!("https://relay{}.example.com./", i % 3).parse().unwrap();
            let id: EndpointId = SecretKey::from_bytes(&[i as u8 + 1; 32]).public();
            Addr::Relay(url, id)
        })
        .collect();
    Pools { non_relay, relay }
}

/// close time (µs after the base instant) of the j-th of k inactive paths
fn close_time(pattern: u8, j: usize, k: usize) -> u64 {
    // a fixed permutation of 0..k so that recency is unrelated to the address order
    let m = k.max(1);
    let mut step = 7;
    while gcd(step, m) != 1 {
        step += 1;
    }
    let p = ((j * step + 3) % m) as u64;
    1_000 + match pattern {
        0 => p * 1_000,
        1 => 5_000,
        _ => (p / 2) * 1_000,
    }
}
fn gcd(a: usize, b: usize) -> usize {
    if b == 0 { a } else { gcd(b, a % b) }
}

fn build(c: &Case, pools: &Pools) -> Vec<(Addr, Status)> {
    let mut v = Vec::with_capacity(64);
    let mut next = 0usize;
    // interleave the status groups over the address pool so each group mixes v4/v6/custom addresses
    let mut push = |st: Status, v: &mut Vec<(Addr, Status)>| {
        v.push((pools.non_relay[next].clone(), st));
        next += 1;
    };
    for _ in 0..c.open {
        push(Status::Open, &mut v);
    }
    for j in 0..c.inactive as usize {
        push(Status::Inactive(close_time(c.times, j, c.inactive as usize)), &mut v);
    }
    for _ in 0..c.unknown {
        push(Status::Unknown, &mut v);
    }
    for _ in 0..c.unusable {
        push(Status::Unusable, &mut v);
    }
    for j in 0..c.relay as usize {
        let st = match c.relay_status {
            0 => Status::Open,
            1 => Status::Unusable,
            _ => match j % 4 {
                0 => Status::Inactive(0), // older than every non-relay inactive path
                1 => Status::Unusable,
                2 => Status::Unknown,
                _ => Status::Open,
            },
        };
        v.push((pools.relay[j].clone(), st));
    }
    v
}

#[derive(Debug, Clone, PartialEq, Eq)]
enum Verdict {
    Ok,
    Bad(String),
}

/// Reference model, written from the statement. `keep_inactive(k)` = how many of the k inactive non-relay paths
/// survive a triggered pruning: the statement says min(k, 10); the named deviation uses another count.
fn check_against_model(input: &[(Addr, Status)], output: &[(Addr, Status)], keep_inactive: &dyn Fn(usize) -> usize) -> Verdict {
    let inp: BTreeMap<&Addr, &Status> = input.iter().map(|(a, s)| (a, s)).collect();
    let out: BTreeMap<&Addr, &Status> = output.iter().map(|(a, s)| (a, s)).collect();
    if out.len() != output.len() {
        return Verdict::Bad("duplicate address in output".into());
    }
    // pruning never invents paths and never changes the status of a surviving path
    for (a, s) in &out {
        match inp.get(*a) {
            None => return Verdict::Bad(format!("path {a:?} appears from nowhere")),
            Some(s0) if s0 != s => return Verdict::Bad(format!("status of surviving path {a:?} changed {s0:?} -> {s:?}")),
            _ => {}
        }
    }
    let is_relay = |a: &Addr| matches!(a, Addr::Relay(..));
    let n_non_relay = input.iter().filter(|(a, _)| !is_relay(a)).count();
    let removed: Vec<(&Addr, &Status)> = input.iter().filter(|(a, _)| !out.contains_key(a)).map(|(a, s)| (a, s)).collect();
    // never removes an open path, a path of unknown status, or a relay path — in any situation
    for (a, s) in &removed {
        if is_relay(a) {
            return Verdict::Bad(format!("relay path {a:?} removed"));
        }
        if matches!(s, Status::Open | Status::Unknown) {
            return Verdict::Bad(format!("{s:?} path {a:?} removed"));
        }
    }
    // never empties a non-empty path set
    if !input.is_empty() && output.is_empty() {
        return Verdict::Bad("non-empty path set emptied".into());
    }
    if n_non_relay < THRESHOLD {
        // Below the threshold the statement makes no demand beyond the safety clauses checked above (no open /
        // unknown / relay path removed, never emptied): a check must not demand more than the statement.
        return Verdict::Ok;
    }
    let all_failed = input.iter().all(|(_, s)| matches!(s, Status::Unusable));
    if all_failed {
        let n_relay = input.len() - n_non_relay;
        if n_relay == 0 {
            return if output.len() == KEEP_ALL_FAILED { Verdict::Ok } else { Verdict::Bad(format!("every path failed: {} kept, statement says exactly {KEEP_ALL_FAILED}", output.len())) };
        }
        // Every path failed *and* some of them are relay paths (status Unusable): the statement does not say whether
        // "exactly 30" counts the relay paths (which must all stay) — every reading is accepted:
        //   relay paths only (all hole-punch failures gone, set not empty) | 30 in total | 30 non-relay + the relay paths
        let kept_non_relay = output.len() - n_relay; // relay removal already excluded above
        return if kept_non_relay == 0 || output.len() == KEEP_ALL_FAILED || kept_non_relay == KEEP_ALL_FAILED {
            Verdict::Ok
        } else {
            Verdict::Bad(format!("every path failed (with {n_relay} relay paths): {kept_non_relay} non-relay kept"))
        };
    }
    // triggered, not everything failed: every failed non-relay path goes, and all but the most recently closed ones
    for (a, s) in input {
        if !is_relay(a) && matches!(s, Status::Unusable) && out.contains_key(a) {
            return Verdict::Bad(format!("failed path {a:?} survived a triggered pruning"));
        }
    }
    let inactive: Vec<(&Addr, u64)> = input.iter().filter_map(|(a, s)| match s { Status::Inactive(t) if !is_relay(a) => Some((a, *t)), _ => None }).collect();
    let want = keep_inactive(inactive.len());
    let kept: Vec<u64> = inactive.iter().filter(|(a, _)| out.contains_key(a)).map(|(_, t)| *t).collect();
    let pruned: Vec<u64> = inactive.iter().filter(|(a, _)| !out.contains_key(a)).map(|(_, t)| *t).collect();
    if kept.len() != want {
        return Verdict::Bad(format!("{} of {} closed paths kept, expected {want}", kept.len(), inactive.len()));
    }
    // "most recently closed": no pruned path was closed later than a kept one (ties are free)
    if let (Some(min_kept), Some(max_pruned)) = (kept.iter().min(), pruned.iter().max()) {
        if max_pruned > min_kept {
            return Verdict::Bad(format!("a path closed at {max_pruned} was pruned while one closed at {min_kept} was kept"));
        }
    }
    Verdict::Ok
}

fn statement_keep(k: usize) -> usize {
    k.min(KEEP_INACTIVE)
}
/// Named deviation `prune-keeps-k-minus-10-closed`: the code splits the recency-sorted list at `k-10` and prunes the
/// *tail of 10*, so it keeps the k-10 most recent closed paths (none when k <= 10) instead of the 10 most recent.
fn deviation_keep(k: usize) -> usize {
    k.saturating_sub(KEEP_INACTIVE)
}

fn classify(c: &Case) -> String {
    let n = c.open as usize + c.unknown as usize + c.unusable as usize + c.inactive as usize;
    if n < THRESHOLD {
        return "below-threshold".into();
    }
    if c.open == 0 && c.unknown == 0 && c.inactive == 0 && (c.relay == 0 || c.relay_status == 1) {
        return if c.relay == 0 { "all-failed".into() } else { "all-failed+failed-relays(ambiguous)".into() };
    }
    let k = c.inactive as usize;
    let kk = if k == 0 { "k=0" } else if k < KEEP_INACTIVE { "k<10" } else if k == KEEP_INACTIVE { "k=10" } else if k < 2 * KEEP_INACTIVE { "10<k<20" } else if k == 2 * KEEP_INACTIVE { "k=20" } else { "k>20" };
    format!("triggered {kk}{}{}", if c.unusable > 0 { " +failed" } else { "" }, if c.relay > 0 { " +relay" } else { "" })
}

/// returns (class, outcome) or reports a discrepancy
fn run_case(ctx: &Ctx, pools: &Pools, c: &Case, agg: &mut BTreeMap<(String, String), u64>) {
    let input = build(c, pools);
    let class = classify(c);
    let got = match quiet_catch(|| prune(&input)) {
        Ok(g) => g,
        Err(p) => {
            ctx.discrepancy(None, &format!("panic in prune_non_relay_paths: {p}"), c);
            return;
        }
    };
    match check_against_model(&input, &got, &statement_keep) {
        Verdict::Ok => {
            let outcome = if got.len() == input.len() { "nothing removed" } else if got.len() < input.len() { "pruned as stated" } else { unreachable!() };
            *agg.entry((class, outcome.into())).or_insert(0) += 1;
        }
        Verdict::Bad(why) => {
            // does the observed result equal "statement model + the one named deviation"?
            let key = if check_against_model_deviation(&input, &got) { Some("prune-keeps-k-minus-10-closed") } else { None };
            ctx.discrepancy(key, &format!("{why}; input open={} unknown={} unusable={} inactive={} relay={} -> {} kept", c.open, c.unknown, c.unusable, c.inactive, c.relay, got.len()), c);
            *agg.entry((class, if key.is_some() { "deviation: keeps k-10 closed paths".into() } else { "VIOLATION".into() })).or_insert(0) += 1;
        }
    }
}

/// Statement model with the keep-count of closed paths replaced by max(k-10, 0) — and nothing else changed, except
/// that the "never empties" clause is a consequence of the keep-count in the model (with k <= 10 closed paths and no
/// open/unknown/relay path the deviation empties the set), so it is evaluated on the deviating count as well.
fn check_against_model_deviation(input: &[(Addr, Status)], output: &[(Addr, Status)]) -> bool {
    if output.is_empty() && !input.is_empty() {
        // emptied: attributable only if the deviation model itself predicts the empty set
        let is_relay = |a: &Addr| matches!(a, Addr::Relay(..));
        let n_non_relay = input.iter().filter(|(a, _)| !is_relay(a)).count();
        let k = input.iter().filter(|(a, s)| !is_relay(a) && matches!(s, Status::Inactive(_))).count();
        let only_prunable = input.iter().all(|(a, s)| !is_relay(a) && matches!(s, Status::Inactive(_) | Status::Unusable));
        return n_non_relay >= THRESHOLD && only_prunable && k > 0 && deviation_keep(k) == 0;
    }
    check_against_model(input, output, &deviation_keep) == Verdict::Ok
}

/// Relay counts explored above the "full" bound (below it every relay count is explored).
const RELAY_COUNTS_ABOVE_FULL: [u8; 7] = [0, 1, 2, 3, 4, 10, 30];

/// All cases with the given (open, unknown): every (unusable, inactive, relay) completing a total <= max_total
/// (every relay count while total <= full_total, the listed relay counts above), x time pattern x relay pattern.
fn for_each_case(open: usize, unknown: usize, full_total: usize, max_total: usize, mut f: impl FnMut(&Case)) {
    let m = max_total as i32;
    let (open, unknown) = (open as i32, unknown as i32);
    for unusable in 0..=(m - open - unknown) {
        for inactive in 0..=(m - open - unknown - unusable) {
            for relay in 0..=(m - open - unknown - unusable - inactive) {
                let total = open + unknown + unusable + inactive + relay;
                if total as usize > full_total && !RELAY_COUNTS_ABOVE_FULL.contains(&(relay as u8)) {
                    continue;
                }
                let time_patterns: &[u8] = if inactive >= 2 { &[0, 1, 2] } else { &[0] };
                let relay_patterns: &[u8] = if relay >= 1 { &[0, 1, 2] } else { &[0] };
                for &times in time_patterns {
                    for &relay_status in relay_patterns {
                        f(&Case { open: open as u8, unknown: unknown as u8, unusable: unusable as u8, inactive: inactive as u8, relay: relay as u8, times, relay_status });
                    }
                }
            }
        }
    }
}

fn main() {
    let ctx = Ctx::from_args("C23", Level::Exploration);
    let max_total = ctx.pick(34usize, 60usize);
    ctx.set_rule("every count vector (open, unknown, unusable, inactive, relay) with total <= bound (every relay count while total <= 36; relay counts {0,1,2,3,4,10,30} above); x close-time pattern of the inactive paths {distinct permuted, all equal, pairwise equal} (when >= 2 inactive) x relay status pattern {all open, all unusable, cycling open/inactive-older-than-all/unusable/unknown} (when >= 1 relay); non-relay addresses cycle IPv4/IPv6/custom; each case = one call of the real prune_non_relay_paths on a freshly built map; distinct = distinct (model class, outcome) pairs");
    ctx.assume("below 30 non-relay paths only the safety clauses are demanded (nothing open/unknown/relay removed, never emptied): the statement conditions its removal clauses on '>= 30 non-relay paths'");
    ctx.assume("'every path has failed' with relay paths of status Unusable present is ambiguous in the statement: relay-only, 30-in-total and 30-non-relay results are all accepted");
    ctx.assume("equal close times: any choice among equally recent paths is accepted");
    ctx.bound("max_total_paths", max_total);
    ctx.min_outcomes(8);
    let pools = pools();
    if let Some(c) = ctx.replay_case::<Case>() {
        let mut agg = BTreeMap::new();
        run_case(&ctx, &pools, &c, &mut agg);
        for ((class, outcome), n) in agg {
            println!("replay: {class} => {outcome} ({n})");
        }
        ctx.finish();
    }
    let full_total = 36usize;
    ctx.bound("every_relay_count_up_to_total", full_total);
    if max_total > full_total {
        ctx.bound("relay_counts_above_that_total", RELAY_COUNTS_ABOVE_FULL.to_vec());
    }
    // work items: (open, unknown) pairs; the rest of the vector is generated inside the worker
    let mut work: Vec<(usize, usize)> = Vec::new();
    for open in 0..=max_total {
        for unknown in 0..=(max_total - open) {
            work.push((open, unknown));
        }
    }
    // samples: first case of each model class met on a thin slice of the space
    let mut seen_kinds = BTreeSet::new();
    for &(o, u) in work.iter().step_by(37) {
        for_each_case(o, u, full_total, max_total, |c| {
            let k = classify(c);
            if !seen_kinds.contains(&k) {
                seen_kinds.insert(k.clone());
                ctx.sample(&k, c);
            }
        });
    }
    let n_cases = std::sync::atomic::AtomicU64::new(0);
    par_for_each(&work, |&(o, u)| {
        let mut agg = BTreeMap::new();
        let mut n = 0u64;
        for_each_case(o, u, full_total, max_total, |c| {
            n += 1;
            run_case(&ctx, &pools, c, &mut agg);
        });
        for ((class, outcome), n) in agg {
            ctx.eval_n(&class, &outcome, n);
        }
        n_cases.fetch_add(n, std::sync::atomic::Ordering::Relaxed);
    });
    ctx.bound("cases", n_cases.load(std::sync::atomic::Ordering::Relaxed));
    ctx.finish();
}
