//! C24 Path selection prefers primary paths and resists flapping — E0 exhaustive input enumeration of the real
//! `BiasedRttPathSelector::default().select(..)` (through `iroh::verif::c24::select_default`, which uses the
//! widened `for_test` constructors of the selection context).
//!
//! A case = an ordered list of (address, RTT | unreadable stats) entries (one per (connection, path); the same
//! address may occur several times) + the current selection (none, or any address of the alphabet, present in the
//! list or not). The oracle is the property statement; ties and the choice among several admissible targets are free.
use iroh::verif::c24::{Addr, FourTuple, select_default};
use iroh_base::{CustomAddr, EndpointId, RelayUrl, SecretKey};
use serde::{Deserialize, Serialize};
use std::collections::BTreeMap;
use std::net::{Ipv4Addr, Ipv6Addr, SocketAddr};
use std::time::Duration;
use vh_engine::*;

/// Statement constants, in microseconds.
const SWITCH_MIN_US: i64 = 5_000;
const IPV6_CREDIT_US: i64 = 3_000;

const N_ADDR: usize = 6; // v4 a, v4 b, v6, relay a, relay b, custom
const ADDR_NAMES: [&str; N_ADDR] = ["v4a", "v4b", "v6", "relayA", "relayB", "custom"];
const NO_STATS: u8 = 255;

#[derive(Serialize, Deserialize, Clone, Debug, PartialEq, Eq)]
struct Case {
    /// (address index, RTT in ms or 255 = statistics unreadable)
    paths: Vec<(u8, u8)>,
    /// current selection: address index, or None
    current: Option<u8>,
}

fn addrs() -> Vec<FourTuple> {
    let relay = |n: u8| {
        let url: RelayUrl = format!("https://relay{n}.example.com./").parse().unwrap();
        let id: EndpointId = SecretKey::from_bytes(&[n; 32]).public();
        Addr::Relay(url, id)
    };
    vec![
        FourTuple::from_remote(Addr::Ip(SocketAddr::new(Ipv4Addr::new(192, 0, 2, 1).into(), 1))),
        FourTuple::from_remote(Addr::Ip(SocketAddr::new(Ipv4Addr::new(192, 0, 2, 2).into(), 2))),
        FourTuple::from_remote(Addr::Ip(SocketAddr::new(Ipv6Addr::new(0x2001, 0xdb8, 0, 0, 0, 0, 0, 1).into(), 3))),
        FourTuple::from_remote(relay(1)),
        FourTuple::from_remote(relay(2)),
        FourTuple::from_remote(Addr::Custom(CustomAddr::from_parts(9, &[1, 2, 3, 4]))),
    ]
}

#[derive(Clone, Copy, PartialEq, Eq, PartialOrd, Ord, Debug)]
enum Tier {
    Primary,
    Backup,
}
fn tier(a: u8) -> Tier {
    // statement: a direct path is primary, a relay path is backup
    if a == 3 || a == 4 { Tier::Backup } else { Tier::Primary }
}
/// biased RTT in µs: IPv6 is credited 3 ms
fn biased(a: u8, rtt_ms: u8) -> i64 {
    rtt_ms as i64 * 1000 - if a == 2 { IPV6_CREDIT_US } else { 0 }
}

/// The set of admissible results according to the statement: `allowed_none`, and for each address whether
/// selecting it is admissible.
struct Allowed {
    none: bool,
    some: [bool; N_ADDR],
    class: &'static str,
}

fn model(c: &Case) -> Allowed {
    // live paths with readable statistics; an address seen on several connections counts with its best instance
    let mut best_of: BTreeMap<u8, i64> = BTreeMap::new();
    for &(a, r) in &c.paths {
        if r != NO_STATS {
            let b = biased(a, r);
            best_of.entry(a).and_modify(|x| *x = (*x).min(b)).or_insert(b);
        }
    }
    let mut al = Allowed { none: false, some: [false; N_ADDR], class: "" };
    if best_of.is_empty() {
        // nothing selectable: change nothing
        al.none = true;
        al.class = if c.paths.is_empty() { "no paths" } else { "no readable stats" };
        return al;
    }
    let best_tier = best_of.keys().map(|&a| tier(a)).min().unwrap();
    let cur = c.current.and_then(|a| best_of.get(&a).map(|&b| (a, b)));
    match cur {
        None => {
            // no current selection, or it is not among the live readable paths: pick one of the best tier
            for (&a, _) in &best_of {
                if tier(a) == best_tier {
                    al.some[a as usize] = true;
                }
            }
            al.class = if c.current.is_none() { "no current" } else { "current not live/readable" };
        }
        Some((ca, _)) if tier(ca) != best_tier => {
            // current is a relay path and a direct path exists: the direct path is always preferred
            for (&a, _) in &best_of {
                if tier(a) == best_tier {
                    al.some[a as usize] = true;
                }
            }
            al.class = "current backup, primary available";
        }
        Some((ca, cb)) => {
            // same tier: move only to a path at least 5 ms better (biased); stay when there is none
            let mut any = false;
            for (&a, &b) in &best_of {
                if a != ca && tier(a) == best_tier && b + SWITCH_MIN_US <= cb {
                    al.some[a as usize] = true;
                    any = true;
                }
            }
            al.none = !any;
            al.class = if any { "same tier, a path >=5ms better" } else { "same tier, nothing >=5ms better" };
        }
    }
    al
}

fn run_case(ctx: &Ctx, pool: &[FourTuple], c: &Case, agg: &mut BTreeMap<(&'static str, &'static str), u64>) {
    let paths: Vec<(FourTuple, Option<Duration>)> =
        c.paths.iter().map(|&(a, r)| (pool[a as usize].clone(), if r == NO_STATS { None } else { Some(Duration::from_millis(r as u64)) })).collect();
    let cur = c.current.map(|a| &pool[a as usize]);
    let got = match quiet_catch(|| select_default(cur, &paths)) {
        Ok(g) => g,
        Err(p) => {
            ctx.discrepancy(None, &format!("panic in select: {p}"), c);
            return;
        }
    };
    let al = model(c);
    let describe = |c: &Case| {
        let ps: Vec<String> = c.paths.iter().map(|&(a, r)| if r == NO_STATS { format!("{}:-", ADDR_NAMES[a as usize]) } else { format!("{}:{}ms", ADDR_NAMES[a as usize], r) }).collect();
        format!("paths [{}] current {}", ps.join(", "), c.current.map(|a| ADDR_NAMES[a as usize]).unwrap_or("none"))
    };
    match &got {
        None => {
            if !al.none {
                ctx.discrepancy(None, &format!("empty selection (keep current) but the statement requires a move [{}]: {}", al.class, describe(c)), c);
                return;
            }
            *agg.entry((al.class, "keeps current")).or_insert(0) += 1;
        }
        Some(sel) => {
            let Some(idx) = pool.iter().position(|p| p == sel) else {
                ctx.discrepancy(None, &format!("selected {sel:?} which is not one of the offered paths: {}", describe(c)), c);
                return;
            };
            // only ever a live path with readable statistics
            if !c.paths.iter().any(|&(a, r)| a as usize == idx && r != NO_STATS) {
                ctx.discrepancy(None, &format!("selected {} which is not a live path with readable statistics: {}", ADDR_NAMES[idx], describe(c)), c);
                return;
            }
            if !al.some[idx] {
                ctx.discrepancy(None, &format!("selected {} which the statement does not admit [{}]: {}", ADDR_NAMES[idx], al.class, describe(c)), c);
                return;
            }
            let outcome = if tier(idx as u8) == Tier::Primary { "selects a primary path" } else { "selects a backup path" };
            *agg.entry((al.class, outcome)).or_insert(0) += 1;
        }
    }
}

fn gen_cases(max_len: usize, rtts: &[u8], cases: &mut Vec<Case>, only_len: Option<usize>) {
    let mut entries = Vec::new();
    for a in 0..N_ADDR as u8 {
        for &r in rtts {
            entries.push((a, r));
        }
    }
    let lists = sequences_up_to(&entries, max_len);
    for l in lists {
        if let Some(n) = only_len {
            if l.len() != n {
                continue;
            }
        }
        cases.push(Case { paths: l.clone(), current: None });
        for cur in 0..N_ADDR as u8 {
            cases.push(Case { paths: l.clone(), current: Some(cur) });
        }
    }
}

fn main() {
    let ctx = Ctx::from_args("C24", Level::Exploration);
    ctx.set_rule("every ordered list of <= 3 entries over {v4 a, v4 b, v6, relay A, relay B, custom} x RTT {0,1,4,5,6,8,9,10,20 ms, unreadable} (thorough: additionally every list of exactly 4 entries over RTT {1,5,6,9,unreadable}) x current selection {none, each of the 6 addresses — in the list or not}; each case = one call of the real default selector; distinct = distinct (model class, outcome) pairs");
    ctx.assume("an address offered several times (several connections) counts with its lowest RTT instance");
    ctx.assume("'moves away only to a path >= 5 ms better' is read as: moves iff such a path exists, to any such path (ties and the choice among admissible targets are free)");
    ctx.assume("the actor-level clause (RemoteStateActor::select_path keeps the current path on an empty selection) needs live connections and is not exercised; the selector-level clause (empty selection when nothing is readable) is");
    ctx.min_outcomes(9);
    let pool = addrs();
    if let Some(c) = ctx.replay_case::<Case>() {
        let mut agg = BTreeMap::new();
        run_case(&ctx, &pool, &c, &mut agg);
        for ((class, outcome), n) in agg {
            println!("replay: {class} => {outcome} ({n})");
        }
        ctx.finish();
    }
    let full: [u8; 10] = [0, 1, 4, 5, 6, 8, 9, 10, 20, NO_STATS];
    let mut cases = Vec::new();
    gen_cases(3, &full, &mut cases, None);
    ctx.bound("max_paths_full_grid", 3);
    if ctx.thorough() {
        gen_cases(4, &[1, 5, 6, 9, NO_STATS], &mut cases, Some(4));
        ctx.bound("max_paths_reduced_grid", 4);
    }
    ctx.bound("cases", cases.len());
    for (i, c) in cases.iter().enumerate().step_by((cases.len() / 11).max(1)) {
        ctx.sample(&format!("case#{i}"), c);
    }
    let chunks: Vec<&[Case]> = cases.chunks(8192).collect();
    par_for_each(&chunks, |chunk| {
        let mut agg = BTreeMap::new();
        for c in chunk.iter() {
            run_case(&ctx, &pool, c, &mut agg);
        }
        for ((class, outcome), n) in agg {
            ctx.eval_n(class, outcome, n);
        }
    });
    ctx.finish();
}
