//! C17 Relay receive path delivers datagrams in order and never wedges — E1: every operation history
//! (push batch / poll) up to a length bound, for every receive-buffer size, against the real
//! `RelayTransport::poll_recv` (constructed by `iroh::verif::c17::RelayRecvHarness`, fed by a harness channel).
//!
//! Reference model (from the statement): a FIFO of *individual datagrams* — a batch with segment size s is
//! the sequence of its s-byte chunks (last one possibly shorter), a batch without segment size is one
//! datagram. A datagram *fits* iff its length <= the receive buffer length. What QUIC is handed over all
//! polls must be exactly the fitting datagrams, in arrival order, once each (a GRO message `len/stride` is
//! read as its stride-sized chunks, as QUIC does); non-fitting ones vanish. Liveness: the caller follows
//! the poll contract (polls again after Ready, and after Pending only once woken); under that contract
//! every queued fitting datagram must be delivered within a bounded number of polls, and once the caller
//! sleeps a later arrival must wake it.
use iroh::verif::c17::{PollOutcome, RelayRecvHarness};
use iroh_base::{EndpointId, RelayUrl, SecretKey};
use serde::{Deserialize, Serialize};
use std::collections::VecDeque;
use std::str::FromStr;
use std::sync::atomic::{AtomicBool, AtomicU64, Ordering};
use std::sync::Arc;
use std::task::{Wake, Waker};
use vh_engine::*;

#[derive(Serialize, Deserialize, Clone, Copy, Debug, PartialEq, Eq)]
enum Op {
    /// a batch arrives: `len` content bytes, segment size `ss` (0 = none)
    Push { len: u8, ss: u8 },
    /// QUIC polls with `nbufs` buffers
    Poll { nbufs: u8 },
}

#[derive(Serialize, Deserialize, Clone, Debug)]
struct Case {
    buflen: usize,
    ops: Vec<Op>,
    /// number of buffers used by the fair continuation at the end
    drain_nbufs: u8,
}

struct CountWaker(AtomicU64);
impl Wake for CountWaker {
    fn wake(self: Arc<Self>) {
        self.0.fetch_add(1, Ordering::SeqCst);
    }
    fn wake_by_ref(self: &Arc<Self>) {
        self.0.fetch_add(1, Ordering::SeqCst);
    }
}

#[derive(Clone, Debug)]
struct Dgram {
    bytes: Vec<u8>,
    src: usize,
}

#[derive(Clone, Copy, PartialEq, Eq, Debug)]
enum Last {
    Never,
    Ready,
    Pending,
    Err,
}

struct Run {
    h: RelayRecvHarness,
    buflen: usize,
    counter: Arc<CountWaker>,
    waker: Waker,
    /// model: datagrams that arrived and were neither delivered nor (being too big) discarded yet
    queue: VecDeque<Dgram>,
    next_byte: u8,
    pushes: usize,
    last: Last,
    wakes_at_last_poll_start: u64,
    // statistics for the outcome class
    delivered: usize,
    discarded: usize,
    empty_msgs: usize,
    gro_msgs: usize,
    pending_polls: usize,
    problems: Vec<String>,
}

fn srcs() -> &'static [EndpointId; 3] {
    static S: std::sync::OnceLock<[EndpointId; 3]> = std::sync::OnceLock::new();
    S.get_or_init(|| [SecretKey::from_bytes(&[1u8; 32]).public(), SecretKey::from_bytes(&[2u8; 32]).public(), SecretKey::from_bytes(&[9u8; 32]).public()])
}
fn urls() -> &'static [RelayUrl; 2] {
    static U: std::sync::OnceLock<[RelayUrl; 2]> = std::sync::OnceLock::new();
    U.get_or_init(|| [RelayUrl::from_str("https://r1.example./").unwrap(), RelayUrl::from_str("https://r2.example./").unwrap()])
}

impl Run {
    fn new(buflen: usize) -> Run {
        let counter = Arc::new(CountWaker(AtomicU64::new(0)));
        let waker = Waker::from(counter.clone());
        Run {
            h: RelayRecvHarness::new(srcs()[2], 64),
            buflen,
            counter,
            waker,
            queue: VecDeque::new(),
            next_byte: 1,
            pushes: 0,
            last: Last::Never,
            wakes_at_last_poll_start: 0,
            delivered: 0,
            discarded: 0,
            empty_msgs: 0,
            gro_msgs: 0,
            pending_polls: 0,
            problems: vec![],
        }
    }
    fn wakes(&self) -> u64 {
        self.counter.0.load(Ordering::SeqCst)
    }

    fn push(&mut self, len: usize, ss: usize) {
        let src = self.pushes % 2;
        let mut contents = Vec::with_capacity(len);
        for _ in 0..len {
            contents.push(self.next_byte);
            self.next_byte = if self.next_byte >= 250 { 1 } else { self.next_byte + 1 };
        }
        // model: split into individual datagrams
        if ss == 0 {
            self.queue.push_back(Dgram { bytes: contents.clone(), src });
        } else {
            for c in contents.chunks(ss) {
                self.queue.push_back(Dgram { bytes: c.to_vec(), src });
            }
        }
        let ecn = if self.pushes % 3 == 1 { Some(0b10) } else { None };
        let ok = self.h.push(urls()[src].clone(), srcs()[src], ecn, if ss == 0 { None } else { Some(ss as u16) }, &contents);
        if !ok {
            self.problems.push("harness: receive queue rejected a push".into());
        }
        self.pushes += 1;
    }

    /// one real poll, checked against the model
    fn poll(&mut self, nbufs: usize) {
        self.wakes_at_last_poll_start = self.wakes();
        let out = self.h.poll_recv(&self.waker.clone(), nbufs, self.buflen);
        match out {
            PollOutcome::Pending => {
                self.last = Last::Pending;
                self.pending_polls += 1;
            }
            PollOutcome::Err(k) => {
                self.last = Last::Err;
                self.problems.push(format!("poll returned error {k:?} although the queue is open"));
            }
            PollOutcome::Ready(msgs) => {
                self.last = Last::Ready;
                if msgs.is_empty() || msgs.len() > nbufs {
                    self.problems.push(format!("poll returned Ready({}) for {nbufs} buffers", msgs.len()));
                }
                for m in msgs {
                    if m.data.is_empty() {
                        self.empty_msgs += 1;
                        continue;
                    }
                    if m.stride == 0 {
                        self.problems.push(format!("message of {} bytes with stride 0", m.data.len()));
                        continue;
                    }
                    if m.data.len() > m.stride {
                        self.gro_msgs += 1;
                    }
                    for chunk in m.data.chunks(m.stride) {
                        // next datagram the model expects: skip (discard) those that do not fit
                        while let Some(front) = self.queue.front() {
                            if front.bytes.len() > self.buflen {
                                self.queue.pop_front();
                                self.discarded += 1;
                            } else {
                                break;
                            }
                        }
                        match self.queue.pop_front() {
                            None => self.problems.push(format!("QUIC was handed {chunk:?} but every arrived datagram was already delivered or discarded")),
                            Some(want) => {
                                if want.bytes != chunk {
                                    self.problems.push(format!("QUIC was handed {chunk:?}, the next fitting datagram in arrival order is {:?}", want.bytes));
                                } else if m.src != Some(srcs()[want.src]) || m.url.as_ref() != Some(&urls()[want.src]) {
                                    self.problems.push(format!("datagram {chunk:?} attributed to the wrong sender/relay"));
                                } else {
                                    self.delivered += 1;
                                }
                            }
                        }
                    }
                }
            }
        }
    }

    fn caller_will_poll(&self) -> bool {
        match self.last {
            Last::Never | Last::Ready => true,
            Last::Pending => self.wakes() > self.wakes_at_last_poll_start,
            Last::Err => false,
        }
    }

    fn fitting_queued(&self) -> usize {
        self.queue.iter().filter(|d| d.bytes.len() <= self.buflen).count()
    }

    /// The caller keeps following the poll contract until it sleeps. Returns false on livelock.
    fn fair_continuation(&mut self, nbufs: usize) -> bool {
        // every productive poll delivers or discards at least one datagram, plus one final Pending; allow slack x2
        let cap = 2 * (self.queue.len() + 2) + 4;
        let mut polls = 0;
        while self.caller_will_poll() {
            if polls >= cap {
                self.problems.push(format!(
                    "livelock: {polls} consecutive polls (contract-following caller) and still Ready/woken; {} fitting datagram(s) remain undelivered",
                    self.fitting_queued()
                ));
                return false;
            }
            self.poll(nbufs);
            polls += 1;
        }
        true
    }

    /// End-of-history liveness check (consumes the object).
    fn liveness(&mut self, nbufs: usize) {
        if !self.fair_continuation(nbufs) {
            return;
        }
        if self.fitting_queued() > 0 {
            self.problems.push(format!(
                "starvation: the receiver sleeps (Pending, no wake-up since) while {} fitting datagram(s) were never handed to QUIC",
                self.fitting_queued()
            ));
            return;
        }
        // the caller sleeps now; a later arrival must wake it and be delivered
        let before = self.wakes();
        self.push(1, 0);
        if self.last == Last::Pending && self.wakes() == before {
            self.problems.push("Pending was returned without a registered wake-up: a datagram arriving afterwards does not wake the receiver".into());
            return;
        }
        if !self.fair_continuation(nbufs) {
            return;
        }
        if self.buflen >= 1 && self.fitting_queued() > 0 {
            self.problems.push("the datagram that arrived after the receiver slept was not delivered".into());
        }
    }
}

thread_local! {
    static RT: tokio::runtime::Runtime = tokio::runtime::Builder::new_current_thread().build().unwrap();
}

fn run_case(case: &Case) -> Result<(String, String, Vec<String>), String> {
    quiet_catch(|| {
        RT.with(|rt| {
            let _g = rt.enter();
            let mut run = Run::new(case.buflen);
            let (mut fit, mut nofit, mut seg_gt, mut seg_le) = (false, false, false, false);
            for op in &case.ops {
                match *op {
                    Op::Push { len, ss } => {
                        let (len, ss) = (len as usize, ss as usize);
                        if ss != 0 {
                            if ss > case.buflen { seg_gt = true } else { seg_le = true }
                        }
                        let before = run.queue.len();
                        run.push(len, ss);
                        for d in run.queue.iter().skip(before) {
                            if d.bytes.len() <= case.buflen { fit = true } else { nofit = true }
                        }
                    }
                    Op::Poll { nbufs } => run.poll(nbufs as usize),
                }
            }
            let polled_pending_in_history = run.pending_polls > 0;
            let delivered_in_history = run.delivered;
            let left_for_continuation = run.fitting_queued();
            run.liveness(case.drain_nbufs as usize);
            let class = format!(
                "fit={fit}|nofit={nofit}|seg<=buf={seg_le}|seg>buf={seg_gt}|slept-before-arrival={polled_pending_in_history}"
            );
            let outcome = format!(
                "delivered-by-history-polls={} left-for-continuation={} multi-datagram-msgs={} empty-msgs={}",
                if delivered_in_history > 0 { "some" } else { "none" },
                if left_for_continuation > 0 { "some" } else { "none" },
                if run.gro_msgs > 0 { "some" } else { "none" },
                if run.empty_msgs > 0 { "some" } else { "none" }
            );
            let problems = std::mem::take(&mut run.problems);
            drop(run);
            // let the runtime reap the aborted stand-in task
            rt.block_on(async { tokio::task::yield_now().await });
            (class, outcome, problems)
        })
    })
}

fn decode(mut idx: u64, len: usize, alphabet: &[Op]) -> Vec<Op> {
    let a = alphabet.len() as u64;
    let mut ops = Vec::with_capacity(len);
    for _ in 0..len {
        ops.push(alphabet[(idx % a) as usize]);
        idx /= a;
    }
    ops
}

fn alphabet(lens: &[u8], sss: &[u8], nbufs: &[u8]) -> Vec<Op> {
    let mut v = vec![];
    for &len in lens {
        for &ss in sss {
            v.push(Op::Push { len, ss });
        }
    }
    for &n in nbufs {
        v.push(Op::Poll { nbufs: n });
    }
    v
}

/// Runs `f` on a worker while a watchdog looks at its heartbeat; a case that does not return within
/// `limit_s` seconds is reported as non-termination (the process then exits: the stuck thread cannot be stopped).
struct Watch {
    slots: Vec<(AtomicU64, AtomicU64)>, // (case token + 1, seconds at start)
    done: AtomicBool,
}

fn main() {
    let ctx = Ctx::from_args("C17", Level::ModelChecking);
    ctx.set_rule(
        "every sequence of push(batch)/poll(nbufs) operations of length <= bound over the stated alphabet, for every buffer length, \
         executed on a fresh real RelayTransport; then the contract-following continuation (poll while Ready or woken) and a late arrival; \
         one evaluation = one history x buffer length x continuation width; distinct = (model class of the inputs, delivered/discarded/empty-message outcome)",
    );
    ctx.assume("one buffer length per endpoint (all noq receive buffers have the same size); ECN is not part of the statement and not compared");
    ctx.assume("the receive queue (capacity 512 in production, 64 here) never fills within a history");
    if let Some(case) = ctx.replay_case::<Case>() {
        let start = std::time::Instant::now();
        let (tx, rx) = std::sync::mpsc::channel();
        let c2 = case.clone();
        std::thread::spawn(move || {
            let _ = tx.send(run_case(&c2));
        });
        match rx.recv_timeout(std::time::Duration::from_secs(60)) {
            Ok(Ok((class, outcome, problems))) => {
                ctx.eval(&class, &outcome);
                for p in problems {
                    ctx.discrepancy(None, &p, &case);
                }
            }
            Ok(Err(p)) => ctx.discrepancy(None, &format!("panic: {p}"), &case),
            Err(_) => ctx.discrepancy(None, &format!("non-termination: case still running after {:?}", start.elapsed()), &case),
        }
        ctx.finish();
    }
    let buflens: Vec<usize> = vec![1, 2, 3, 4, 8];
    // (alphabet, max length): the full design alphabet at a smaller depth and a reduced one deeper
    let full = alphabet(&[1, 2, 3, 5, 8], &[0, 1, 2, 3, 4, 9], &[1, 2, 3]);
    let reduced = alphabet(&[1, 3, 5], &[0, 2, 3, 9], &[1, 2, 3]);
    let plans: Vec<(&str, Vec<Op>, usize)> = if ctx.thorough() {
        vec![("full", full, 4), ("reduced", reduced, 5)]
    } else {
        vec![("full", full, 3), ("reduced", reduced, 4)]
    };
    ctx.bound("buffer_lengths", &buflens);
    ctx.bound("continuation_widths", [1, 3]);
    for (name, alpha, depth) in &plans {
        ctx.bound(&format!("alphabet_{name}"), format!("{} ops (push len x ss, poll nbufs), histories of length 0..={depth}", alpha.len()));
    }
    let watch = Watch { slots: (0..workers()).map(|_| (AtomicU64::new(0), AtomicU64::new(0))).collect(), done: AtomicBool::new(false) };
    let t0 = std::time::Instant::now();
    let slot_ids = AtomicU64::new(0);
    thread_local! { static SLOT: std::cell::Cell<usize> = const { std::cell::Cell::new(usize::MAX) }; }
    // the case a stuck worker is executing is kept here for the report
    let current: Vec<std::sync::Mutex<Option<Case>>> = (0..workers()).map(|_| std::sync::Mutex::new(None)).collect();
    std::thread::scope(|s| {
        s.spawn(|| {
            while !watch.done.load(Ordering::SeqCst) {
                std::thread::sleep(std::time::Duration::from_millis(500));
                let now = t0.elapsed().as_secs();
                for (i, (tok, started)) in watch.slots.iter().enumerate() {
                    if tok.load(Ordering::SeqCst) != 0 && now.saturating_sub(started.load(Ordering::SeqCst)) > 60 {
                        // suspicion only (the machine may be overloaded): confirm by re-running the case alone
                        let Some(case) = current[i].lock().unwrap().clone() else { continue };
                        let (tx, rx) = std::sync::mpsc::channel();
                        let c2 = case.clone();
                        std::thread::spawn(move || {
                            let _ = tx.send(run_case(&c2).is_ok());
                        });
                        if rx.recv_timeout(std::time::Duration::from_secs(120)).is_err() {
                            ctx.discrepancy(None, "non-termination: a single history did not finish within 60 s, nor within 120 s when re-run alone", &case);
                            ctx.finish();
                        }
                        started.store(t0.elapsed().as_secs(), Ordering::SeqCst);
                    }
                }
            }
        });
        let mut histories: u64 = 0;
        for (_name, alpha, depth) in &plans {
            for len in 0..=*depth {
                let n = (alpha.len() as u64).pow(len as u32);
                for &buflen in &buflens {
                    for drain_nbufs in [1u8, 3u8] {
                        par_for_range(n, 256, |idx| {
                            let slot = SLOT.with(|c| {
                                if c.get() == usize::MAX {
                                    c.set(slot_ids.fetch_add(1, Ordering::SeqCst) as usize % watch.slots.len());
                                }
                                c.get()
                            });
                            let case = Case { buflen, ops: decode(idx, len, alpha), drain_nbufs };
                            *current[slot].lock().unwrap() = Some(case.clone());
                            watch.slots[slot].1.store(t0.elapsed().as_secs(), Ordering::SeqCst);
                            watch.slots[slot].0.store(idx + 1, Ordering::SeqCst);
                            match run_case(&case) {
                                Ok((class, outcome, problems)) => {
                                    ctx.eval(&class, &outcome);
                                    if problems.is_empty() {
                                        ctx.sample(&format!("{class} => {outcome}"), &case);
                                    }
                                    if let Some(p) = problems.first() {
                                        ctx.discrepancy(None, p, &case);
                                    }
                                }
                                Err(p) => ctx.discrepancy(None, &format!("panic: {p}"), &case),
                            }
                            watch.slots[slot].0.store(0, Ordering::SeqCst);
                        });
                        histories += n;
                    }
                }
                if ctx.violations() > 0 {
                    break;
                }
            }
        }
        ctx.add_states(histories);
        ctx.add_transitions(histories);
        ctx.add_traces(histories);
        watch.done.store(true, Ordering::SeqCst);
    });
    ctx.min_outcomes(30);
    ctx.finish();
}
