//! C42 Connection hooks and connect preconditions gate every connection — E5: two real `Endpoint`s on
//! loopback per case; the complete product of dialer hook lists x acceptor hook lists x {normal, empty
//! protocol name} x {dial the other endpoint, dial one's own id} is executed. Every hook records each
//! consultation; the acceptor records every `Incoming` in arrival order. A second, always-accepted
//! *sentinel* dial from the same dialer socket follows the attempt under test: packets on loopback from one
//! socket arrive in order, so "nothing of the rejected attempt arrived before the sentinel" is a fact, not a
//! timing guess.
use std::sync::{Arc, Mutex};
use std::time::Duration;

use iroh::endpoint::{
    AfterHandshakeOutcome, BeforeConnectOutcome, ConnectOptions, ConnectWithOptsError, ConnectingError, Connection, ConnectionError,
    EndpointHooks,
};
use iroh::{Endpoint, EndpointAddr, EndpointId};
use serde::{Deserialize, Serialize};
use vh_engine::*;
use vh_p_iroh::e5_router::*;

const MAIN: &[u8] = b"c42/main";
const SENTINEL: &[u8] = b"c42/sentinel";

#[derive(Serialize, Deserialize, Clone, Debug)]
struct Case {
    /// dialer hooks in installation order: (before_connect accepts, after_handshake accepts)
    dialer: Vec<(bool, bool)>,
    /// acceptor hooks in installation order: after_handshake accepts
    acceptor: Vec<bool>,
    empty_alpn: bool,
    self_dial: bool,
    /// the connect options additionally offer the (valid) main protocol name — an empty PRIMARY name must still fail
    /// (seeded change C42-seed73 validated only the filtered offer list)
    #[serde(default)]
    additional_alpn: bool,
}

#[derive(Debug, Clone, PartialEq, Eq)]
struct HookCall {
    side: char,
    idx: usize,
    point: &'static str,
    alpn: Vec<u8>,
    remote: EndpointId,
    accepted: bool,
}

#[derive(Debug)]
struct Hook {
    side: char,
    idx: usize,
    before_ok: bool,
    after_ok: bool,
    log: Arc<Mutex<Vec<HookCall>>>,
}
fn code(side: char, idx: usize) -> u32 {
    (if side == 'D' { 40 } else { 60 }) + idx as u32
}
impl EndpointHooks for Hook {
    async fn before_connect<'a>(&'a self, remote: &'a EndpointAddr, alpn: &'a [u8]) -> BeforeConnectOutcome {
        let ok = alpn == SENTINEL || self.before_ok;
        self.log.lock().unwrap().push(HookCall { side: self.side, idx: self.idx, point: "before", alpn: alpn.to_vec(), remote: remote.id, accepted: ok });
        if ok { BeforeConnectOutcome::Accept } else { BeforeConnectOutcome::Reject }
    }
    async fn after_handshake<'a>(&'a self, conn: &'a Connection) -> AfterHandshakeOutcome {
        let ok = conn.alpn() == SENTINEL || self.after_ok;
        self.log.lock().unwrap().push(HookCall { side: self.side, idx: self.idx, point: "after", alpn: conn.alpn().to_vec(), remote: conn.remote_id(), accepted: ok });
        if ok {
            AfterHandshakeOutcome::Accept
        } else {
            AfterHandshakeOutcome::Reject { error_code: code(self.side, self.idx).into(), reason: b"hook".to_vec() }
        }
    }
}

#[derive(Debug, Clone, Default)]
struct SrvEntry {
    alpn: Option<Vec<u8>>,
    established: bool,
    remote: Option<EndpointId>,
    err: Option<String>,
    /// application close code observed on an established connection
    closed_code: Option<u64>,
    closed_other: Option<String>,
}

fn app_code(e: &ConnectionError) -> Option<u64> {
    match e {
        ConnectionError::ApplicationClosed(ac) => Some(ac.error_code.into_inner()),
        _ => None,
    }
}

#[derive(Debug)]
enum Dial {
    /// failed before any packet could be sent
    Pre(String),
    /// failed during/after the handshake; Some(code) when it was closed by the peer's application
    Hs(String, Option<u64>),
    Ok(Connection),
}

async fn dial(ep: &Endpoint, addr: EndpointAddr, alpn: &[u8], additional: bool) -> Dial {
    let opts = if additional { ConnectOptions::new().with_additional_alpns(vec![MAIN.to_vec()]) } else { ConnectOptions::new() };
    let connecting = match ep.connect_with_opts(addr, alpn, opts).await {
        Ok(c) => c,
        Err(e) => {
            let k = match &e {
                ConnectWithOptsError::LocallyRejected { .. } => "locally-rejected",
                ConnectWithOptsError::SelfConnect { .. } => "self-connect",
                ConnectWithOptsError::InvalidAlpn { .. } => "invalid-alpn",
                _ => "other",
            };
            return Dial::Pre(if k == "other" { format!("other: {e:#}") } else { k.to_string() });
        }
    };
    match connecting.await {
        Ok(c) => Dial::Ok(c),
        Err(e) => match &e {
            ConnectingError::LocallyRejected { .. } => Dial::Hs("locally-rejected".into(), None),
            ConnectingError::ConnectionError { source, .. } => Dial::Hs(format!("connection: {source}"), app_code(source)),
            _ => Dial::Hs(format!("other: {e:#}"), None),
        },
    }
}

async fn wait_async(timeout: Duration, mut cond: impl FnMut() -> bool) -> bool {
    let t0 = std::time::Instant::now();
    loop {
        if cond() {
            return true;
        }
        if t0.elapsed() > timeout {
            return false;
        }
        tokio::time::sleep(Duration::from_millis(1)).await;
    }
}

fn run_case(ctx: &Ctx, case: &Case) {
    let r = quiet_catch(|| {
        let rt = runtime(2);
        let out = rt.block_on(run_case_async(ctx, case));
        rt.shutdown_background();
        out
    });
    match r {
        Ok(Ok((class, outcome))) => ctx.eval(&class, &outcome),
        Ok(Err(msg)) => ctx.discrepancy(None, &msg, case),
        Err(p) => ctx.discrepancy(None, &format!("panic: {p}"), case),
    }
}

async fn run_case_async(ctx: &Ctx, case: &Case) -> Result<(String, String), String> {
    let hlog: Arc<Mutex<Vec<HookCall>>> = Default::default();
    let mut sb = loopback_builder(secret(1)).alpns(vec![MAIN.to_vec(), SENTINEL.to_vec()]);
    for (i, &a) in case.acceptor.iter().enumerate() {
        sb = sb.hooks(Hook { side: 'S', idx: i, before_ok: true, after_ok: a, log: hlog.clone() });
    }
    let server = sb.bind().await.map_err(|e| format!("bind: {e:?}"))?;
    // the dialer also accepts (needed for the self-dial cases: its own accept loop must see nothing)
    let mut db = loopback_builder(secret(2)).alpns(vec![MAIN.to_vec(), SENTINEL.to_vec()]);
    for (i, &(b, a)) in case.dialer.iter().enumerate() {
        db = db.hooks(Hook { side: 'D', idx: i, before_ok: b, after_ok: a, log: hlog.clone() });
    }
    let dialer = db.bind().await.map_err(|e| format!("bind: {e:?}"))?;

    // acceptor loop: every Incoming in arrival order
    let slog: Arc<Mutex<Vec<SrvEntry>>> = Default::default();
    let mut loops = Vec::new();
    for ep in [server.clone(), dialer.clone()] {
        let slog = slog.clone();
        let is_server = ep.id() == server.id();
        loops.push(tokio::spawn(async move {
            while let Some(incoming) = ep.accept().await {
                let idx = {
                    let mut g = slog.lock().unwrap();
                    g.push(SrvEntry { err: if is_server { None } else { Some("ARRIVED AT THE DIALER'S OWN ACCEPT LOOP".into()) }, ..Default::default() });
                    g.len() - 1
                };
                let mut accepting = match incoming.accept() {
                    Ok(a) => a,
                    Err(e) => {
                        slog.lock().unwrap()[idx].err = Some(format!("accept: {e}"));
                        continue;
                    }
                };
                let alpn = accepting.alpn().await.ok();
                slog.lock().unwrap()[idx].alpn = alpn;
                match accepting.await {
                    Ok(conn) => {
                        {
                            let mut g = slog.lock().unwrap();
                            g[idx].established = true;
                            g[idx].remote = Some(conn.remote_id());
                            g[idx].alpn = Some(conn.alpn().to_vec());
                        }
                        let slog = slog.clone();
                        tokio::spawn(async move {
                            let e = conn.closed().await;
                            let mut g = slog.lock().unwrap();
                            match app_code(&e) {
                                Some(c) => g[idx].closed_code = Some(c),
                                None => g[idx].closed_other = Some(format!("{e}")),
                            }
                        });
                    }
                    Err(e) => {
                        let mut g = slog.lock().unwrap();
                        g[idx].err = Some(match &e {
                            ConnectingError::LocallyRejected { .. } => "locally-rejected".to_string(),
                            o => format!("{o:#}"),
                        });
                    }
                }
            }
        }));
    }

    // ---- the attempt under test ----
    let target = if case.self_dial { dial_addr(&dialer) } else { dial_addr(&server) };
    let target_id = target.id;
    let alpn: &[u8] = if case.empty_alpn { b"" } else { MAIN };
    let res = tokio::time::timeout(POSITIVE_TIMEOUT, dial(&dialer, target, alpn, case.additional_alpn))
        .await
        .map_err(|_| "machinery: the dial neither succeeded nor failed within the time-out".to_string())?;

    // ---- reference model (from the statement) ----
    let precondition_fails = case.self_dial || case.empty_alpn;
    let d_before_rej: Vec<usize> = (0..case.dialer.len()).filter(|&i| !case.dialer[i].0).collect();
    let d_after_rej: Vec<usize> = (0..case.dialer.len()).filter(|&i| !case.dialer[i].1).collect();
    let s_after_rej: Vec<usize> = (0..case.acceptor.len()).filter(|&i| !case.acceptor[i]).collect();
    let reaches_handshake = !precondition_fails && d_before_rej.is_empty();
    let class = format!(
        "{}{}dialer[{}] acceptor[{}]",
        if case.self_dial { "self-dial " } else { "" },
        if case.empty_alpn { "empty-protocol-name " } else { "" },
        if !d_before_rej.is_empty() {
            "a before_connect hook rejects"
        } else if !d_after_rej.is_empty() {
            "an after_handshake hook rejects"
        } else {
            "all accept"
        },
        if s_after_rej.is_empty() { "all accept" } else { "an after_handshake hook rejects" },
    );

    // ---- positive events to wait for before the sentinel ----
    let mut dialer_saw_close: Option<u64> = None;
    let mut dialer_other_close: Option<String> = None;
    if let Dial::Ok(conn) = &res {
        if reaches_handshake && !s_after_rej.is_empty() {
            // the acceptor's hook rejects after the handshake: the connection must get closed with its code
            match tokio::time::timeout(POSITIVE_TIMEOUT, conn.closed()).await {
                Ok(e) => match app_code(&e) {
                    Some(c) => dialer_saw_close = Some(c),
                    None => dialer_other_close = Some(format!("{e}")),
                },
                Err(_) => dialer_other_close = Some("never closed".into()),
            }
        } else if reaches_handshake {
            // the acceptor must hand out its side too
            let _ = wait_async(POSITIVE_TIMEOUT, || slog.lock().unwrap().iter().any(|e| e.established && e.alpn.as_deref() == Some(MAIN))).await;
        }
    }
    if let Dial::Hs(_, c) = &res {
        dialer_saw_close = *c;
    }
    if reaches_handshake && d_after_rej.is_empty() == false && s_after_rej.is_empty() {
        // the dialer's hook rejects after the handshake: an established acceptor side must see the hook's code
        let _ = wait_async(POSITIVE_TIMEOUT, || {
            slog.lock().unwrap().iter().any(|e| e.alpn.as_deref() == Some(MAIN) && (e.closed_code.is_some() || e.closed_other.is_some() || e.err.is_some()))
        })
        .await;
    }

    // ---- sentinel: everything the attempt sent arrived before it ----
    let sres = tokio::time::timeout(POSITIVE_TIMEOUT, dial(&dialer, dial_addr(&server), SENTINEL, false))
        .await
        .map_err(|_| "machinery: sentinel dial timed out".to_string())?;
    let Dial::Ok(sconn) = sres else {
        return Err(format!("machinery: the always-accepted sentinel dial failed: {sres:?}"));
    };
    if !wait_async(POSITIVE_TIMEOUT, || slog.lock().unwrap().iter().any(|e| e.established && e.alpn.as_deref() == Some(SENTINEL))).await {
        return Err("machinery: sentinel never arrived at the acceptor".into());
    }
    let established_main = matches!(res, Dial::Ok(_));
    let still_open = match &res {
        Dial::Ok(c) => c.close_reason().is_none(),
        _ => false,
    };

    let hlog_v = hlog.lock().unwrap().clone();
    let slog_v = slog.lock().unwrap().clone();
    let main_hooks: Vec<&HookCall> = hlog_v.iter().filter(|h| h.alpn != SENTINEL).collect();
    let sent_pos = slog_v.iter().position(|e| e.alpn.as_deref() == Some(SENTINEL)).unwrap();
    let before_sentinel: Vec<&SrvEntry> = slog_v[..sent_pos].iter().collect();
    let after_sentinel = slog_v.len() - sent_pos - 1;
    let detail = format!(
        "dialer hooks {:?} acceptor hooks {:?} empty_alpn={} self_dial={}: dial {:?}; dialer saw close {:?}/{:?}; hook calls {:?}; acceptor log {:?}",
        case.dialer,
        case.acceptor,
        case.empty_alpn,
        case.self_dial,
        match &res {
            Dial::Ok(_) => "Ok".to_string(),
            o => format!("{o:?}"),
        },
        dialer_saw_close,
        dialer_other_close,
        main_hooks,
        slog_v
    );
    ctx.sample(&class, &detail);

    // tidy up before judging (so every exit path releases sockets)
    sconn.close(0u32.into(), b"bye");
    if let Dial::Ok(c) = &res {
        c.close(7u32.into(), b"bye");
    }
    // no graceful close: connections closed by a rejecting hook would make close() wait out their draining period
    for l in loops {
        l.abort();
    }
    let dialer_id = dialer.id();
    drop(server);
    drop(dialer);

    // ---- oracle ----
    if after_sentinel != 0 || slog_v.iter().any(|e| e.err.as_deref() == Some("ARRIVED AT THE DIALER'S OWN ACCEPT LOOP")) {
        return Err(format!("unexpected incoming connection: {detail}"));
    }
    // (1) preconditions: own id / empty protocol name always fail, and nothing reaches anybody
    if precondition_fails {
        if established_main {
            return Err(format!("dial to own id / with empty protocol name succeeded: {detail}"));
        }
        if !before_sentinel.is_empty() {
            return Err(format!("a dial that must always fail reached the acceptor: {detail}"));
        }
        return Ok((class, "fails, nothing sent".into()));
    }
    // (2) a before_connect rejection stops the attempt before the handshake
    if !d_before_rej.is_empty() {
        if established_main {
            return Err(format!("established although a before_connect hook rejected: {detail}"));
        }
        if !before_sentinel.is_empty() {
            return Err(format!("a before_connect rejection did not stop the attempt before the handshake (acceptor saw it): {detail}"));
        }
        if main_hooks.iter().any(|h| h.point == "after") {
            return Err(format!("after_handshake consulted for an attempt rejected before the handshake: {detail}"));
        }
        return Ok((class, "stopped before the handshake".into()));
    }
    // from here on the attempt may handshake: the acceptor sees at most this one flow before the sentinel
    if before_sentinel.len() > 1 {
        return Err(format!("more than one incoming for one attempt: {detail}"));
    }
    let srv = before_sentinel.first().copied();
    let srv_established = srv.map(|e| e.established).unwrap_or(false);
    // "established only if every installed hook accepts it": consulted and accepted, per side
    let consulted_ok = |side: char, point: &str, n: usize, remote: EndpointId| -> bool {
        (0..n).all(|i| main_hooks.iter().any(|h| h.side == side && h.idx == i && h.point == point && h.accepted && h.alpn == MAIN && h.remote == remote))
    };
    if established_main {
        if !d_after_rej.is_empty() {
            return Err(format!("dialer side established although one of its after_handshake hooks rejected: {detail}"));
        }
        if !consulted_ok('D', "before", case.dialer.len(), target_id) || !consulted_ok('D', "after", case.dialer.len(), target_id) {
            return Err(format!("dialer side established without every installed hook having accepted: {detail}"));
        }
    }
    if srv_established {
        if !s_after_rej.is_empty() {
            return Err(format!("acceptor side established although one of its after_handshake hooks rejected: {detail}"));
        }
        if !consulted_ok('S', "after", case.acceptor.len(), dialer_id) {
            return Err(format!("acceptor side established without every installed hook having accepted: {detail}"));
        }
        if srv.unwrap().remote != Some(dialer_id) {
            return Err(format!("acceptor reports a wrong remote id: {detail}"));
        }
    }
    // (3) a rejection after the handshake closes the connection with the hook's error code
    let s_codes: Vec<u64> = s_after_rej.iter().map(|&i| code('S', i) as u64).collect();
    let d_codes: Vec<u64> = d_after_rej.iter().map(|&i| code('D', i) as u64).collect();
    match (d_after_rej.is_empty(), s_after_rej.is_empty()) {
        (true, true) => {
            if established_main && srv_established && still_open {
                Ok((class, "established on both sides".into()))
            } else {
                // the statement only says "only if"; recorded so a vacuous run is visible
                Ok((class, "NOT established although every hook accepted".into()))
            }
        }
        (true, false) => {
            // acceptor hook rejects: the dialer's side must get closed, and an application close code that
            // reaches the dialer must be that hook's. (QUIC does not deliver CONNECTION_CLOSE reliably: once the
            // closing side has drained, the peer sees a stateless reset instead — the code is lost in transit,
            // which the statement does not exclude.)
            match (dialer_saw_close, dialer_other_close.as_deref()) {
                (Some(c), _) if s_codes.contains(&c) => Ok((class, "closed by the acceptor hook (a delivered code is the hook's)".into())),
                (Some(c), _) => Err(format!("acceptor hook rejection: dialer observed application close code {c}, expected one of {s_codes:?}: {detail}")),
                (None, Some("never closed")) => Err(format!("acceptor hook rejection: the dialer's connection was never closed: {detail}")),
                (None, _) if established_main && still_open => Err(format!("acceptor hook rejection: the dialer's connection is still open: {detail}")),
                (None, _) => {
                    CODE_LOST.fetch_add(1, std::sync::atomic::Ordering::Relaxed);
                    Ok((class, "closed by the acceptor hook (a delivered code is the hook's)".into()))
                }
            }
        }
        (false, true) => {
            // dialer hook rejects after the handshake: the acceptor side, if it got established, sees the code
            match srv {
                Some(e) if e.established => match (e.closed_code, e.closed_other.as_deref()) {
                    (Some(c), _) if d_codes.contains(&c) => Ok((class, "closed by the dialer hook (a delivered code is the hook's)".into())),
                    (Some(c), _) => Err(format!("dialer hook rejection: acceptor observed application close code {c}, expected one of {d_codes:?}: {detail}")),
                    (None, None) => Err(format!("dialer hook rejection: the acceptor's connection was never closed: {detail}")),
                    (None, Some(_)) => {
                        CODE_LOST.fetch_add(1, std::sync::atomic::Ordering::Relaxed);
                        Ok((class, "closed by the dialer hook (a delivered code is the hook's)".into()))
                    }
                },
                _ => Ok((class, "closed by the dialer hook (a delivered code is the hook's)".into())),
            }
        }
        (false, false) => Ok((class, "rejected on both sides".into())),
    }
}

/// number of cases in which the closing side's code did not reach the peer (reset / time-out instead)
static CODE_LOST: std::sync::atomic::AtomicU64 = std::sync::atomic::AtomicU64::new(0);

fn lists<T: Clone>(alphabet: &[T], max: usize) -> Vec<Vec<T>> {
    sequences_up_to(alphabet, max)
}

fn gen_cases(ctx: &Ctx) -> Vec<Case> {
    let dl = ctx.pick(2, 3);
    let al = ctx.pick(2, 3);
    let dtypes: Vec<(bool, bool)> = if ctx.thorough() { vec![(true, true), (false, true), (true, false), (false, false)] } else { vec![(true, true), (false, true), (true, false)] };
    let dlists = lists(&dtypes, dl);
    let alists = lists(&[true, false], al);
    let mut out = Vec::new();
    for d in &dlists {
        for a in &alists {
            out.push(Case { dialer: d.clone(), acceptor: a.clone(), empty_alpn: false, self_dial: false, additional_alpn: false });
        }
        for (e, s) in [(true, false), (false, true), (true, true)] {
            out.push(Case { dialer: d.clone(), acceptor: vec![], empty_alpn: e, self_dial: s, additional_alpn: false });
        }
        out.push(Case { dialer: d.clone(), acceptor: vec![], empty_alpn: true, self_dial: false, additional_alpn: true });
    }
    out
}

fn main() {
    let ctx = Ctx::from_args("C42", Level::Exploration);
    silence_all_panics();
    ctx.set_rule("complete product dialer hook lists (each hook: before_connect accept/reject x after_handshake accept/reject) x acceptor hook lists (after_handshake accept/reject) for a normal dial, and dialer hook lists x {empty protocol name, own id, both}; one fresh endpoint pair on loopback per case; each attempt is followed by an always-accepted sentinel dial from the same socket; distinct = (precondition, dialer pattern, acceptor pattern) x outcome");
    ctx.assume("which rejecting hook's code is used when several hooks of one side reject is left open by the statement: any rejecting hook's code is accepted");
    ctx.assume("loopback UDP from one socket to one socket is delivered in order (sentinel argument)");
    ctx.bound("max_dialer_hooks", ctx.pick(2, 3));
    ctx.bound("max_acceptor_hooks", ctx.pick(2, 3));
    ctx.min_outcomes(9);
    if let Some(c) = ctx.replay_case::<Case>() {
        run_case(&ctx, &c);
        ctx.finish();
    }
    let cases = gen_cases(&ctx);
    ctx.bound("configs", cases.len());
    let jobs = workers().min(8);
    let chunks: Vec<Vec<Case>> = (0..jobs).map(|j| cases.iter().skip(j).step_by(jobs).cloned().collect()).collect();
    par_for_each(&chunks, |chunk| {
        for c in chunk {
            run_case(&ctx, c);
        }
    });
    ctx.extra("close_code_lost_in_transit_cases", CODE_LOST.load(std::sync::atomic::Ordering::Relaxed));
    ctx.finish();
}
