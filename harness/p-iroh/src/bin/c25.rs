//! C25 Requested network re-probes are never silently dropped — E5 (real endpoint) + async gates.
//!
//! A real `Endpoint` (one unreachable relay, so that net reports really run) lives on a current-thread real-time
//! tokio runtime. Gates inside the spawned report task (before the report, before the done signal, after the done
//! signal) and in the socket actor's reaction to the done signal let the harness place an update request
//! (`Endpoint::remove_relay` of an unknown relay -> `ActorMessage::RelayMapChange` -> `re_stun` -> `schedule_run`) at every
//! position of the finishing run and order the actor's reaction against the end of the run task.
//! A further gate between the guard release and the done signal lets a second trigger be handled by the actor while
//! the finished run's done signal is still outstanding ("stale done signal" schedules).
//!
//! Second scenario, state level (E1): the real `DirectAddrUpdateState` (schedule_run / try_run / want_update / the
//! reporter lock / the done channel) is driven by hand through `iroh::verif::c25::StateHarness`; the harness plays the
//! actor and the run tasks (a started run keeps the reporter guard until the harness lets it finish). Every sequence of
//! {request(reason), run releases the reporter, run queues its done signal, actor handles a done signal} up to a depth
//! bound is explored breadth-first with state de-duplication; the oracle is the invariant of the statement.
use iroh::verif::c25::{Reason, StateHarness, StateHarnessFactory};
use iroh::{Endpoint, RelayMap, RelayMode, RelayUrl, endpoint::presets};
use serde::{Deserialize, Serialize};
use std::collections::HashSet;
use std::sync::Mutex;
use std::time::{Duration, Instant};
use vh_engine::*;

const G_BEFORE_REPORT: &str = "direct_addr.run.before_report";
const G_BEFORE_DONE: &str = "direct_addr.run.before_done";
const G_AFTER_RELEASE: &str = "direct_addr.run.after_release";
const G_AFTER_DONE: &str = "direct_addr.run.after_done";
const G_ACTOR: &str = "direct_addr.actor.before_try_run";

#[derive(Serialize, Deserialize, Clone, Copy, Debug, PartialEq, Eq)]
enum Pos {
    /// while the run has not produced its report yet
    BeforeReport,
    /// report finished (stored / timed out), done signal not yet sent
    AfterReport,
    /// done signal sent, run task not yet ended, the actor has not reacted to the signal yet
    AfterDoneActorNotReacted,
    /// done signal sent, run task not yet ended, the actor already reacted to the signal
    AfterDoneActorReacted,
    /// run task ended and the actor reacted
    AfterEverything,
}

#[derive(Serialize, Deserialize, Clone, Copy, Debug, PartialEq, Eq)]
enum Order {
    /// the actor reacts to the done signal before the run task ends
    ActorFirst,
    /// the run task ends before the actor reacts to the done signal
    TaskFirst,
}

#[derive(Serialize, Deserialize, Clone, Copy, Debug)]
struct Case {
    request_at: Pos,
    order: Order,
    /// a second update request at another position (thorough tier)
    #[serde(default)]
    also_at: Option<Pos>,
    /// stale-done-signal schedules: after the first run A released the reporter and BEFORE it sends its done signal
    /// (held at the `after_release` gate) the actor handles a second trigger T, which finds the reporter free and
    /// starts run B at once; A's done signal is then handled while B is in flight.
    #[serde(default)]
    trigger: Option<Trig>,
}

#[derive(Serialize, Deserialize, Clone, Copy, Debug, PartialEq, Eq)]
enum Trig {
    /// the update request X (at `request_at` = BeforeReport / AfterReport, remembered while A runs) precedes T
    AfterRequest,
    /// X is made after T started run B (remembered while B runs), before the actor handles A's stale done signal;
    /// `request_at` is ignored
    BeforeRequest,
}
impl Case {
    fn at(&self, p: Pos) -> bool {
        self.request_at == p || self.also_at == Some(p)
    }
}

fn count(label: &str) -> usize {
    seams::events_snapshot().iter().filter(|(l, _)| l == label).count()
}

async fn wait_for(what: &str, cond: impl Fn() -> bool, timeout: Duration) -> Result<(), String> {
    let t0 = Instant::now();
    loop {
        if cond() {
            return Ok(());
        }
        if t0.elapsed() > timeout {
            return Err(format!("timeout waiting for {what}; events so far: {:?}", seams::events_snapshot()));
        }
        tokio::time::sleep(Duration::from_millis(3)).await;
    }
}

struct Verdict {
    class: String,
    outcome: String,
    bad: Option<String>,
    trace: Vec<String>,
    secs: f64,
}

async fn run_schedule(case: Case) -> Result<Verdict, String> {
    let t_start = Instant::now();
    seams::reset_local();
    for g in [G_BEFORE_REPORT, G_BEFORE_DONE, G_AFTER_DONE, G_ACTOR] {
        seams::arm(g);
    }
    if case.trigger.is_some() {
        seams::arm(G_AFTER_RELEASE);
    }
    let relay: RelayUrl = "https://127.0.0.1:9/".parse().unwrap();
    let unknown: RelayUrl = "https://unknown.invalid./".parse().unwrap();
    let ep = Endpoint::builder(presets::Minimal)
        .relay_mode(RelayMode::Custom(RelayMap::from(relay)))
        .portmapper_config(iroh::endpoint::PortmapperConfig::Disabled)
        .bind()
        .await
        .map_err(|e| format!("bind: {e:?}"))?;
    let long = Duration::from_secs(20);
    // an update request through the public API; returns once the actor has recorded it (unless the actor is parked)
    let request = |wait: bool| {
        let ep = ep.clone();
        let unknown = unknown.clone();
        async move {
            let before = count("direct_addr.schedule_run");
            ep.remove_relay(&unknown).await;
            if wait {
                wait_for("the actor to take the update request", || count("direct_addr.schedule_run") > before, Duration::from_secs(10)).await?;
            }
            Ok::<(), String>(())
        }
    };
    // first run (started by the actor's initial periodic tick) parks before its report
    wait_for("first run to start", || seams::waiting(G_BEFORE_REPORT) >= 1, long).await?;
    if let Some(trig) = case.trigger {
        // ---- stale-done-signal schedules: run A, [X], A releases the reporter, T -> run B, [X], A's done signal
        // is sent and handled while B is in flight (parked before its report), then everything runs freely.
        let x_first = trig == Trig::AfterRequest;
        if x_first && case.request_at == Pos::BeforeReport {
            request(true).await?;
        }
        seams::release(G_BEFORE_REPORT);
        wait_for("first report to finish", || seams::waiting(G_BEFORE_DONE) >= 1, long).await?;
        if x_first && case.request_at == Pos::AfterReport {
            request(true).await?;
        }
        seams::release(G_BEFORE_DONE);
        wait_for("first run to release the reporter", || seams::waiting(G_AFTER_RELEASE) >= 1, long).await?;
        // T: handled by the actor while A's done signal is not yet sent; must find the reporter free
        let starts_before = count("direct_addr.run.start");
        request(true).await?;
        let t_idle = seams::events_snapshot().iter().rev().find(|(l, _)| l == "direct_addr.schedule_run").is_some_and(|(_, d)| d.starts_with("idle"));
        if t_idle {
            wait_for("the second trigger's run to start and park", || count("direct_addr.run.start") > starts_before && seams::waiting(G_BEFORE_REPORT) >= 1, long).await?;
        }
        // (if T found the reporter still locked it is simply one more request made while A runs: judged as such)
        if !x_first {
            request(true).await?; // X: remembered while B is in flight
        }
        seams::release(G_AFTER_RELEASE);
        wait_for("stale done signal sent and seen by the actor", || seams::waiting(G_AFTER_DONE) >= 1 && seams::waiting(G_ACTOR) >= 1, long).await?;
        match case.order {
            Order::ActorFirst => {
                seams::release(G_ACTOR);
                wait_for("actor reaction", || count("direct_addr.actor.after_try_run") >= 1, long).await?;
                seams::release(G_AFTER_DONE);
                wait_for("end of the first run task", || count("direct_addr.run.task_end") >= 1, long).await?;
            }
            Order::TaskFirst => {
                seams::release(G_AFTER_DONE);
                wait_for("end of the first run task", || count("direct_addr.run.task_end") >= 1, long).await?;
                seams::release(G_ACTOR);
                wait_for("actor reaction", || count("direct_addr.actor.after_try_run") >= 1, long).await?;
            }
        }
    } else {
    if case.at(Pos::BeforeReport) {
        request(true).await?;
    }
    seams::release(G_BEFORE_REPORT);
    wait_for("first report to finish", || seams::waiting(G_BEFORE_DONE) >= 1, long).await?;
    if case.at(Pos::AfterReport) {
        request(true).await?;
    }
    seams::release(G_BEFORE_DONE);
    wait_for("done signal sent and seen by the actor", || seams::waiting(G_AFTER_DONE) >= 1 && seams::waiting(G_ACTOR) >= 1, long).await?;
    if case.at(Pos::AfterDoneActorNotReacted) {
        request(false).await?; // queued behind the done signal: the actor is parked in its reaction
    }
    match case.order {
        Order::ActorFirst => {
            seams::release(G_ACTOR);
            wait_for("actor reaction", || count("direct_addr.actor.after_try_run") >= 1, long).await?;
            if case.at(Pos::AfterDoneActorReacted) {
                request(true).await?;
            }
            if case.at(Pos::AfterDoneActorNotReacted) {
                wait_for("the actor to take the queued update request", || count("direct_addr.schedule_run") >= 2, long).await?;
            }
            seams::release(G_AFTER_DONE);
            wait_for("end of the first run task", || count("direct_addr.run.task_end") >= 1, long).await?;
        }
        Order::TaskFirst => {
            seams::release(G_AFTER_DONE);
            wait_for("end of the first run task", || count("direct_addr.run.task_end") >= 1, long).await?;
            seams::release(G_ACTOR);
            wait_for("actor reaction", || count("direct_addr.actor.after_try_run") >= 1, long).await?;
            if case.at(Pos::AfterDoneActorNotReacted) {
                wait_for("the actor to take the queued update request", || count("direct_addr.schedule_run") >= 2, long).await?;
            }
        }
    }
    if case.at(Pos::AfterEverything) {
        request(true).await?;
    }
    }
    // The scripted part is over: later runs proceed freely (with two requests the second one may legitimately be
    // queued behind the second run and start only when that one is over).
    // The requested update must now start by itself: the only other source of a run is the periodic timer
    // (20..26 s after start / after a stored report); a run it starts is visible as a `Periodic` request and makes
    // the schedule unjudgeable (machinery error), never a pass.
    for g in [G_BEFORE_REPORT, G_BEFORE_DONE, G_AFTER_RELEASE, G_AFTER_DONE, G_ACTOR] {
        seams::disarm(g);
        seams::release_all(g);
    }
    // satisfied <=> a run started after the last recorded request (a request recorded while idle starts its run
    // at once; one recorded while busy must be started once the running one is over)
    let satisfied = || {
        let evs = seams::events_snapshot();
        let r = evs.iter().rposition(|(l, _)| l == "direct_addr.schedule_run");
        let s = evs.iter().rposition(|(l, _)| l == "direct_addr.run.start");
        matches!((r, s), (Some(r), Some(s)) if s > r)
    };
    if count("direct_addr.schedule_run") < 2 {
        return Err(format!("the update request was not recorded: {:?}", seams::events_snapshot()));
    }
    let started = wait_for("a run after the last request", satisfied, Duration::from_secs(10)).await.is_ok();
    let elapsed = t_start.elapsed().as_secs_f64();
    let evs = seams::events_snapshot();
    let trace: Vec<String> = evs.iter().filter(|(l, _)| l.starts_with("direct_addr") || l == "gate.arrive").map(|(l, d)| format!("{l}({d})")).collect();
    let mut bad = None;
    // at most one report at a time: when a run starts, every earlier run has finished its report
    let mut starts = 0;
    let mut reports_done = 0;
    for (l, _) in &evs {
        match l.as_str() {
            "direct_addr.run.start" => {
                if reports_done < starts {
                    bad.get_or_insert("a run started while the previous report was still running".to_string());
                }
                starts += 1;
            }
            "direct_addr.run.report_done" => reports_done += 1,
            _ => {}
        }
    }
    let how = evs
        .iter()
        .filter(|(l, _)| l == "direct_addr.schedule_run")
        .map(|(_, d)| d.split(' ').next().unwrap_or("").to_string())
        .collect::<Vec<_>>()
        .join(",");
    let periodic = evs.iter().filter(|(l, d)| l == "direct_addr.schedule_run" && d.ends_with("Periodic")).count();
    if periodic > 1 {
        return Err(format!("the periodic re-probe timer fired during the schedule ({elapsed:.1}s): cannot judge"));
    }
    let placement = match case.trigger {
        None => format!("{:?}{}", case.request_at, case.also_at.map(|p| format!("+{p:?}")).unwrap_or_default()),
        Some(Trig::AfterRequest) => format!("{:?}, then a second trigger between reporter release and done signal", case.request_at),
        Some(Trig::BeforeRequest) => "while the run of a second trigger (handled between reporter release and done signal) is in flight, before the stale done signal is handled".to_string(),
    };
    if !started && bad.is_none() {
        bad = Some(format!(
            "update requested {placement} ({:?}) was recorded ({how}) but no run started after the run in flight finished; trace {trace:?}",
            case.order
        ));
    }
    ep.close().await;
    seams::clear_local();
    Ok(Verdict {
        class: format!("request {placement} / {:?}: recorded as [{how}]", case.order),
        outcome: if started { "second run started".into() } else { "stranded".into() },
        bad,
        trace,
        secs: elapsed,
    })
}

fn exec(ctx: &Ctx, case: Case) {
    let r = quiet_catch(|| {
        let rt = tokio::runtime::Builder::new_current_thread().enable_all().build().unwrap();
        let out = rt.block_on(run_schedule(case));
        rt.shutdown_timeout(Duration::from_millis(200));
        out
    });
    match r {
        Ok(Ok(v)) => {
            if std::env::var_os("C25_DEBUG").is_some() {
                eprintln!("{case:?} {:.1}s {} => {}\n   {:?}", v.secs, v.class, v.outcome, v.trace);
            }
            ctx.add_traces(1);
            ctx.add_transitions(v.trace.len() as u64);
            match v.bad {
                Some(b) => ctx.discrepancy(None, &b, case),
                None => {
                    ctx.sample(&v.class, serde_json::json!({"case": case, "trace": v.trace, "seconds": v.secs}));
                    ctx.eval(&v.class, &v.outcome);
                }
            }
        }
        Ok(Err(e)) => machinery_error(&format!("C25 harness, case {case:?}: {e}")),
        Err(p) => ctx.discrepancy(None, &format!("panic: {p}"), case),
    }
}

// ---------------------------------------------------------------------------------------------------------------
// State-level scenario: the real DirectAddrUpdateState driven by hand.
// ---------------------------------------------------------------------------------------------------------------

/// Update reasons (own serialisable mirror; major = asks for a full report, per the statement's "update").
#[derive(Serialize, Deserialize, Clone, Copy, Debug, PartialEq, Eq, Hash)]
enum R {
    Periodic,
    PortmapUpdated,
    LinkChangeMinor,
    LinkChangeMajor,
    RelayMapChange,
}
impl R {
    fn major(self) -> bool {
        matches!(self, R::LinkChangeMajor | R::RelayMapChange)
    }
    fn strength(self) -> &'static str {
        if self.major() { "major" } else { "minor" }
    }
    fn to_hook(self) -> Reason {
        match self {
            R::Periodic => Reason::Periodic,
            R::PortmapUpdated => Reason::PortmapUpdated,
            R::LinkChangeMinor => Reason::LinkChangeMinor,
            R::LinkChangeMajor => Reason::LinkChangeMajor,
            R::RelayMapChange => Reason::RelayMapChange,
        }
    }
    fn of_hook(r: Reason) -> R {
        match r {
            Reason::Periodic => R::Periodic,
            Reason::PortmapUpdated => R::PortmapUpdated,
            Reason::LinkChangeMinor => R::LinkChangeMinor,
            Reason::LinkChangeMajor => R::LinkChangeMajor,
            Reason::RelayMapChange => R::RelayMapChange,
        }
    }
    /// a run with reason `self` serves a request with reason `req`
    fn serves(self, req: R) -> bool {
        self.major() || !req.major()
    }
}

#[derive(Serialize, Deserialize, Clone, Copy, Debug, PartialEq, Eq, Hash)]
enum Op {
    /// the actor handles a trigger: schedule_run(reason)
    Request(R),
    /// the run in flight releases the net reporter
    Release,
    /// a run that released the reporter queues its done signal
    SendDone,
    /// the actor takes one done signal and reacts with try_run
    HandleDone,
}

/// What the oracle tracks (from the statement only).
#[derive(Clone, Debug, Default)]
struct Book {
    /// the run in flight (started, reporter not yet released)
    in_flight: Option<R>,
    /// runs that released the reporter and have not queued their done signal yet
    released_unsent: u32,
    /// done signals queued, not yet handled by the actor
    queued: u32,
    /// requests made while a run was in flight and not yet served: (index of the op, reason)
    unserved: Vec<(usize, R)>,
}
impl Book {
    fn quiescent(&self) -> bool {
        self.in_flight.is_none() && self.released_unsent == 0 && self.queued == 0
    }
    fn enabled(&self, reasons: &[R]) -> Vec<Op> {
        let mut v: Vec<Op> = reasons.iter().map(|r| Op::Request(*r)).collect();
        if self.in_flight.is_some() {
            v.push(Op::Release);
        }
        if self.released_unsent > 0 {
            v.push(Op::SendDone);
        }
        if self.queued > 0 {
            v.push(Op::HandleDone);
        }
        v
    }
    fn unserved_kind(&self) -> &'static str {
        match (self.unserved.iter().any(|(_, r)| !r.major()), self.unserved.iter().any(|(_, r)| r.major())) {
            (false, false) => "none",
            (true, false) => "minor",
            (false, true) => "major",
            (true, true) => "minor+major",
        }
    }
}

/// The named deviation "last request wins": a request made while a run is in flight replaces the remembered one
/// (used only to attribute a violation to the finding `pending-major-overwritten-by-minor`, never as the oracle).
#[derive(Clone, Debug, Default)]
struct LastWins {
    want: Option<R>,
    in_flight: Option<R>,
    /// a remembered major request was replaced by a non-major one
    downgraded: bool,
    /// the real code has behaved exactly like this model so far
    matches: bool,
}
impl LastWins {
    fn step(&mut self, op: Op) -> Option<R> {
        match op {
            Op::Request(r) => {
                if self.in_flight.is_none() {
                    self.in_flight = Some(r);
                    return Some(r);
                }
                if self.want.is_some_and(|w| w.major()) && !r.major() {
                    self.downgraded = true;
                }
                self.want = Some(r);
                None
            }
            Op::Release => {
                self.in_flight = None;
                None
            }
            Op::SendDone => None,
            Op::HandleDone => {
                if self.in_flight.is_none() {
                    if let Some(w) = self.want.take() {
                        self.in_flight = Some(w);
                        return Some(w);
                    }
                }
                None
            }
        }
    }
}

struct Replayed {
    book: Book,
    key: String,
    /// (finding key, message)
    violation: Option<(Option<&'static str>, String)>,
    class: String,
    outcome: String,
    trace: Vec<String>,
}

/// Replays `hist` against a fresh real DirectAddrUpdateState; Err = the history is not executable (machinery).
fn replay_history(factory: &StateHarnessFactory, hist: &[Op]) -> Result<Replayed, String> {
    let mut h: StateHarness = factory.fresh();
    let mut book = Book::default();
    let mut dev = LastWins { matches: true, ..Default::default() };
    let mut violation: Option<(Option<&'static str>, String)> = None;
    let mut trace = Vec::new();
    let (mut class, mut outcome) = ("empty history".to_string(), "nothing".to_string());
    for (i, op) in hist.iter().copied().enumerate() {
        let started_before = h.started().len();
        let busy_before = book.in_flight;
        class = format!(
            "{} | run in flight: {} | finished runs whose done signal is unsent/unhandled: {}/{} | unserved requests: {}",
            match op {
                Op::Request(r) => format!("request({})", r.strength()),
                Op::Release => "run releases the reporter".into(),
                Op::SendDone => "run queues its done signal".into(),
                Op::HandleDone => "actor handles a done signal".into(),
            },
            busy_before.map(|r| r.strength()).unwrap_or("no"),
            book.released_unsent,
            book.queued,
            book.unserved_kind()
        );
        let ok = match op {
            Op::Request(r) => {
                h.request(r.to_hook());
                true
            }
            Op::Release => book.in_flight.is_some() && h.release_reporter(),
            Op::SendDone => book.released_unsent > 0 && h.send_done(),
            Op::HandleDone => book.queued > 0 && h.handle_done(),
        };
        if !ok {
            return Err(format!("op #{i} {op:?} is not enabled in history {hist:?}"));
        }
        match op {
            Op::Release => {
                book.in_flight = None;
                book.released_unsent += 1;
            }
            Op::SendDone => {
                book.released_unsent -= 1;
                book.queued += 1;
            }
            Op::HandleDone => book.queued -= 1,
            Op::Request(_) => {}
        }
        let started: Vec<R> = h.started()[started_before..].iter().map(|r| R::of_hook(*r)).collect();
        trace.push(format!(
            "{op:?} -> {}; pending={:?} reporter {}",
            if started.is_empty() { "no run started".to_string() } else { format!("run started {started:?}") },
            h.want_update(),
            if h.reporter_busy() { "locked" } else { "free" }
        ));
        // ---- at most one run at a time
        for s in &started {
            if let Some(other) = book.in_flight {
                violation.get_or_insert((None, format!("step {i} {op:?}: a run ({s:?}) started while run {other:?} was still in flight; trace {trace:?}")));
            }
            book.in_flight = Some(*s);
            book.unserved.retain(|(_, req)| !s.serves(*req));
        }
        if h.in_flight().len() > 1 {
            violation.get_or_insert((None, format!("step {i} {op:?}: {} runs in flight; trace {trace:?}", h.in_flight().len())));
        }
        // ---- a request made while a run is in flight must be served
        if let (Op::Request(r), Some(_)) = (op, busy_before) {
            if started.is_empty() {
                book.unserved.push((i, r));
            }
        }
        // ---- the deviation model (attribution only)
        let dev_start = dev.step(op);
        if dev_start != started.first().copied() || started.len() > 1 || dev.want != h.want_update().map(R::of_hook) {
            dev.matches = false;
        }
        outcome = match started.first() {
            Some(s) => format!("run started ({})", s.strength()),
            None => "no run started".to_string(),
        };
        if book.quiescent() && !book.unserved.is_empty() && violation.is_none() {
            let (at, req) = book.unserved[0];
            let only_major = book.unserved.iter().all(|(_, r)| r.major());
            let key = (dev.matches && dev.downgraded && only_major).then_some("pending-major-overwritten-by-minor");
            violation = Some((
                key,
                format!(
                    "the update requested at step {at} ({req:?}, {}) while a run was in flight was never started: after step {i} no run is in flight, every done signal has been handled, and no run at least as strong started after the request; runs started {:?}; trace {trace:?}",
                    req.strength(),
                    h.started()
                ),
            ));
        }
        if violation.is_some() {
            break;
        }
    }
    let key = format!(
        "{:?}|{}|{:?}|{}|{}|{}|{}{}",
        h.want_update(),
        h.reporter_busy(),
        book.in_flight,
        book.released_unsent,
        book.queued,
        book.unserved_kind(),
        dev.matches as u8,
        dev.downgraded as u8
    );
    Ok(Replayed { book, key, violation, class, outcome, trace })
}

/// Breadth-first exploration of all enabled op sequences up to `depth`, de-duplicated on the reached state
/// (real: pending update, reporter lock; harness: run in flight, outstanding done signals; oracle: unserved requests).
fn explore_states(ctx: &Ctx, factory: &StateHarnessFactory, reasons: &[R], depth: usize) {
    let root = match replay_history(factory, &[]) {
        Ok(r) => r,
        Err(e) => machinery_error(&format!("C25 state level: {e}")),
    };
    let mut seen: HashSet<String> = HashSet::new();
    seen.insert(root.key.clone());
    ctx.add_states(1);
    let mut frontier: Vec<(Vec<Op>, Book)> = vec![(vec![], root.book)];
    let mut depth_done = 0;
    let mut histories = 0u64;
    for d in 1..=depth {
        let mut cands: Vec<Vec<Op>> = Vec::new();
        for (h, book) in &frontier {
            for op in book.enabled(reasons) {
                let mut h2 = h.clone();
                h2.push(op);
                cands.push(h2);
            }
        }
        if cands.is_empty() {
            break;
        }
        let results: Mutex<Vec<(usize, Result<Replayed, String>)>> = Mutex::new(Vec::with_capacity(cands.len()));
        let idx: Vec<usize> = (0..cands.len()).collect();
        par_for_each(&idx, |&i| {
            let r = quiet_catch(|| replay_history(factory, &cands[i])).unwrap_or_else(|p| Err(format!("panic: {p}")));
            results.lock().unwrap().push((i, r));
        });
        let mut results = results.into_inner().unwrap();
        results.sort_by_key(|r| r.0);
        histories += cands.len() as u64;
        ctx.add_traces(cands.len() as u64);
        ctx.add_transitions(cands.len() as u64);
        let mut next = Vec::new();
        for (i, r) in results {
            let r = match r {
                Ok(r) => r,
                Err(e) => machinery_error(&format!("C25 state level: {e}")),
            };
            if let Some((key, what)) = &r.violation {
                ctx.discrepancy(*key, what, AnyCase::History { history: cands[i].clone() });
                continue;
            }
            ctx.eval(&r.class, &r.outcome);
            if cands[i].iter().filter(|o| **o == Op::HandleDone).count() >= 2 && r.outcome.starts_with("run started") {
                ctx.sample("state level: a run started by the reaction to a later done signal", serde_json::json!({"history": cands[i], "trace": r.trace}));
            }
            if seen.insert(r.key.clone()) {
                ctx.add_states(1);
                next.push((cands[i].clone(), r.book));
            }
        }
        depth_done = d;
        frontier = next;
        if frontier.is_empty() {
            break;
        }
    }
    ctx.bound("state_level_depth", depth);
    ctx.bound("state_level_depth_completed", depth_done);
    ctx.bound("state_level_reasons", reasons);
    ctx.extra("state_level_states", seen.len());
    ctx.extra("state_level_histories_executed", histories);
    ctx.extra("state_level_frontier_left_at_bound", frontier.len());
}

#[derive(Serialize, Deserialize, Clone, Debug)]
#[serde(untagged)]
enum AnyCase {
    History { history: Vec<Op> },
    Schedule(Case),
}

fn state_level(ctx: &Ctx, only: Option<&[Op]>) {
    let rt = tokio::runtime::Builder::new_current_thread().enable_all().build().unwrap();
    let relay: RelayUrl = "https://127.0.0.1:9/".parse().unwrap();
    let ep = match rt.block_on(
        Endpoint::builder(presets::Minimal)
            .relay_mode(RelayMode::Disabled)
            .portmapper_config(iroh::endpoint::PortmapperConfig::Disabled)
            .bind(),
    ) {
        Ok(ep) => ep,
        Err(e) => machinery_error(&format!("C25 state level: bind: {e:?}")),
    };
    let factory = {
        let _g = rt.enter();
        StateHarnessFactory::new(&ep, RelayMap::from(relay))
    };
    match only {
        Some(hist) => match replay_history(&factory, hist) {
            Ok(r) => {
                ctx.add_traces(1);
                ctx.add_transitions(hist.len() as u64);
                eprintln!("replayed history: {:#?}", r.trace);
                match r.violation {
                    Some((key, what)) => ctx.discrepancy(key, &what, AnyCase::History { history: hist.to_vec() }),
                    None => ctx.eval(&r.class, &r.outcome),
                }
            }
            Err(e) => machinery_error(&format!("C25 state level replay: {e}")),
        },
        None => {
            let reasons: Vec<R> = ctx.pick(
                vec![R::LinkChangeMinor, R::LinkChangeMajor],
                vec![R::Periodic, R::PortmapUpdated, R::LinkChangeMinor, R::LinkChangeMajor, R::RelayMapChange],
            );
            explore_states(ctx, &factory, &reasons, ctx.pick(14, 18));
        }
    }
    rt.block_on(ep.close());
    rt.shutdown_timeout(Duration::from_millis(200));
}

fn main() {
    vh_hooks::install();
    let ctx = Ctx::from_args("C25", Level::ModelChecking);
    ctx.set_rule("(1) real endpoint: every placement of one update request (thorough: also every pair of placements) relative to the finishing first run {before its report, after the report, after the done signal with the actor not yet / already reacted, after everything} x every order of {the actor's reaction to the done signal, the end of the run task}, plus the stale-done-signal schedules (a second trigger handled between the reporter release and the done signal of the first run; the request before it or while its run is in flight) x both orders; each schedule on a fresh real endpoint; distinct = (placement, order, how the actor recorded the requests) x whether a run started after the last request. (2) state level: every sequence of {request(reason), the run in flight releases the reporter, a finished run queues its done signal, the actor handles one done signal} over a real DirectAddrUpdateState, breadth-first to the depth bound, de-duplicated on (pending update, reporter lock, run in flight, outstanding done signals, unserved requests); distinct = (step kind and request strength, run in flight, outstanding done signals, unserved requests) x whether the step started a run");
    ctx.assume("real endpoint: real-time current-thread runtime; the gates model a worker thread being preempted at these points on a multi-thread runtime; the only other source of runs is the 20-26 s periodic timer (a second Periodic request in the trace is a machinery error, never a pass)");
    ctx.assume("state level: the actor is sequential (schedule_run and try_run never overlap); a run task is represented by its three visible steps (holds the reporter guard, releases it, queues the done signal) played by the harness; the net report itself is not run");
    ctx.min_outcomes(ctx.pick(300, 600));
    if let Some(c) = ctx.replay_case::<AnyCase>() {
        match c {
            AnyCase::History { history } => state_level(&ctx, Some(&history)),
            AnyCase::Schedule(c) => exec(&ctx, c),
        }
        ctx.finish();
    }
    state_level(&ctx, None);
    let mut cases = Vec::new();
    let positions = [Pos::BeforeReport, Pos::AfterReport, Pos::AfterDoneActorNotReacted, Pos::AfterDoneActorReacted, Pos::AfterEverything];
    // the actor having reacted while the task has not ended *is* ActorFirst
    let valid = |p: Pos, o: Order| !(p == Pos::AfterDoneActorReacted && o == Order::TaskFirst);
    for (i, &p) in positions.iter().enumerate() {
        for o in [Order::ActorFirst, Order::TaskFirst] {
            if valid(p, o) {
                cases.push(Case { request_at: p, order: o, also_at: None, trigger: None });
            }
            if ctx.thorough() {
                for &p2 in &positions[i + 1..] {
                    if valid(p, o) && valid(p2, o) {
                        cases.push(Case { request_at: p, order: o, also_at: Some(p2), trigger: None });
                    }
                }
            }
        }
    }
    // stale-done-signal schedules (both tiers)
    for o in [Order::ActorFirst, Order::TaskFirst] {
        cases.push(Case { request_at: Pos::AfterReport, order: o, also_at: None, trigger: Some(Trig::AfterRequest) });
        cases.push(Case { request_at: Pos::AfterEverything, order: o, also_at: None, trigger: Some(Trig::BeforeRequest) });
        if ctx.thorough() {
            cases.push(Case { request_at: Pos::BeforeReport, order: o, also_at: None, trigger: Some(Trig::AfterRequest) });
        }
    }
    ctx.bound("schedules", cases.len());
    ctx.add_states(cases.len() as u64);
    par_for_each(&cases, |c| exec(&ctx, *c));
    ctx.finish();
}
