//! C25 Requested network re-probes are never silently dropped — E5 (real endpoint) + async gates.
//!
//! A real `Endpoint` (one unreachable relay, so that net reports really run) lives on a current-thread real-time
//! tokio runtime. Gates inside the spawned report task (before the report, before the done signal, after the done
//! signal) and in the socket actor's reaction to the done signal let the harness place an update request
//! (`Endpoint::remove_relay` of an unknown relay -> `ActorMessage::RelayMapChange` -> `re_stun` -> `schedule_run`) at every
//! position of the finishing run and order the actor's reaction against the end of the run task.
use iroh::{Endpoint, RelayMap, RelayMode, RelayUrl, endpoint::presets};
use serde::{Deserialize, Serialize};
use std::time::{Duration, Instant};
use vh_engine::*;

const G_BEFORE_REPORT: &str = "direct_addr.run.before_report";
const G_BEFORE_DONE: &str = "direct_addr.run.before_done";
const G_AFTER_DONE: &str = "direct_addr.run.after_done";
const G_ACTOR: &str = "direct_addr.actor.before_try_run";

#[derive(Serialize, Deserialize, Clone, Copy, Debug, PartialEq, Eq)]
enum Pos {
    /// while the run has not produced its report yet
    BeforeReport,
    /// report finished (stored / timed out), done signal not yet sent
    AfterReport,
    /// done signal sent, run task not yet ended, the actor has not reacted to the signal yet
    AfterDoneActorNotReacted,
    /// done signal sent, run task not yet ended, the actor already reacted to the signal
    AfterDoneActorReacted,
    /// run task ended and the actor reacted
    AfterEverything,
}

#[derive(Serialize, Deserialize, Clone, Copy, Debug, PartialEq, Eq)]
enum Order {
    /// the actor reacts to the done signal before the run task ends
    ActorFirst,
    /// the run task ends before the actor reacts to the done signal
    TaskFirst,
}

#[derive(Serialize, Deserialize, Clone, Copy, Debug)]
struct Case {
    request_at: Pos,
    order: Order,
    /// a second update request at another position (thorough tier)
    #[serde(default)]
    also_at: Option<Pos>,
}
impl Case {
    fn at(&self, p: Pos) -> bool {
        self.request_at == p || self.also_at == Some(p)
    }
}

fn count(label: &str) -> usize {
    seams::events_snapshot().iter().filter(|(l, _)| l == label).count()
}

async fn wait_for(what: &str, cond: impl Fn() -> bool, timeout: Duration) -> Result<(), String> {
    let t0 = Instant::now();
    loop {
        if cond() {
            return Ok(());
        }
        if t0.elapsed() > timeout {
            return Err(format!("timeout waiting for {what}; events so far: {:?}", seams::events_snapshot()));
        }
        tokio::time::sleep(Duration::from_millis(3)).await;
    }
}

struct Verdict {
    class: String,
    outcome: String,
    bad: Option<String>,
    trace: Vec<String>,
    secs: f64,
}

async fn run_schedule(case: Case) -> Result<Verdict, String> {
    let t_start = Instant::now();
    seams::reset_local();
    for g in [G_BEFORE_REPORT, G_BEFORE_DONE, G_AFTER_DONE, G_ACTOR] {
        seams::arm(g);
    }
    let relay: RelayUrl = "https://127.0.0.1:9/".parse().unwrap();
    let unknown: RelayUrl = "https://unknown.invalid./".parse().unwrap();
    let ep = Endpoint::builder(presets::Minimal)
        .relay_mode(RelayMode::Custom(RelayMap::from(relay)))
        .portmapper_config(iroh::endpoint::PortmapperConfig::Disabled)
        .bind()
        .await
        .map_err(|e| format!("bind: {e:?}"))?;
    let long = Duration::from_secs(20);
    // an update request through the public API; returns once the actor has recorded it (unless the actor is parked)
    let request = |wait: bool| {
        let ep = ep.clone();
        let unknown = unknown.clone();
        async move {
            let before = count("direct_addr.schedule_run");
            ep.remove_relay(&unknown).await;
            if wait {
                wait_for("the actor to take the update request", || count("direct_addr.schedule_run") > before, Duration::from_secs(10)).await?;
            }
            Ok::<(), String>(())
        }
    };
    // first run (started by the actor's initial periodic tick) parks before its report
    wait_for("first run to start", || seams::waiting(G_BEFORE_REPORT) >= 1, long).await?;
    if case.at(Pos::BeforeReport) {
        request(true).await?;
    }
    seams::release(G_BEFORE_REPORT);
    wait_for("first report to finish", || seams::waiting(G_BEFORE_DONE) >= 1, long).await?;
    if case.at(Pos::AfterReport) {
        request(true).await?;
    }
    seams::release(G_BEFORE_DONE);
    wait_for("done signal sent and seen by the actor", || seams::waiting(G_AFTER_DONE) >= 1 && seams::waiting(G_ACTOR) >= 1, long).await?;
    if case.at(Pos::AfterDoneActorNotReacted) {
        request(false).await?; // queued behind the done signal: the actor is parked in its reaction
    }
    match case.order {
        Order::ActorFirst => {
            seams::release(G_ACTOR);
            wait_for("actor reaction", || count("direct_addr.actor.after_try_run") >= 1, long).await?;
            if case.at(Pos::AfterDoneActorReacted) {
                request(true).await?;
            }
            if case.at(Pos::AfterDoneActorNotReacted) {
                wait_for("the actor to take the queued update request", || count("direct_addr.schedule_run") >= 2, long).await?;
            }
            seams::release(G_AFTER_DONE);
            wait_for("end of the first run task", || count("direct_addr.run.task_end") >= 1, long).await?;
        }
        Order::TaskFirst => {
            seams::release(G_AFTER_DONE);
            wait_for("end of the first run task", || count("direct_addr.run.task_end") >= 1, long).await?;
            seams::release(G_ACTOR);
            wait_for("actor reaction", || count("direct_addr.actor.after_try_run") >= 1, long).await?;
            if case.at(Pos::AfterDoneActorNotReacted) {
                wait_for("the actor to take the queued update request", || count("direct_addr.schedule_run") >= 2, long).await?;
            }
        }
    }
    if case.at(Pos::AfterEverything) {
        request(true).await?;
    }
    // The scripted part is over: later runs proceed freely (with two requests the second one may legitimately be
    // queued behind the second run and start only when that one is over).
    // The requested update must now start by itself: the only other source of a run is the periodic timer
    // (20..26 s after start / after a stored report); a run it starts is visible as a `Periodic` request and makes
    // the schedule unjudgeable (machinery error), never a pass.
    for g in [G_BEFORE_REPORT, G_BEFORE_DONE, G_AFTER_DONE, G_ACTOR] {
        seams::disarm(g);
        seams::release_all(g);
    }
    // satisfied <=> a run started after the last recorded request (a request recorded while idle starts its run
    // at once; one recorded while busy must be started once the running one is over)
    let satisfied = || {
        let evs = seams::events_snapshot();
        let r = evs.iter().rposition(|(l, _)| l == "direct_addr.schedule_run");
        let s = evs.iter().rposition(|(l, _)| l == "direct_addr.run.start");
        matches!((r, s), (Some(r), Some(s)) if s > r)
    };
    if count("direct_addr.schedule_run") < 2 {
        return Err(format!("the update request was not recorded: {:?}", seams::events_snapshot()));
    }
    let started = wait_for("a run after the last request", satisfied, Duration::from_secs(10)).await.is_ok();
    let elapsed = t_start.elapsed().as_secs_f64();
    let evs = seams::events_snapshot();
    let trace: Vec<String> = evs.iter().filter(|(l, _)| l.starts_with("direct_addr") || l == "gate.arrive").map(|(l, d)| format!("{l}({d})")).collect();
    let mut bad = None;
    // at most one report at a time: when a run starts, every earlier run has finished its report
    let mut starts = 0;
    let mut reports_done = 0;
    for (l, _) in &evs {
        match l.as_str() {
            "direct_addr.run.start" => {
                if reports_done < starts {
                    bad.get_or_insert("a run started while the previous report was still running".to_string());
                }
                starts += 1;
            }
            "direct_addr.run.report_done" => reports_done += 1,
            _ => {}
        }
    }
    let how = evs
        .iter()
        .filter(|(l, _)| l == "direct_addr.schedule_run")
        .map(|(_, d)| d.split(' ').next().unwrap_or("").to_string())
        .collect::<Vec<_>>()
        .join(",");
    let periodic = evs.iter().filter(|(l, d)| l == "direct_addr.schedule_run" && d.ends_with("Periodic")).count();
    if periodic > 1 {
        return Err(format!("the periodic re-probe timer fired during the schedule ({elapsed:.1}s): cannot judge"));
    }
    if !started && bad.is_none() {
        bad = Some(format!(
            "update requested at {:?}{} ({:?}) was recorded ({how}) but no run started after the first run finished; trace {trace:?}",
            case.request_at,
            case.also_at.map(|p| format!(" and {p:?}")).unwrap_or_default(),
            case.order
        ));
    }
    ep.close().await;
    seams::clear_local();
    Ok(Verdict {
        class: format!(
            "request {:?}{} / {:?}: recorded as [{how}]",
            case.request_at,
            case.also_at.map(|p| format!("+{p:?}")).unwrap_or_default(),
            case.order
        ),
        outcome: if started { "second run started".into() } else { "stranded".into() },
        bad,
        trace,
        secs: elapsed,
    })
}

fn exec(ctx: &Ctx, case: Case) {
    let r = quiet_catch(|| {
        let rt = tokio::runtime::Builder::new_current_thread().enable_all().build().unwrap();
        let out = rt.block_on(run_schedule(case));
        rt.shutdown_timeout(Duration::from_millis(200));
        out
    });
    match r {
        Ok(Ok(v)) => {
            if std::env::var_os("C25_DEBUG").is_some() {
                eprintln!("{case:?} {:.1}s {} => {}\n   {:?}", v.secs, v.class, v.outcome, v.trace);
            }
            ctx.add_traces(1);
            ctx.add_transitions(v.trace.len() as u64);
            match v.bad {
                Some(b) => ctx.discrepancy(None, &b, case),
                None => {
                    ctx.sample(&v.class, serde_json::json!({"case": case, "trace": v.trace, "seconds": v.secs}));
                    ctx.eval(&v.class, &v.outcome);
                }
            }
        }
        Ok(Err(e)) => machinery_error(&format!("C25 harness, case {case:?}: {e}")),
        Err(p) => ctx.discrepancy(None, &format!("panic: {p}"), case),
    }
}

fn main() {
    vh_hooks::install();
    let ctx = Ctx::from_args("C25", Level::ModelChecking);
    ctx.set_rule("every placement of one update request (thorough: also every pair of placements) relative to the finishing first run {before its report, after the report, after the done signal with the actor not yet / already reacted, after everything} x every order of {the actor's reaction to the done signal, the end of the run task}; each schedule on a fresh real endpoint; distinct = (placement, order, how the actor recorded the request) x whether a second run started");
    ctx.assume("real-time current-thread runtime; the gates model a worker thread being preempted at these points on a multi-thread runtime; the only other source of runs is the 20-26 s periodic timer (a second Periodic request in the trace is a machinery error, never a pass)");
    ctx.min_outcomes(ctx.pick(6, 12));
    if let Some(c) = ctx.replay_case::<Case>() {
        exec(&ctx, c);
        ctx.finish();
    }
    let mut cases = Vec::new();
    let positions = [Pos::BeforeReport, Pos::AfterReport, Pos::AfterDoneActorNotReacted, Pos::AfterDoneActorReacted, Pos::AfterEverything];
    // the actor having reacted while the task has not ended *is* ActorFirst
    let valid = |p: Pos, o: Order| !(p == Pos::AfterDoneActorReacted && o == Order::TaskFirst);
    for (i, &p) in positions.iter().enumerate() {
        for o in [Order::ActorFirst, Order::TaskFirst] {
            if valid(p, o) {
                cases.push(Case { request_at: p, order: o, also_at: None });
            }
            if ctx.thorough() {
                for &p2 in &positions[i + 1..] {
                    if valid(p, o) && valid(p2, o) {
                        cases.push(Case { request_at: p, order: o, also_at: Some(p2) });
                    }
                }
            }
        }
    }
    ctx.bound("schedules", cases.len());
    ctx.add_states(cases.len() as u64);
    par_for_each(&cases, |c| exec(&ctx, *c));
    ctx.finish();
}
