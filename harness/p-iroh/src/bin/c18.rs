//! C18 Mapped addresses form a stable bijection — E0 (classification sweep) + E3 (all thread schedules of
//! concurrent get/lookup calls on the real `MappedAddrs`, scheduler gate inside `generate`, random host
//! bits owned through the `fill_bytes` seam so that collisions are forced).
use iroh::verif::c18::{Kind, Maps, classify};
use iroh_base::{CustomAddr, EndpointId, RelayUrl, SecretKey, TransportAddr};
use serde::{Deserialize, Serialize};
use std::collections::BTreeMap;
use std::net::{IpAddr, Ipv4Addr, Ipv6Addr, SocketAddr};
use std::str::FromStr;
use std::sync::{Arc, Mutex};
use vh_engine::thrsched::{self, Body};
use vh_engine::*;

// ---------------------------------------------------------------- reference: iroh's reserved range
// (documented in the module: ULA prefix fd, global id 15:070a:510b, subnets 0 / 1 / 3)
fn ref_kind(addr: SocketAddr) -> Kind {
    match addr.ip() {
        IpAddr::V4(_) => Kind::Ip,
        IpAddr::V6(a) => {
            let v = u128::from(a);
            if v >> 80 != 0xfd15_070a_510b {
                return Kind::Ip;
            }
            match (v >> 64) & 0xffff {
                0 => Kind::Mixed,
                1 => Kind::Relay,
                3 => Kind::Custom,
                _ => Kind::Ip,
            }
        }
    }
}

#[derive(Serialize, Deserialize, Clone, Debug)]
enum Case {
    Classify(String),
    Sched { map: u8, program: usize, script: usize, schedule: Vec<usize> },
}

fn classify_inputs() -> Vec<SocketAddr> {
    let mut out = vec![];
    let hosts: [[u8; 8]; 3] = [[0; 8], [0xff; 8], [1, 2, 3, 4, 5, 6, 7, 8]];
    for subnet in [0u8, 1, 3, 2, 4] {
        let base: [u8; 8] = [0xfd, 0x15, 0x07, 0x0a, 0x51, 0x0b, 0x00, subnet];
        for host in hosts {
            let mk = |p: [u8; 8]| {
                let mut b = [0u8; 16];
                b[..8].copy_from_slice(&p);
                b[8..].copy_from_slice(&host);
                Ipv6Addr::from(b)
            };
            for port in [0u16, 12345, 65535] {
                out.push(SocketAddr::new(mk(base).into(), port));
            }
            // every single-byte mutation of the 8 prefix bytes
            for pos in 0..8 {
                for val in 0..=255u8 {
                    if val != base[pos] {
                        let mut p = base;
                        p[pos] = val;
                        out.push(SocketAddr::new(mk(p).into(), 12345));
                    }
                }
            }
        }
    }
    // IPv4, v4-mapped and ordinary IPv6
    for a in [[0, 0, 0, 0], [127, 0, 0, 1], [10, 0, 0, 1], [253, 21, 7, 10], [255, 255, 255, 255], [192, 168, 1, 1]] {
        let v4 = Ipv4Addr::from(a);
        for port in [0u16, 12345] {
            out.push(SocketAddr::new(v4.into(), port));
            out.push(SocketAddr::new(v4.to_ipv6_mapped().into(), port));
            out.push(SocketAddr::new(v4.to_ipv6_compatible().into(), port));
        }
    }
    for s in ["::", "::1", "fe80::1", "fd00::1", "fd15:70a:510a:ffff:ffff:ffff:ffff:ffff", "fd15:70a:510c::", "2001:db8::1", "ff02::1", "fc15:70a:510b::1", "fd15:70a:510b:0:ffff:ffff:ffff:ffff"] {
        out.push(SocketAddr::new(Ipv6Addr::from_str(s).unwrap().into(), 12345));
    }
    out
}

fn run_classify(ctx: &Ctx, addr: SocketAddr) {
    let case = Case::Classify(addr.to_string());
    match quiet_catch(|| classify(addr)) {
        Err(p) => ctx.discrepancy(None, &format!("panic: {p}"), &case),
        Ok((kind, back)) => {
            let want = ref_kind(addr);
            if kind != want {
                ctx.discrepancy(None, &format!("{addr} classified as {kind:?}, reserved-range reference says {want:?}"), &case);
            } else if back.ip() != addr.ip() {
                ctx.discrepancy(None, &format!("{addr} classified as {kind:?} but carries address {back}"), &case);
            }
            let class = match addr.ip() {
                IpAddr::V4(_) => "ipv4".to_string(),
                IpAddr::V6(a) if a.to_ipv4_mapped().is_some() => "v4-mapped".to_string(),
                IpAddr::V6(a) => {
                    let o = a.octets();
                    if o[..6] == [0xfd, 0x15, 0x07, 0x0a, 0x51, 0x0b] {
                        match u16::from_be_bytes([o[6], o[7]]) {
                            n @ (0 | 1 | 3) => format!("reserved-prefix/subnet-{n}"),
                            _ => "reserved-prefix/other-subnet".to_string(),
                        }
                    } else if o[0] == 0xfd {
                        "other-ula".to_string()
                    } else {
                        "other-ipv6".to_string()
                    }
                }
            };
            ctx.eval(&format!("classify:{class}"), &format!("{kind:?}"));
        }
    }
}

// ---------------------------------------------------------------- E3: concurrent get / lookup
#[derive(Clone, Copy, Debug, PartialEq, Eq)]
enum TOp {
    Get(usize),
    /// reverse lookup of the address that the n-th value of the filler script produces
    LookupScripted(usize),
    /// reverse lookup of the address this thread's previous Get returned
    LookupOwn,
}

fn programs(thorough: bool) -> Vec<Vec<Vec<TOp>>> {
    use TOp::*;
    let mut v = vec![
        vec![vec![Get(0)], vec![Get(0)], vec![Get(1)]],
        vec![vec![Get(0)], vec![Get(1)], vec![LookupScripted(0)]],
        vec![vec![Get(0)], vec![Get(1)], vec![Get(2)]],
        vec![vec![Get(0)], vec![Get(0)], vec![LookupScripted(0)]],
    ];
    if thorough {
        v.extend([
            vec![vec![Get(0), LookupOwn], vec![Get(0), Get(1)], vec![Get(1), LookupScripted(0)]],
            vec![vec![Get(0), Get(1)], vec![Get(1), Get(0)], vec![LookupScripted(0), LookupScripted(1)]],
            vec![vec![Get(0), LookupOwn], vec![Get(1), LookupOwn], vec![Get(2), LookupOwn]],
        ]);
    }
    v
}

/// host-bit scripts handed out by the `fill_bytes` seam, in call order (after the script: fresh values)
fn scripts() -> Vec<Vec<u64>> {
    vec![
        vec![0xA1, 0xA1, 0xB2, 0xC3],       // second generate collides once
        vec![0xA1, 0xB2, 0xC3],             // no collision
        vec![0xA1, 0xA1, 0xA1, 0xB2, 0xB2, 0xA1, 0xC3], // repeated collisions, also with a later address
    ]
}

fn subnet_of(map: u8) -> u16 {
    match map {
        0 => 0,
        1 => 1,
        _ => 3,
    }
}
fn scripted_addr(map: u8, host: u64) -> SocketAddr {
    let v: u128 = (0xfd15_070a_510bu128 << 80) | ((subnet_of(map) as u128) << 64) | host as u128;
    SocketAddr::new(Ipv6Addr::from(v).into(), 12345)
}

#[derive(Clone, Debug, PartialEq, Eq, PartialOrd, Ord)]
enum Key {
    Ep(EndpointId),
    Relay(RelayUrl, EndpointId),
    Custom(CustomAddr),
}
fn key(map: u8, i: usize) -> Key {
    let id = SecretKey::from_bytes(&[i as u8 + 1; 32]).public();
    match map {
        0 => Key::Ep(id),
        // two relay keys share the url, two share the endpoint id: the pair is the key
        1 => match i {
            0 => Key::Relay(RelayUrl::from_str("https://r1.example./").unwrap(), SecretKey::from_bytes(&[1; 32]).public()),
            1 => Key::Relay(RelayUrl::from_str("https://r2.example./").unwrap(), SecretKey::from_bytes(&[1; 32]).public()),
            _ => Key::Relay(RelayUrl::from_str("https://r1.example./").unwrap(), SecretKey::from_bytes(&[2; 32]).public()),
        },
        _ => Key::Custom(CustomAddr::from_parts(7, &[i as u8; 4])),
    }
}
fn get(maps: &Maps, k: &Key) -> SocketAddr {
    match k {
        Key::Ep(id) => maps.get_endpoint(id),
        Key::Relay(u, id) => maps.get_relay(&(u.clone(), *id)),
        Key::Custom(c) => maps.get_custom(c),
    }
}
/// None: address not of this map's kind
fn lookup(maps: &Maps, map: u8, addr: SocketAddr) -> Option<Option<Key>> {
    match map {
        0 => maps.lookup_endpoint(addr).map(|o| o.map(Key::Ep)),
        1 => maps.lookup_relay(addr).map(|o| o.map(|(u, id)| Key::Relay(u, id))),
        _ => maps.lookup_custom(addr).map(|o| o.map(Key::Custom)),
    }
}
fn kind_of(map: u8) -> Kind {
    match map {
        0 => Kind::Mixed,
        1 => Kind::Relay,
        _ => Kind::Custom,
    }
}

#[derive(Debug, Clone)]
enum Obs {
    Got { thread: usize, key: usize, addr: SocketAddr },
    Looked { thread: usize, addr: SocketAddr, result: Option<Option<Key>> },
}

struct Shared {
    maps: Maps,
    log: Arc<Mutex<Vec<Obs>>>,
}

fn make_bodies(map: u8, program: &[Vec<TOp>], script: &[u64]) -> (Vec<Body>, Shared) {
    seams::reset_global();
    let script = script.to_vec();
    let mut n = 0usize;
    seams::set_filler(move |label, bytes| {
        if label == "mapped_addr.generate" {
            let v = script.get(n).copied().unwrap_or(0x1000 + n as u64);
            n += 1;
            bytes.copy_from_slice(&v.to_be_bytes());
        }
    });
    let maps = Maps::default();
    let log = Arc::new(Mutex::new(vec![]));
    let bodies = program
        .iter()
        .enumerate()
        .map(|(t, ops)| {
            let (maps, log, ops) = (maps.clone(), log.clone(), ops.clone());
            Box::new(move || {
                let mut own: Option<SocketAddr> = None;
                let n_ops = ops.len();
                for (oi, op) in ops.into_iter().enumerate() {
                    match op {
                        TOp::Get(k) => {
                            let addr = get(&maps, &key(map, k));
                            own = Some(addr);
                            log.lock().unwrap().push(Obs::Got { thread: t, key: k, addr });
                        }
                        TOp::LookupScripted(_) | TOp::LookupOwn => {
                            let addr = match op {
                                TOp::LookupScripted(i) => scripted_addr(map, SCRIPT_HEADS[i]),
                                _ => own.expect("LookupOwn after Get"),
                            };
                            let result = lookup(&maps, map, addr);
                            log.lock().unwrap().push(Obs::Looked { thread: t, addr, result });
                        }
                    }
                    // scheduling point between two operations of a thread (the end of the thread is one anyway)
                    if oi + 1 < n_ops {
                        thrsched::pause("op-done");
                    }
                }
            }) as Body
        })
        .collect();
    (bodies, Shared { maps, log })
}
/// host values that the scripts hand out first / second
const SCRIPT_HEADS: [u64; 2] = [0xA1, 0xB2];

/// Oracle on one finished execution. Returns (outcome summary, problems).
fn check_execution(map: u8, program: &[Vec<TOp>], x: &thrsched::Execution, sh: &Shared) -> (String, Vec<String>) {
    let mut problems = vec![];
    if x.deadlock {
        problems.push(format!("deadlock: threads {:?} blocked forever", x.blocked));
    }
    for (t, m) in &x.panics {
        problems.push(format!("thread {t} panicked: {m}"));
    }
    let log = sh.log.lock().unwrap().clone();
    let expected_ops: usize = program.iter().map(|p| p.len()).sum();
    if !x.deadlock && x.panics.is_empty() && log.len() != expected_ops {
        problems.push(format!("{} of {expected_ops} operations completed", log.len()));
    }
    // stability + injectivity + kind over all Get results (log order = completion order)
    let mut assigned: BTreeMap<usize, SocketAddr> = BTreeMap::new();
    let mut owner: BTreeMap<SocketAddr, usize> = BTreeMap::new();
    for o in &log {
        if let Obs::Got { thread, key: k, addr } = o {
            if classify(*addr).0 != kind_of(map) || ref_kind(*addr) != kind_of(map) {
                problems.push(format!("thread {thread}: get(key{k}) returned {addr}, not a {:?} address", kind_of(map)));
            }
            match assigned.get(k) {
                Some(prev) if prev != addr => problems.push(format!("key{k} was given {prev} and later {addr} (thread {thread}): the synthetic address changed")),
                _ => {}
            }
            assigned.entry(*k).or_insert(*addr);
            match owner.get(addr) {
                Some(other) if other != k => problems.push(format!("{addr} is shared by key{other} and key{k}")),
                _ => {}
            }
            owner.entry(*addr).or_insert(*k);
        }
    }
    // lookups performed by the threads: never a wrong key; the own address of a completed get is always found
    for (pos_l, o) in log.iter().enumerate() {
        if let Obs::Looked { thread, addr, result } = o {
            match result {
                None => problems.push(format!("thread {thread}: {addr} not recognised as a {:?} address", kind_of(map))),
                Some(None) => {
                    // allowed only if no get that returned this address had completed before ... the log is appended after
                    // the get returns, so a lookup logged *after* the Got entry of the same address must have found it
                    let got_before = log[..pos_l].iter().any(|e| matches!(e, Obs::Got { addr: a, .. } if a == addr));
                    if got_before {
                        problems.push(format!("thread {thread}: reverse lookup of {addr} found nothing although a get had already returned it"));
                    }
                }
                Some(Some(k)) => {
                    let want = owner.get(addr).map(|i| key(map, *i));
                    // the owner may not have logged yet (get still returning) — then the final state decides below
                    if let Some(w) = want {
                        if &w != k {
                            problems.push(format!("thread {thread}: reverse lookup of {addr} yields {k:?}, its key is {w:?}"));
                        }
                    }
                }
            }
        }
    }
    // final state (sequential, after all threads): every key keeps its address, reverse lookup is exact
    if !x.deadlock {
        let final_checks = quiet_catch(|| {
            let mut p = vec![];
            let nkeys = 3;
            let mut fin: BTreeMap<usize, SocketAddr> = BTreeMap::new();
            for k in 0..nkeys {
                if !assigned.contains_key(&k) {
                    continue;
                }
                let a = get(&sh.maps, &key(map, k));
                fin.insert(k, a);
                if assigned[&k] != a {
                    p.push(format!("key{k}: address {} during the run, {a} afterwards", assigned[&k]));
                }
                match lookup(&sh.maps, map, a) {
                    Some(Some(back)) if back == key(map, k) => {}
                    other => p.push(format!("reverse lookup of key{k}'s address {a} gives {other:?}")),
                }
                if map != 0 {
                    let want = match key(map, k) {
                        Key::Relay(u, id) => Some((TransportAddr::Relay(u), Some(id))),
                        Key::Custom(c) => Some((TransportAddr::Custom(c), None)),
                        Key::Ep(_) => None,
                    };
                    let got = sh.maps.to_transport_addr(a);
                    if got != want {
                        p.push(format!("to_transport_addr({a}) = {got:?}, expected {want:?}"));
                    }
                } else if sh.maps.to_transport_addr(a).is_some() {
                    p.push(format!("to_transport_addr({a}) of an endpoint-id address is Some"));
                }
            }
            for (k1, a1) in &fin {
                for (k2, a2) in &fin {
                    if k1 < k2 && a1 == a2 {
                        p.push(format!("key{k1} and key{k2} share {a1} in the final state"));
                    }
                }
            }
            // lookups seen during the run must agree with the final owner
            for o in &log {
                if let Obs::Looked { addr, result: Some(Some(k)), .. } = o {
                    match lookup(&sh.maps, map, *addr) {
                        Some(Some(f)) if &f == k => {}
                        other => p.push(format!("{addr} resolved to {k:?} during the run and to {other:?} afterwards")),
                    }
                }
            }
            p
        });
        match final_checks {
            Ok(p) => problems.extend(p),
            Err(m) => problems.push(format!("panic in final checks: {m}")),
        }
    }
    // generate calls = releases from the gate inside generate; more of them than keys means a collision forced a retry
    let distinct_keys = assigned.len();
    let generated = x.points.iter().filter(|p| p.gates[p.chosen] == "mapped_addr.generate").count();
    let collided = generated > distinct_keys;
    let blocked_seen = x.points.iter().any(|p| p.enabled.len() < program.len());
    let found = log.iter().filter(|o| matches!(o, Obs::Looked { result: Some(Some(_)), .. })).count();
    let missed = log.iter().filter(|o| matches!(o, Obs::Looked { result: Some(None), .. })).count();
    let outcome = format!(
        "keys={distinct_keys} collision-retry={collided} others-blocked-at-gate={blocked_seen} lookups(found/none)={}/{}",
        if found > 0 { "y" } else { "n" },
        if missed > 0 { "y" } else { "n" }
    );
    (outcome, problems)
}

fn main() {
    let ctx = Ctx::from_args("C18", Level::ModelChecking);
    vh_hooks::install();
    ctx.set_rule(
        "E0: every address of the classification domain against the reserved-range reference; \
         E3: every schedule (thread released next at each gate: thread start, inside generate under the map mutex, after each operation) \
         of each 3-thread program x host-bit script x map kind on the real MappedAddrs; \
         distinct = (input class | program, observed classification | keys/collision/blocking/lookup outcome)",
    );
    ctx.assume("threads only interleave at the gates (thread start, generate, end of each operation); between gates each thread runs alone");
    if let Some(case) = ctx.replay_case::<Case>() {
        match &case {
            Case::Classify(s) => run_classify(&ctx, s.parse().unwrap()),
            Case::Sched { map, program, script, schedule } => {
                let prog = programs(true)[*program].clone();
                let (bodies, sh) = make_bodies(*map, &prog, &scripts()[*script]);
                let x = thrsched::run(bodies, schedule);
                if let Some(d) = &x.diverged {
                    machinery_error(&format!("replay diverged: {d}"));
                }
                let (outcome, problems) = check_execution(*map, &prog, &x, &sh);
                ctx.eval(&format!("sched:map{map}:program{program}"), &outcome);
                for p in problems {
                    ctx.discrepancy(None, &p, &case);
                }
            }
        }
        ctx.finish();
    }
    // ---- E0
    let inputs = classify_inputs();
    ctx.bound("classification_inputs", inputs.len());
    par_for_each(&inputs, |a| run_classify(&ctx, *a));
    // ---- E3 (serial: one execution spans several OS threads and uses the process-global seam registry)
    let progs = programs(ctx.thorough());
    let scr = scripts();
    ctx.bound("programs", progs.len());
    ctx.bound("host_bit_scripts", scr.len());
    ctx.bound("maps", 3);
    let max_exec = ctx.pick(20_000u64, 400_000u64);
    let mut executions = 0u64;
    let mut points = 0u64;
    let mut per_program: Vec<String> = vec![];
    'outer: for map in 0..3u8 {
        for (pi, prog) in progs.iter().enumerate() {
            for (si, script) in scr.iter().enumerate() {
                // quick: endpoint-id map: every program with both colliding scripts (program 0 also without collision);
                // relay and custom maps (same generic code): programs 0 and 1 with the colliding script
                if !ctx.thorough() && ((map != 0 && (si != 0 || pi > 1)) || (map == 0 && si == 1 && pi != 0)) {
                    continue;
                }
                // thorough: the two-operation programs (4..) only on the endpoint-id map, one script each
                if pi >= 4 && (map != 0 || si != [0, 0, 0, 0, 0, 2, 1][pi]) {
                    continue;
                }
                let mut first_problem_reported = false;
                let (st, capped) = thrsched::explore(
                    &|| make_bodies(map, prog, script),
                    &mut |x, sh| {
                        let (outcome, problems) = check_execution(map, prog, x, &sh);
                        let case = Case::Sched { map, program: pi, script: si, schedule: x.choices() };
                        ctx.eval(&format!("sched:map{map}:program{pi}"), &outcome);
                        ctx.sample(&format!("sched:program{pi}:{outcome}"), &case);
                        if !problems.is_empty() && !first_problem_reported {
                            first_problem_reported = true;
                            ctx.discrepancy(None, &problems.join("; "), &case);
                        }
                    },
                    None,
                    max_exec,
                );
                per_program.push(format!("map{map}/program{pi}/script{si}: {} schedules, max {} decision points", st.executions, st.max_points));
                executions += st.executions;
                points += st.decision_points;
                if capped {
                    ctx.cap_hit(&format!("schedule cap {max_exec} for map {map} program {pi} script {si}"));
                }
                if ctx.violations() > 0 {
                    break 'outer;
                }
            }
        }
    }
    seams::clear_global();
    ctx.add_states(points);
    ctx.add_transitions(points);
    ctx.add_traces(executions);
    ctx.extra("schedules_executed", executions);
    ctx.extra("schedules_per_program", &per_program);
    ctx.min_outcomes(12);
    ctx.finish();
}
