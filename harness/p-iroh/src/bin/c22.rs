//! C22 Address resolution for a connect is answered exactly once and correctly — E1: BFS over
//! operation histories of the real `RemotePathState` (through `iroh::verif::c22::PathStateHarness`).
//!
//! Reference model (from the property statement only):
//!   * `has_path` — monotone: becomes true with the first address inserted / path opened, never false again;
//!   * a resolve request issued while `has_path` is answered Ok immediately; otherwise it is pending;
//!   * all pending requests are answered Ok by the operation that makes `has_path` true;
//!   * all pending requests are answered Err by a lookup-finished operation while `!has_path`;
//!   * no other operation answers anything; nothing is answered twice or dropped unanswered;
//!   * the real path set is non-empty iff `has_path`.
use iroh::address_lookup::AddressLookupFailed;
use iroh::verif::c22::{PathStateHarness, Status};
use iroh_base::{EndpointId, RelayUrl, SecretKey, TransportAddr};
use serde::{Deserialize, Serialize};
use std::collections::BTreeMap;
use std::net::SocketAddr;
use std::str::FromStr;
use std::time::Duration;
use tokio::sync::oneshot::{self, error::TryRecvError};
use vh_engine::*;

const KEY_PRUNE_EMPTIES: &str = "prune-drops-every-known-path";
const MAX_NON_RELAY_PATHS: usize = 30; // documented constants of the pruning rule, used only to attribute the known deviation
const MAX_INACTIVE: usize = 10;

#[derive(Serialize, Deserialize, Clone, Copy, Debug, PartialEq, Eq, Hash)]
enum Op {
    /// a connect asks for address resolution
    Resolve,
    /// insert_multiple with address set: 0 = {}, 1 = {a}, 2 = {a,b}, 3 = {relay}, 4 = {b}
    Insert(u8),
    /// same sets, but reported by an address-lookup service
    InsertLookup(u8),
    /// insert_multiple of p0..p(n-1) in one call (n = 29 | 30)
    Bulk(u8),
    /// insert_open_path(addr): 0 = a, 1 = b, 2 = relay, 3 = p0
    Open(u8),
    /// abandoned_path(addr), same numbering
    Abandon(u8),
    /// abandoned_path for each of p0..p29
    AbandonBulk,
    /// address_lookup_finished: 0 = Ok(()), 1 = Err(NoResults), 2 = Err(NoServiceConfigured)
    Finished(u8),
    /// prune_paths()
    Prune,
    /// the requester of the oldest still-unanswered resolve goes away (drops its receiver); the other pending
    /// requests must still be answered exactly once (seeded change C22-seed62: answering stopped at the first
    /// requester that had gone away)
    Cancel,
}

fn ip(port: u16) -> TransportAddr {
    TransportAddr::Ip(SocketAddr::from(([10, 0, 0, 1], port)))
}
fn bulk_addr(i: usize) -> TransportAddr {
    ip(1000 + i as u16)
}
fn named(i: u8) -> TransportAddr {
    match i {
        0 => ip(1),
        1 => ip(2),
        2 => TransportAddr::Relay(RelayUrl::from_str("https://relay.example./").unwrap()),
        _ => bulk_addr(0),
    }
}
fn set(i: u8) -> Vec<TransportAddr> {
    match i {
        0 => vec![],
        1 => vec![named(0)],
        2 => vec![named(0), named(1)],
        3 => vec![named(2)],
        _ => vec![named(1)],
    }
}
fn remote() -> EndpointId {
    SecretKey::from_bytes(&[7u8; 32]).public()
}

fn all_ops() -> Vec<Op> {
    let mut v = vec![Op::Resolve];
    for s in 0..5 {
        v.push(Op::Insert(s));
    }
    v.push(Op::InsertLookup(0));
    v.push(Op::InsertLookup(2));
    v.push(Op::Bulk(29));
    v.push(Op::Bulk(30));
    for a in 0..4 {
        v.push(Op::Open(a));
    }
    for a in 0..4 {
        v.push(Op::Abandon(a));
    }
    v.push(Op::AbandonBulk);
    for f in 0..3 {
        v.push(Op::Finished(f));
    }
    v.push(Op::Prune);
    v.push(Op::Cancel);
    v
}

#[derive(Clone, Copy, PartialEq, Eq, Debug)]
enum Answer {
    Pending,
    Ok,
    ErrNoResults,
    ErrNoService,
    ErrOther,
    /// the sender was dropped without an answer
    Dropped,
    /// the harness dropped this requester's receiver (no answer can be observed; still queued in the real object
    /// until the next emission)
    Cancelled,
}

struct Req {
    rx: oneshot::Receiver<Result<(), AddressLookupFailed>>,
    seen: Answer,
    /// model: has this request been answered, and how (true = Ok)
    model: Option<bool>,
}

fn observe(rx: &mut oneshot::Receiver<Result<(), AddressLookupFailed>>) -> Answer {
    match rx.try_recv() {
        Ok(Ok(())) => Answer::Ok,
        Ok(Err(AddressLookupFailed::NoResults { .. })) => Answer::ErrNoResults,
        Ok(Err(AddressLookupFailed::NoServiceConfigured { .. })) => Answer::ErrNoService,
        Ok(Err(_)) => Answer::ErrOther,
        Err(TryRecvError::Empty) => Answer::Pending,
        Err(TryRecvError::Closed) => Answer::Dropped,
    }
}

type Snap = Vec<(String, Status, Option<tokio::time::Instant>)>;
fn snapshot(h: &PathStateHarness) -> Snap {
    let mut s: Snap = h.snapshot().into_iter().map(|(a, st, t)| (format!("{a:?}"), st, t)).collect();
    s.sort_by(|x, y| x.0.cmp(&y.0));
    s
}
fn is_relay(name: &str) -> bool {
    name.starts_with("Relay")
}

/// Is "the real path set becomes empty" exactly what the *documented-but-deviating* prune does to
/// `pre` (the path set as it is when the operation's prune step starts)?  The deviation
/// (C23's: the prune keeps `len-10` most recent inactive paths instead of the 10 most recent) removes
/// every Unusable path and, when there are at most 10 inactive paths, every Inactive path as well.
fn deviation_empties(pre: &BTreeMap<String, Status>) -> bool {
    let non_relay = pre.iter().filter(|(n, _)| !is_relay(n)).count();
    if pre.len() < MAX_NON_RELAY_PATHS || non_relay < MAX_NON_RELAY_PATHS {
        return false;
    }
    let unusable = pre.values().filter(|s| **s == Status::Unusable).count();
    let inactive = pre.values().filter(|s| **s == Status::Inactive).count();
    non_relay == pre.len() && unusable + inactive == pre.len() && unusable != pre.len() && inactive <= MAX_INACTIVE
}

struct StepReport {
    class: String,
    outcome: String,
    /// (finding key, text)
    discrepancies: Vec<(Option<&'static str>, String)>,
}

struct Run {
    h: PathStateHarness,
    reqs: Vec<Req>,
    has_path: bool,
}

impl Run {
    fn new() -> Run {
        Run { h: PathStateHarness::new(remote()), reqs: vec![], has_path: false }
    }

    fn step(&mut self, op: Op) -> StepReport {
        let before: BTreeMap<String, Status> = snapshot(&self.h).into_iter().map(|(a, s, _)| (a, s)).collect();
        let model_had_path = self.has_path;
        let pending_before = self.reqs.iter().filter(|r| r.model.is_none()).count();
        // ---- model transition + what the path set looks like when the op's prune step starts ----
        let mut pre_prune = before.clone();
        let mut prunes = false;
        let mut inserted_any = false;
        let mut new_req = false;
        let mut finished = false;
        match op {
            Op::Resolve => new_req = true,
            Op::Insert(s) | Op::InsertLookup(s) => {
                for a in set(s) {
                    pre_prune.entry(format!("{a:?}")).or_insert(Status::Unknown);
                    inserted_any = true;
                }
                prunes = true;
            }
            Op::Bulk(n) => {
                for i in 0..n as usize {
                    pre_prune.entry(format!("{:?}", bulk_addr(i))).or_insert(Status::Unknown);
                }
                inserted_any = true;
                prunes = true;
            }
            Op::Open(a) => {
                pre_prune.insert(format!("{:?}", named(a)), Status::Open);
                inserted_any = true;
                prunes = true;
            }
            Op::Abandon(_) | Op::AbandonBulk => {}
            Op::Finished(_) => finished = true,
            Op::Prune => prunes = true,
            Op::Cancel => {}
        }
        if inserted_any {
            self.has_path = true;
        }
        // ---- real operation ----
        match op {
            Op::Resolve => {
                let rx = self.h.resolve_remote();
                self.reqs.push(Req { rx, seen: Answer::Pending, model: None });
            }
            Op::Insert(s) => self.h.insert_multiple(set(s), None),
            Op::InsertLookup(s) => self.h.insert_multiple(set(s), Some("scripted")),
            Op::Bulk(n) => self.h.insert_multiple((0..n as usize).map(bulk_addr).collect(), Some("bulk")),
            Op::Open(a) => self.h.insert_open_path(named(a)),
            Op::Abandon(a) => self.h.abandoned_path(named(a)),
            Op::AbandonBulk => {
                for i in 0..30 {
                    self.h.abandoned_path(bulk_addr(i));
                }
            }
            Op::Finished(0) => self.h.address_lookup_finished(Ok(())),
            Op::Finished(1) => self.h.address_lookup_finished(Err(n0_error::e!(AddressLookupFailed::NoResults { errors: vec![] }))),
            Op::Finished(_) => self.h.address_lookup_finished(Err(n0_error::e!(AddressLookupFailed::NoServiceConfigured))),
            Op::Prune => self.h.prune_paths(),
            Op::Cancel => {
                if let Some(r) = self.reqs.iter_mut().find(|r| r.seen == Answer::Pending) {
                    let (tx, closed) = oneshot::channel();
                    drop(tx);
                    drop(std::mem::replace(&mut r.rx, closed));
                    r.seen = Answer::Cancelled;
                }
            }
        }
        // ---- model: expected answers of this step ----
        for r in self.reqs.iter_mut() {
            if r.model.is_none() {
                if self.has_path {
                    r.model = Some(true);
                } else if finished {
                    r.model = Some(false);
                }
            }
        }
        // ---- observe ----
        let mut d: Vec<(Option<&'static str>, String)> = vec![];
        let mut newly = vec![];
        for (i, r) in self.reqs.iter_mut().enumerate() {
            let was = r.seen;
            if was == Answer::Pending {
                r.seen = observe(&mut r.rx);
            } else {
                // an answered oneshot cannot be answered again (the sender is consumed); nothing to observe
            }
            let now = r.seen;
            if was == Answer::Pending && now != Answer::Pending {
                newly.push(now);
            }
            let want = r.model;
            let ok = match (want, now) {
                (_, Answer::Cancelled) => true,
                (None, Answer::Pending) => true,
                (Some(true), Answer::Ok) => true,
                (Some(false), Answer::ErrNoResults | Answer::ErrNoService | Answer::ErrOther) => true,
                _ => false,
            };
            if !ok && was == Answer::Pending {
                d.push((
                    None,
                    format!(
                        "after {op:?}: request #{i} is {now:?}, the statement requires {}",
                        match want {
                            None => "it to stay pending (no path known, no lookup finished)",
                            Some(true) => "Ok (a path is known)",
                            Some(false) => "a failure (lookup finished, no path known)",
                        }
                    ),
                ));
            }
        }
        let empty = self.h.is_empty();
        let snap_empty = snapshot(&self.h).is_empty();
        if empty != snap_empty {
            d.push((None, format!("after {op:?}: is_empty()={empty} but the path map has {} entries", snapshot(&self.h).len())));
        }
        let mut deviated = false;
        if empty == self.has_path {
            if empty && prunes && !pre_prune.is_empty() && deviation_empties(&pre_prune) {
                // model + named deviation: the prune step of this op removed every path
                d.push((
                    Some(KEY_PRUNE_EMPTIES),
                    format!(
                        "{op:?} (its prune step) removed all {} known paths ({} unusable, {} inactive): a remote with known paths lost all of them",
                        pre_prune.len(),
                        pre_prune.values().filter(|s| **s == Status::Unusable).count(),
                        pre_prune.values().filter(|s| **s == Status::Inactive).count()
                    ),
                ));
                deviated = true;
                self.has_path = false; // continue with the deviated model
            } else {
                d.push((
                    None,
                    format!("after {op:?}: real path set empty={empty}, model has_path={} (before: {} paths)", self.has_path, before.len()),
                ));
            }
        }
        if self.h.resolve_requests_is_empty() != self.reqs.iter().all(|r| r.model.is_some()) {
            d.push((None, format!("after {op:?}: resolve_requests_is_empty() disagrees with the unanswered receivers")));
        }
        // ---- classes ----
        let kind = match op {
            Op::Resolve => "resolve",
            Op::Insert(0) | Op::InsertLookup(0) => "insert-empty",
            Op::Insert(_) | Op::InsertLookup(_) => "insert-addrs",
            Op::Bulk(_) => "insert-bulk",
            Op::Open(_) => "open-path",
            Op::Abandon(_) | Op::AbandonBulk => "abandon",
            Op::Finished(0) => "lookup-finished-ok",
            Op::Finished(1) => "lookup-finished-noresults",
            Op::Finished(_) => "lookup-finished-noservice",
            Op::Prune => "prune",
            Op::Cancel => "cancel",
        };
        let _ = new_req;
        let class = format!(
            "{kind}|{}|{}",
            if model_had_path { "path-known" } else { "no-path" },
            if pending_before > 0 { "requests-pending" } else { "none-pending" }
        );
        let mut outcome = if newly.is_empty() {
            if op == Op::Resolve { "queued".to_string() } else { "no-answer".to_string() }
        } else {
            let mut kinds: Vec<String> = newly.iter().map(|a| format!("{a:?}")).collect();
            kinds.sort();
            kinds.dedup();
            format!("answered:{}", kinds.join("+"))
        };
        if deviated {
            outcome.push_str("+ALL-PATHS-PRUNED");
        }
        StepReport { class, outcome, discrepancies: d }
    }

    /// canonical state: sorted (addr, status, rank of abandon time among inactive), #unanswered requests, model flag
    fn key(&self) -> String {
        let snap = snapshot(&self.h);
        let mut times: Vec<tokio::time::Instant> = snap.iter().filter_map(|s| s.2).collect();
        times.sort();
        times.dedup();
        let mut k = String::new();
        for (a, s, t) in &snap {
            let rank = t.map(|t| times.iter().position(|x| *x == t).unwrap() as i64).unwrap_or(-1);
            k.push_str(&format!("{a}:{s:?}:{rank};"));
        }
        // Why this is enough: future behaviour of RemotePathState depends on the path map (addresses, status, relative
        // order of abandon times — pruning only compares them) and on the queue of unanswered senders (all are treated
        // alike; only their number matters). `sources` and metrics are never read by the operations explored.
        // the queue of unanswered senders as the real object holds it: live (L) and cancelled (C) requesters in order
        let queue: String = self.reqs.iter().filter(|r| r.model.is_none()).map(|r| if r.seen == Answer::Cancelled { 'C' } else { 'L' }).collect();
        k.push_str(&format!("|queue={queue}|has_path={}", self.has_path));
        k
    }
}

/// Executes a history on a fresh real object under a paused clock (1 ms between operations so that
/// abandon times are ordered deterministically). Returns per-step reports and the final key.
fn execute(history: &[Op]) -> Result<(Vec<StepReport>, String), String> {
    quiet_catch(|| {
        let rt = tokio::runtime::Builder::new_current_thread().enable_time().start_paused(true).build().unwrap();
        rt.block_on(async {
            let mut run = Run::new();
            let mut reports = vec![];
            for op in history {
                reports.push(run.step(*op));
                tokio::time::advance(Duration::from_millis(1)).await;
            }
            (reports, run.key())
        })
    })
}

fn main() {
    let ctx = Ctx::from_args("C22", Level::ModelChecking);
    ctx.set_rule(
        "BFS over operation histories of the real RemotePathState (fresh object + full re-execution per history); \
         two histories are merged when path map (addr,status,abandon-time rank), number of unanswered requests and model flag coincide; \
         one evaluation = the last operation of one history, class = op kind x model situation, outcome = answers observed",
    );
    ctx.assume("lookup completion is delivered to the path state by the actor exactly as address_lookup_finished (actor level not explored here)");
    if let Some(case) = ctx.replay_case::<Vec<Op>>() {
        match execute(&case) {
            Ok((reports, _)) => {
                for r in reports {
                    ctx.eval(&r.class, &r.outcome);
                    for (k, what) in r.discrepancies {
                        ctx.discrepancy(k, &what, &case);
                    }
                }
            }
            Err(p) => ctx.discrepancy(None, &format!("panic: {p}"), &case),
        }
        ctx.finish();
    }
    let depth = ctx.pick(8, 10);
    let max_resolves = ctx.pick(3, 4);
    ctx.bound("max_history_length", depth);
    ctx.bound("max_resolve_requests_per_history", max_resolves);
    ctx.bound("addresses", "a, b (ip), one relay url, bulk p0..p29 (ip)");
    let ops = all_ops();
    ctx.bound("alphabet_size", ops.len());
    let menu = move |h: &[Op]| -> Vec<Op> {
        let resolves = h.iter().filter(|o| **o == Op::Resolve).count();
        let bulks = h.iter().filter(|o| matches!(o, Op::Bulk(_))).count();
        ops.iter().copied().filter(|o| !(*o == Op::Resolve && resolves >= max_resolves) && !(matches!(o, Op::Bulk(_)) && bulks >= 2)).collect()
    };
    let exec = |h: &[Op]| -> Option<Step<String>> {
        match execute(h) {
            Ok((reports, key)) => {
                if let Some(r) = reports.last() {
                    ctx.eval(&r.class, &r.outcome);
                    ctx.sample(&format!("{} => {}", r.class, r.outcome), h);
                    for (k, what) in &r.discrepancies {
                        ctx.discrepancy(*k, what, h);
                    }
                    // a state reached through an unexplained discrepancy is not expanded
                    if r.discrepancies.iter().any(|(k, _)| k.is_none()) {
                        return Some(Step { key, expand: false });
                    }
                }
                Some(Step { key, expand: true })
            }
            Err(p) => {
                ctx.discrepancy(None, &format!("panic: {p}"), h);
                None
            }
        }
    };
    let (states, done) = bfs_histories(&ctx, &menu, &exec, depth, ctx.pick(400_000, 3_000_000));
    ctx.extra("distinct_states", states);
    ctx.extra("depth_completed", done);
    // both sides of every decision: immediate/queued resolve, Ok/Err answers, empty/non-empty inserts, finished with/without paths
    ctx.min_outcomes(20);
    ctx.finish();
}
