
pub mod e5_router;
