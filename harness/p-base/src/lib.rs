pub mod common;
