//! C35 Dual-stack host resolution yields all addresses, errs only if both fail — E2-lite under tokio's paused clock.
//!
//! The real `DnsResolver::resolve_host_all` stream runs on a paused current-thread runtime against a scripted
//! `Resolver`: each family lookup answers with 0..3 addresses / fails after a latency, or never answers (-> the
//! per-lookup timeout). Enumerated: both families' behaviours (hence every completion order incl. ties), the URL host
//! kind, and the consumer's polling pattern (eager, slow, very slow, stop after k items).
//!
//! Oracle (statement): the Ok items are exactly (as a multiset) the addresses of the lookups that succeeded; for an
//! eager consumer every address is yielded at the virtual time its lookup completed ("as each lookup completes");
//! at most one Err item and nothing after it; a combined error only if both lookups failed (and it carries both
//! errors); a no-response error only if no address was yielded and not both failed; IP-literal hosts yield exactly that
//! address at once without any lookup. Converse directions the statement leaves open (e.g. ending silently although
//! both failed) are recorded in the outcome, not judged.
use iroh_dns::dns::{BoxIter, DnsError, DnsResolver, Resolver, TxtRecordData};
use n0_future::StreamExt;
use n0_future::boxed::BoxFuture;
use serde::{Deserialize, Serialize};
use std::collections::HashSet;
use std::net::{IpAddr, Ipv4Addr, Ipv6Addr};
use std::sync::{Arc, Mutex};
use std::time::Duration;
use vh_engine::*;

const TIMEOUT_MS: u64 = 1000;

#[derive(Serialize, Deserialize, Clone, Copy, Debug, PartialEq, Eq)]
enum Fam {
    Ans { lat: u64, n: usize },
    Err { lat: u64 },
    Never,
}
#[derive(Serialize, Deserialize, Clone, Copy, Debug, PartialEq, Eq)]
enum Consumer {
    Eager,
    /// sleeps this long before every `next()`
    Slow(u64),
    /// eager, drops the stream after k items
    Take(usize),
}
#[derive(Serialize, Deserialize, Clone, Debug)]
struct Case {
    url: String,
    v4: Fam,
    v6: Fam,
    consumer: Consumer,
}

#[derive(Default, Debug)]
struct Log {
    v4_calls: Vec<(u64, String)>,
    v6_calls: Vec<(u64, String)>,
}
#[derive(Debug)]
struct Scripted {
    t0: tokio::time::Instant,
    v4: Fam,
    v6: Fam,
    log: Arc<Mutex<Log>>,
}
fn ms_since(t0: tokio::time::Instant) -> u64 {
    t0.elapsed().as_millis() as u64
}
fn v4_addr(i: usize) -> Ipv4Addr {
    Ipv4Addr::new(10, 0, 4, i as u8)
}
fn v6_addr(i: usize) -> Ipv6Addr {
    Ipv6Addr::new(0xfd00, 0, 0, 0, 0, 0, 6, i as u16)
}
async fn act<T>(f: Fam, tag: &str, mk: impl FnOnce(usize) -> T) -> Result<T, DnsError> {
    match f {
        Fam::Ans { lat, n } => {
            tokio::time::sleep(Duration::from_millis(lat)).await;
            Ok(mk(n))
        }
        Fam::Err { lat } => {
            tokio::time::sleep(Duration::from_millis(lat)).await;
            Err(DnsError::from(n0_error::anyerr!(tag.to_string())))
        }
        Fam::Never => std::future::pending().await,
    }
}
impl Resolver for Scripted {
    fn lookup_ipv4(&self, host: String) -> BoxFuture<Result<BoxIter<Ipv4Addr>, DnsError>> {
        self.log.lock().unwrap().v4_calls.push((ms_since(self.t0), host));
        let f = self.v4;
        Box::pin(async move { act(f, "v4-failed", |n| Box::new((0..n).map(v4_addr).collect::<Vec<_>>().into_iter()) as BoxIter<Ipv4Addr>).await })
    }
    fn lookup_ipv6(&self, host: String) -> BoxFuture<Result<BoxIter<Ipv6Addr>, DnsError>> {
        self.log.lock().unwrap().v6_calls.push((ms_since(self.t0), host));
        let f = self.v6;
        Box::pin(async move { act(f, "v6-failed", |n| Box::new((0..n).map(v6_addr).collect::<Vec<_>>().into_iter()) as BoxIter<Ipv6Addr>).await })
    }
    fn lookup_txt(&self, _host: String) -> BoxFuture<Result<BoxIter<TxtRecordData>, DnsError>> {
        unreachable!("no TXT lookups in this driver")
    }
    fn clear_cache(&self) {}
    fn reset(&self) -> Box<dyn Resolver> {
        unreachable!("reset is not used by this driver")
    }
}

#[derive(Debug, Clone, PartialEq, Eq, Hash)]
enum Item {
    Addr(IpAddr),
    Both(String, String),
    NoResponse,
    MissingHost,
    OtherErr(String),
}
fn tag(e: &DnsError) -> String {
    match e {
        DnsError::Timeout { .. } => "timeout".into(),
        DnsError::Resolve { source, .. } => source.to_string(),
        other => format!("other:{other}"),
    }
}
struct Obs {
    /// (virtual ms, item)
    items: Vec<(u64, Item)>,
    /// stream ended (returned None) — false when the consumer dropped it
    ended: bool,
    log: Log,
    panic: Option<String>,
}

fn execute(case: &Case) -> Obs {
    let log = Arc::new(Mutex::new(Log::default()));
    let log2 = log.clone();
    let c = case.clone();
    let r = quiet_catch(move || {
        let rt = tokio::runtime::Builder::new_current_thread().enable_all().start_paused(true).build().unwrap();
        rt.block_on(async move {
            let t0 = tokio::time::Instant::now();
            let resolver = DnsResolver::custom(Scripted { t0, v4: c.v4, v6: c.v6, log: log2 });
            let url = url::Url::parse(&c.url).expect("generator produces valid URLs");
            let stream = resolver.resolve_host_all(&url, Duration::from_millis(TIMEOUT_MS));
            tokio::pin!(stream);
            let mut items = Vec::new();
            let mut ended = false;
            loop {
                match c.consumer {
                    Consumer::Slow(gap) => tokio::time::sleep(Duration::from_millis(gap)).await,
                    Consumer::Take(k) if items.len() >= k => break,
                    _ => {}
                }
                // a stream that never produces anything again would hang the paused runtime: bound the wait
                let next = match tokio::time::timeout(Duration::from_millis(100_000), stream.next()).await {
                    Ok(n) => n,
                    Err(_) => {
                        items.push((ms_since(t0), Item::OtherErr("stream stalled for 100 s".into())));
                        break;
                    }
                };
                let at = ms_since(t0);
                match next {
                    None => {
                        ended = true;
                        break;
                    }
                    Some(Ok(ip)) => items.push((at, Item::Addr(ip))),
                    Some(Err(DnsError::ResolveBoth { ipv4, ipv6, .. })) => items.push((at, Item::Both(tag(&ipv4), tag(&ipv6)))),
                    Some(Err(DnsError::NoResponse { .. })) => items.push((at, Item::NoResponse)),
                    Some(Err(DnsError::MissingHost { .. })) => items.push((at, Item::MissingHost)),
                    Some(Err(e)) => items.push((at, Item::OtherErr(e.to_string()))),
                }
                if items.len() > 64 {
                    items.push((at, Item::OtherErr("more than 64 items".into())));
                    break;
                }
            }
            (items, ended)
        })
    });
    let log = std::mem::take(&mut *log.lock().unwrap());
    match r {
        Ok((items, ended)) => Obs { items, ended, log, panic: None },
        Err(p) => Obs { items: vec![], ended: false, log, panic: Some(p) },
    }
}

/// (completion ms relative to the first poll, Ok(addresses) | Err(tag))
fn fam_result(f: Fam, v4: bool) -> (u64, Result<Vec<IpAddr>, String>) {
    match f {
        Fam::Ans { lat, n } if lat < TIMEOUT_MS => (lat, Ok((0..n).map(|i| if v4 { IpAddr::V4(v4_addr(i)) } else { IpAddr::V6(v6_addr(i)) }).collect())),
        Fam::Err { lat } if lat < TIMEOUT_MS => (lat, Err(if v4 { "v4-failed" } else { "v6-failed" }.into())),
        _ => (TIMEOUT_MS, Err("timeout".into())),
    }
}

static SEEN: Mutex<Option<HashSet<u64>>> = Mutex::new(None);

fn judge(case: &Case, o: &Obs) -> Result<(String, String), String> {
    if let Some(p) = &o.panic {
        return Err(format!("panic: {}", p.replace('\n', " ")));
    }
    let url = url::Url::parse(&case.url).unwrap();
    let kind = match url.host() {
        None => "no-host",
        Some(url::Host::Ipv4(_)) => "v4-literal",
        Some(url::Host::Ipv6(_)) => "v6-literal",
        Some(url::Host::Domain(_)) => "domain",
    };
    let addrs: Vec<(u64, IpAddr)> = o.items.iter().filter_map(|(t, i)| if let Item::Addr(a) = i { Some((*t, *a)) } else { None }).collect();
    let errs: Vec<&Item> = o.items.iter().map(|i| &i.1).filter(|i| !matches!(i, Item::Addr(_))).collect();
    if let Some(Item::OtherErr(e)) = errs.iter().find(|e| matches!(e, Item::OtherErr(_))) {
        return Err(format!("unexpected item: {e}"));
    }
    if errs.len() > 1 {
        return Err(format!("{} error items: {errs:?}", errs.len()));
    }
    if !errs.is_empty() && matches!(o.items.last().unwrap().1, Item::Addr(_)) {
        return Err("an address was yielded after the error item".into());
    }
    let complete = o.ended; // the consumer saw the end of the stream
    let class;
    let outcome;
    match kind {
        "v4-literal" | "v6-literal" => {
            let want: IpAddr = match url.host().unwrap() {
                url::Host::Ipv4(a) => IpAddr::V4(a),
                url::Host::Ipv6(a) => IpAddr::V6(a),
                _ => unreachable!(),
            };
            class = format!("{kind} consumer:{}", consumer_class(case.consumer));
            if !o.log.v4_calls.is_empty() || !o.log.v6_calls.is_empty() {
                return Err("an IP-literal host triggered a DNS lookup".into());
            }
            if !errs.is_empty() {
                return Err(format!("IP-literal host yielded an error: {errs:?}"));
            }
            if addrs.iter().any(|a| a.1 != want) || addrs.len() > 1 {
                return Err(format!("IP-literal host {want} yielded {addrs:?}"));
            }
            if complete && addrs.len() != 1 {
                return Err(format!("IP-literal host {want} yielded {} addresses", addrs.len()));
            }
            outcome = format!("literal yielded x{}", addrs.len());
        }
        "no-host" => {
            class = "no-host".to_string();
            if !addrs.is_empty() {
                return Err(format!("URL without host yielded addresses {addrs:?}"));
            }
            if errs.iter().any(|e| matches!(e, Item::Both(..) | Item::NoResponse)) {
                // both kinds of error are conditioned on the lookups; with no host there are none
                return Err(format!("URL without host ended with {errs:?}"));
            }
            outcome = format!("{errs:?}");
        }
        _ => {
            let (c4, r4) = fam_result(case.v4, true);
            let (c6, r6) = fam_result(case.v6, false);
            let both_failed = r4.is_err() && r6.is_err();
            class = format!(
                "domain v4:{} v6:{} order:{} consumer:{}",
                fam_class(&r4),
                fam_class(&r6),
                if c4 < c6 { "v4-first" } else if c6 < c4 { "v6-first" } else { "tie" },
                consumer_class(case.consumer)
            );
            // lookups: at most one per family, for the URL's domain
            let dom = url.host_str().unwrap().to_string();
            if o.log.v4_calls.len() > 1 || o.log.v6_calls.len() > 1 {
                return Err(format!("{} v4 and {} v6 lookups for one resolution", o.log.v4_calls.len(), o.log.v6_calls.len()));
            }
            if o.log.v4_calls.iter().chain(&o.log.v6_calls).any(|c| c.1 != dom) {
                return Err(format!("looked up {:?} instead of {dom}", o.log));
            }
            // expected addresses
            let mut want: Vec<(u64, IpAddr)> = Vec::new();
            // completion times are relative to the first poll of the stream = the time the lookups were started
            let base = o.log.v4_calls.first().or(o.log.v6_calls.first()).map(|c| c.0).unwrap_or(0);
            if let Ok(a) = &r4 {
                want.extend(a.iter().map(|x| (base + c4, *x)));
            }
            if let Ok(a) = &r6 {
                want.extend(a.iter().map(|x| (base + c6, *x)));
            }
            let mut got_set: Vec<IpAddr> = addrs.iter().map(|a| a.1).collect();
            let mut want_set: Vec<IpAddr> = want.iter().map(|a| a.1).collect();
            got_set.sort();
            want_set.sort();
            if complete {
                if got_set != want_set {
                    return Err(format!("yielded addresses {got_set:?}, the lookups returned {want_set:?}"));
                }
            } else {
                // dropped early: what was yielded must be a sub-multiset without duplicates
                let mut rest = want_set.clone();
                for g in &got_set {
                    match rest.iter().position(|w| w == g) {
                        Some(p) => {
                            rest.remove(p);
                        }
                        None => return Err(format!("yielded {g} which no lookup returned (or twice); lookups returned {want_set:?}")),
                    }
                }
            }
            // "as each lookup completes": an eager consumer receives every address at its lookup's completion time
            if matches!(case.consumer, Consumer::Eager | Consumer::Take(_)) {
                for (t, a) in &addrs {
                    let w = want.iter().find(|w| w.1 == *a).unwrap();
                    if *t != w.0 {
                        return Err(format!("address {a} yielded at {t} ms, its lookup completed at {} ms", w.0));
                    }
                }
            } else {
                for (t, a) in &addrs {
                    let w = want.iter().find(|w| w.1 == *a).unwrap();
                    if *t < w.0 {
                        return Err(format!("address {a} yielded at {t} ms, before its lookup completed at {} ms", w.0));
                    }
                }
            }
            // error items
            match errs.first() {
                Some(Item::Both(e4, e6)) => {
                    if !both_failed {
                        return Err(format!("combined error although not both lookups failed (v4 {r4:?}, v6 {r6:?})"));
                    }
                    let mut got = vec![e4.clone(), e6.clone()];
                    let mut wantt = vec![r4.clone().unwrap_err(), r6.clone().unwrap_err()];
                    got.sort();
                    wantt.sort();
                    if got != wantt {
                        return Err(format!("combined error carries {got:?}, the lookups failed with {wantt:?}"));
                    }
                    if !addrs.is_empty() {
                        return Err("combined error after addresses were yielded".into());
                    }
                    outcome = "combined error".to_string();
                }
                Some(Item::NoResponse) => {
                    if !addrs.is_empty() {
                        return Err(format!("no-response error although {} addresses were yielded", addrs.len()));
                    }
                    if both_failed {
                        return Err("no-response error although both lookups failed (statement: combined error)".into());
                    }
                    if !want_set.is_empty() {
                        return Err(format!("no-response error although the lookups returned {want_set:?}"));
                    }
                    outcome = "no-response error".to_string();
                }
                Some(Item::MissingHost) => return Err("missing-host error for a domain host".into()),
                Some(other) => return Err(format!("unexpected item {other:?}")),
                None => {
                    outcome = if !complete {
                        format!("dropped after {} addresses", addrs.len())
                    } else if both_failed {
                        "ended silently although both lookups failed (open in the statement)".to_string()
                    } else if addrs.is_empty() {
                        "ended silently with nothing yielded (open in the statement)".to_string()
                    } else {
                        format!("{} addresses then end", addrs.len())
                    };
                }
            }
        }
    }
    // state bookkeeping: distinct prefixes of the observed item history
    {
        use std::hash::{Hash, Hasher};
        let mut g = SEEN.lock().unwrap();
        let set = g.get_or_insert_with(HashSet::new);
        let mut h = std::collections::hash_map::DefaultHasher::new();
        kind.hash(&mut h);
        for (t, it) in &o.items {
            (t, it).hash(&mut h);
            set.insert(h.clone().finish());
        }
        o.ended.hash(&mut h);
        set.insert(h.finish());
    }
    Ok((class, outcome))
}

fn fam_class(r: &Result<Vec<IpAddr>, String>) -> String {
    match r {
        Ok(a) => format!("ok{}", a.len().min(2)),
        Err(t) if t == "timeout" => "timeout".into(),
        Err(_) => "err".into(),
    }
}
fn consumer_class(c: Consumer) -> &'static str {
    match c {
        Consumer::Eager => "eager",
        Consumer::Slow(g) if g < TIMEOUT_MS => "slow",
        Consumer::Slow(_) => "very-slow",
        Consumer::Take(_) => "take-k",
    }
}

fn run_case(ctx: &Ctx, case: &Case) {
    let o = execute(case);
    ctx.add_traces(1);
    ctx.add_transitions(o.items.len() as u64 + 1);
    match judge(case, &o) {
        Ok((class, outcome)) => ctx.eval(&class, &outcome),
        Err(msg) => ctx.discrepancy(None, &msg, case),
    }
}

fn gen_cases(ctx: &Ctx) -> Vec<Case> {
    let lats: Vec<u64> = ctx.pick(vec![0, 10, 20], vec![0, 10, 20, 500, 999]);
    let ns: Vec<usize> = ctx.pick(vec![0, 1, 2], vec![0, 1, 2, 3]);
    let mut fams = vec![Fam::Never];
    for &lat in &lats {
        fams.push(Fam::Err { lat });
        for &n in &ns {
            fams.push(Fam::Ans { lat, n });
        }
    }
    let consumers: Vec<Consumer> = ctx.pick(
        vec![Consumer::Eager, Consumer::Slow(15), Consumer::Slow(5000), Consumer::Take(1), Consumer::Take(2)],
        vec![Consumer::Eager, Consumer::Slow(5), Consumer::Slow(15), Consumer::Slow(600), Consumer::Slow(5000), Consumer::Take(0), Consumer::Take(1), Consumer::Take(2), Consumer::Take(3)],
    );
    let mut cases = Vec::new();
    for dom in ["https://relay.example.com./path", "http://localhost:3340"] {
        for &v4 in &fams {
            for &v6 in &fams {
                for &consumer in &consumers {
                    if dom.starts_with("http:") && !matches!(consumer, Consumer::Eager) {
                        continue;
                    }
                    cases.push(Case { url: dom.into(), v4, v6, consumer });
                }
            }
        }
    }
    for url in ["http://1.2.3.4:80/", "https://0.0.0.0/", "https://[::1]/", "https://[2001:db8::1]:8443/x", "http://0x7f.1/", "data:text/plain,hi", "mailto:a@example.com", "unix:/run/x.sock"] {
        for (v4, v6) in [(Fam::Ans { lat: 0, n: 1 }, Fam::Ans { lat: 0, n: 1 }), (Fam::Err { lat: 0 }, Fam::Never)] {
            for &consumer in &consumers {
                cases.push(Case { url: url.into(), v4, v6, consumer });
            }
        }
    }
    ctx.bound("family_behaviours", fams.len());
    ctx.bound("latencies_ms", &lats);
    ctx.bound("answer_sizes", &ns);
    ctx.bound("consumers", format!("{consumers:?}"));
    ctx.bound("per_lookup_timeout_ms", TIMEOUT_MS);
    cases
}

fn main() {
    let ctx = Ctx::from_args("C35", Level::ModelChecking);
    vh_hooks::install();
    ctx.set_rule("every pair of family behaviours {answer with 0..2 (thorough 3) addresses or error after 0/10/20 (thorough +500/999) ms, never answer -> 1000 ms timeout} for the v4 and v6 lookup (hence all completion orders and ties) x consumer {eager, sleeps 15 ms / 5 s before every next(), stops after 1 / 2 items; thorough more} x host kind {two domains, IPv4 literals incl. 0x7f.1, IPv6 literals, three host-less URLs}; one execution of the real resolve_host_all stream per environment on a paused current-thread runtime; a state is a distinct prefix of the observed timed item history; distinct = distinct (model class, outcome) pairs");
    ctx.assume("latencies equal to the timeout are not explored (answer/timeout tie is not addressed by the statement)");
    ctx.assume("what a host-less URL yields, and whether the stream must end with an error when both lookups failed / nothing was yielded, is not stated: recorded as outcome only");
    ctx.min_outcomes(12);
    if let Some(c) = ctx.replay_case::<Case>() {
        let o = execute(&c);
        println!("observed: items={:?} ended={} lookups={:?} panic={:?}", o.items, o.ended, o.log, o.panic);
        match judge(&c, &o) {
            Ok((class, outcome)) => println!("holds: {class} => {outcome}"),
            Err(msg) => ctx.discrepancy(None, &msg, &c),
        }
        ctx.finish();
    }
    let cases = gen_cases(&ctx);
    for c in cases.iter().step_by((cases.len() / 11).max(1)) {
        ctx.sample(&format!("{c:?}").chars().take(60).collect::<String>(), c);
    }
    par_for_each(&cases, |c| run_case(&ctx, c));
    let states = SEEN.lock().unwrap().as_ref().map(|s| s.len()).unwrap_or(0) as u64;
    ctx.add_states(states + 1);
    ctx.finish();
}
