//! C02 Key and address encodings round-trip and parse totally — E0 exhaustive small-scope enumeration.
use iroh_base::{CustomAddr, EndpointAddr, PublicKey, RelayUrl, SecretKey, Signature, TransportAddr};
use serde::{Deserialize, Serialize};
use std::str::FromStr;
use vh_engine::*;

#[derive(Serialize, Deserialize, Clone, Debug)]
enum Case {
    KeyBytes(String),           // hex of 32 bytes
    KeyStr(String),             // string offered to PublicKey::from_str / from_z32 / SecretKey::from_str
    Sig { k: usize, m: usize, k2: usize, m2: usize },
    SigFlip { bit: usize },
    SigLen(usize),
    Custom { id: u64, len: usize },
    CustomStr(String),
    CustomBin(String),
    AddrSet(Vec<usize>),
    AddrMut { set: Vec<usize>, json: bool, pos: usize, val: u16 }, // val 256 = truncate at pos
    Relay(String),
    SecretLen(usize),
}

// ---------- independent reference codecs ----------
fn ref_hex(s: &str) -> Option<Vec<u8>> {
    let b = s.as_bytes();
    if b.len() % 2 != 0 {
        return None;
    }
    let d = |c: u8| match c {
        b'0'..=b'9' => Some(c - b'0'),
        b'a'..=b'f' => Some(c - b'a' + 10),
        _ => None,
    };
    b.chunks(2).map(|p| Some(d(p[0])? << 4 | d(p[1])?)).collect()
}
fn ref_b32(s: &[u8], alphabet: &[u8; 32]) -> Option<Vec<u8>> {
    // unpadded, MSB first, trailing bits must be zero, only canonical lengths
    let mut acc: u64 = 0;
    let mut bits = 0;
    let mut out = Vec::new();
    for &c in s {
        let v = alphabet.iter().position(|&a| a == c)? as u64;
        acc = (acc << 5) | v;
        bits += 5;
        if bits >= 8 {
            bits -= 8;
            out.push((acc >> bits) as u8);
            acc &= (1 << bits) - 1;
        }
    }
    if acc != 0 || bits >= 5 {
        return None;
    }
    Some(out)
}
const B32: &[u8; 32] = b"ABCDEFGHIJKLMNOPQRSTUVWXYZ234567";
const Z32: &[u8; 32] = b"ybndrfg8ejkmcpqxot1uwisza345h769";

fn ref_point_valid(b: &[u8; 32]) -> bool {
    curve25519_dalek::edwards::CompressedEdwardsY(*b).decompress().is_some()
}
/// reference for PublicKey::from_str: 64 chars => lowercase hex; else base32 (case-insensitive) of exactly 32 bytes
fn ref_key_from_str(s: &str) -> Option<[u8; 32]> {
    let bytes = if s.len() == 64 {
        ref_hex(s)?
    } else {
        let up = s.to_ascii_uppercase();
        ref_b32(up.as_bytes(), B32)?
    };
    let arr: [u8; 32] = bytes.try_into().ok()?;
    Some(arr)
}

fn secrets() -> Vec<SecretKey> {
    (0u8..4).map(|i| SecretKey::from_bytes(&[i.wrapping_mul(37).wrapping_add(1); 32])).collect()
}
fn messages() -> Vec<Vec<u8>> {
    vec![vec![], vec![0], b"hello".to_vec(), vec![0xff; 64], b"hellp".to_vec()]
}
fn taddrs() -> Vec<TransportAddr> {
    vec![
        TransportAddr::Relay(RelayUrl::from_str("https://relay.example.com./").unwrap()),
        TransportAddr::Relay(RelayUrl::from_str("http://10.0.0.1:3340/path?a=b").unwrap()),
        TransportAddr::Ip("1.2.3.4:5".parse().unwrap()),
        TransportAddr::Ip("0.0.0.0:0".parse().unwrap()),
        TransportAddr::Ip("[::1]:65535".parse().unwrap()),
        TransportAddr::Ip("[fe80::1%3]:7".parse().unwrap()),
        TransportAddr::Custom(CustomAddr::from_parts(0, &[])),
        TransportAddr::Custom(CustomAddr::from_parts(u64::MAX, &[7u8; 30])),
        TransportAddr::Custom(CustomAddr::from_parts(0x20, &[9u8; 31])),
    ]
}

fn inspect_key(k: &PublicKey) {
    let _ = format!("{k} {k:?} {}", k.fmt_short());
    let _ = k.as_verifying_key();
    let _ = k.to_z32();
    let _ = k.as_bytes();
}

fn check_key_accepted(ctx: &Ctx, case: &Case, k: &PublicKey, bytes: &[u8; 32]) -> Result<(), String> {
    if k.as_bytes() != bytes {
        return Err("accepted key does not carry the offered bytes".into());
    }
    inspect_key(k);
    let hex = k.to_string();
    if PublicKey::from_str(&hex).ok().as_ref() != Some(k) {
        return Err("hex round trip".into());
    }
    let b32 = data_encoding::BASE32_NOPAD.encode(bytes);
    if PublicKey::from_str(&b32).ok().as_ref() != Some(k) || PublicKey::from_str(&b32.to_lowercase()).ok().as_ref() != Some(k) {
        return Err("base32 round trip".into());
    }
    if PublicKey::from_z32(&k.to_z32()).ok().as_ref() != Some(k) {
        return Err("z32 round trip".into());
    }
    let pc = postcard::to_stdvec(k).map_err(|e| e.to_string())?;
    if pc != bytes.to_vec() || postcard::from_bytes::<PublicKey>(&pc).ok().as_ref() != Some(k) {
        return Err("postcard round trip".into());
    }
    let js = serde_json::to_string(k).map_err(|e| e.to_string())?;
    if serde_json::from_str::<PublicKey>(&js).ok().as_ref() != Some(k) {
        return Err("json round trip".into());
    }
    let _ = (ctx, case);
    Ok(())
}

fn run_case(ctx: &Ctx, case: &Case) {
    let r = quiet_catch(|| run_case_inner(ctx, case));
    match r {
        Ok(Ok((class, outcome))) => ctx.eval(&class, &outcome),
        Ok(Err(msg)) => ctx.discrepancy(None, &msg, case),
        Err(p) => ctx.discrepancy(None, &format!("panic: {p}"), case),
    }
}

fn run_case_inner(ctx: &Ctx, case: &Case) -> Result<(String, String), String> {
    match case {
        Case::KeyBytes(h) => {
            let bytes: [u8; 32] = unhex(h).try_into().unwrap();
            let want = ref_point_valid(&bytes);
            let got = PublicKey::from_bytes(&bytes);
            let got2 = PublicKey::try_from(&bytes[..]);
            let got3 = PublicKey::try_from(&bytes);
            let got4 = postcard::from_bytes::<PublicKey>(&bytes);
            let got5 = serde_json::from_str::<PublicKey>(&format!("\"{}\"", hex(&bytes)));
            let got6 = PublicKey::from_z32(&data_encoding_z32(&bytes));
            let got7 = PublicKey::from_str(&data_encoding::BASE32_NOPAD.encode(&bytes));
            let all = [got.is_ok(), got2.is_ok(), got3.is_ok(), got4.is_ok(), got5.is_ok(), got6.is_ok(), got7.is_ok()];
            if all.iter().any(|&a| a != want) {
                return Err(format!("acceptance {all:?} differs from curve-point validity {want} for {h}"));
            }
            if let Ok(k) = got {
                check_key_accepted(ctx, case, &k, &bytes)?;
                // equal bytes => equal keys, consistent ordering
                if got2.unwrap() != k || got4.unwrap() != k || got5.unwrap() != k || got6.unwrap() != k || got7.unwrap() != k {
                    return Err("constructors disagree".into());
                }
            }
            Ok(("key-bytes".into(), if want { "valid-point accepted" } else { "invalid-point rejected" }.into()))
        }
        Case::KeyStr(s) => {
            let model = ref_key_from_str(s);
            let want = model.filter(ref_point_valid);
            let got = PublicKey::from_str(s).ok();
            if got.map(|k| *k.as_bytes()) != want {
                return Err(format!("PublicKey::from_str({s:?}) = {got:?}, reference {want:?}"));
            }
            if let Some(k) = got {
                inspect_key(&k);
            }
            // z32
            let zmodel = ref_b32(s.as_bytes(), Z32).and_then(|b| <[u8; 32]>::try_from(b).ok()).filter(ref_point_valid);
            let zgot = PublicKey::from_z32(s).ok();
            if zgot.map(|k| *k.as_bytes()) != zmodel {
                return Err(format!("PublicKey::from_z32({s:?}) = {zgot:?}, reference {zmodel:?}"));
            }
            // secret key: same text syntax, any 32 bytes
            let sgot = SecretKey::from_str(s).ok().map(|k| k.to_bytes());
            if sgot != model {
                return Err(format!("SecretKey::from_str({s:?}) accepted={} reference={}", sgot.is_some(), model.is_some()));
            }
            // JSON path of PublicKey uses from_str
            let js = serde_json::to_string(s).unwrap();
            let jgot = serde_json::from_str::<PublicKey>(&js).ok();
            if jgot.map(|k| *k.as_bytes()) != want {
                return Err("json string path disagrees with from_str reference".into());
            }
            let class = match (model.is_some(), want.is_some(), zmodel.is_some()) {
                (_, true, _) => "text:valid-key",
                (true, false, _) => "text:decodes-but-not-a-point",
                (false, _, true) => "text:z32-valid",
                _ => "text:malformed",
            };
            Ok((class.into(), if want.is_some() || zmodel.is_some() { "accepted" } else { "rejected" }.into()))
        }
        Case::Sig { k, m, k2, m2 } => {
            let ks = secrets();
            let ms = messages();
            let sig = ks[*k].sign(&ms[*m]);
            let ok = ks[*k2].public().verify(&ms[*m2], &sig).is_ok();
            let want = k == k2 && ms[*m] == ms[*m2];
            if ok != want {
                return Err(format!("verify = {ok}, expected {want}"));
            }
            // signature encodings
            let b = sig.to_bytes();
            if Signature::from_bytes(&b) != sig || Signature::try_from(&b[..]).map_err(|e| e.to_string())? != sig {
                return Err("signature bytes round trip".into());
            }
            let pc = postcard::to_stdvec(&sig).unwrap();
            if postcard::from_bytes::<Signature>(&pc).map_err(|e| e.to_string())? != sig {
                return Err("signature postcard round trip".into());
            }
            let js = serde_json::to_string(&sig).unwrap();
            if serde_json::from_str::<Signature>(&js).map_err(|e| e.to_string())? != sig {
                return Err("signature json round trip".into());
            }
            let _ = format!("{sig} {sig:?}");
            Ok(("sig".into(), if want { "verifies" } else { "rejected" }.into()))
        }
        Case::SigFlip { bit } => {
            let ks = secrets();
            let msg = b"hello";
            let mut b = ks[0].sign(msg).to_bytes();
            b[bit / 8] ^= 1 << (bit % 8);
            let sig = Signature::from_bytes(&b);
            let _ = format!("{sig} {sig:?}");
            if ks[0].public().verify(msg, &sig).is_ok() {
                return Err(format!("signature with bit {bit} flipped verifies"));
            }
            Ok(("sig-bitflip".into(), "rejected".into()))
        }
        Case::SigLen(n) => {
            let v = vec![3u8; *n];
            let got = Signature::try_from(&v[..]).is_ok();
            if got != (*n == 64) {
                return Err(format!("Signature::try_from(len {n}) ok={got}"));
            }
            let gotp = postcard::from_bytes::<Signature>(&v);
            if gotp.is_ok() != (*n >= 64) {
                return Err(format!("postcard Signature from {n} bytes ok={}", gotp.is_ok()));
            }
            Ok(("sig-len".into(), if got { "accepted" } else { "rejected" }.into()))
        }
        Case::SecretLen(n) => {
            let v: Vec<u8> = (0..*n).map(|i| i as u8).collect();
            let got = SecretKey::try_from(&v[..]);
            if got.is_ok() != (*n == 32) {
                return Err(format!("SecretKey::try_from(len {n})"));
            }
            if let Ok(k) = got {
                let b = k.to_bytes();
                if b.to_vec() != v {
                    return Err("secret bytes round trip".into());
                }
                let h = hex(&b);
                if SecretKey::from_str(&h).map_err(|e| e.to_string())?.to_bytes() != b {
                    return Err("secret hex round trip".into());
                }
                let b32 = data_encoding::BASE32_NOPAD.encode(&b).to_lowercase();
                if SecretKey::from_str(&b32).map_err(|e| e.to_string())?.to_bytes() != b {
                    return Err("secret base32 round trip".into());
                }
                let pc = postcard::to_stdvec(&k).unwrap();
                if postcard::from_bytes::<SecretKey>(&pc).map_err(|e| e.to_string())?.to_bytes() != b {
                    return Err("secret postcard round trip".into());
                }
                let js = serde_json::to_string(&k).unwrap();
                if serde_json::from_str::<SecretKey>(&js).map_err(|e| e.to_string())?.to_bytes() != b {
                    return Err("secret json round trip".into());
                }
                let _ = format!("{k:?}");
                // public key derived is a valid point and signs/verifies
                let p = k.public();
                if !ref_point_valid(p.as_bytes()) {
                    return Err("derived public key invalid".into());
                }
            }
            Ok(("secret-len".into(), if *n == 32 { "accepted" } else { "rejected" }.into()))
        }
        Case::Custom { id, len } => {
            let data: Vec<u8> = (0..*len).map(|i| (i as u8).wrapping_mul(7).wrapping_add(*id as u8)).collect();
            let a = CustomAddr::from_parts(*id, &data);
            if a.id() != *id || a.data() != &data[..] {
                return Err("accessors".into());
            }
            let s = a.to_string();
            let b = CustomAddr::from_str(&s).map_err(|e| format!("from_str({s}): {e}"))?;
            let bin = a.to_vec();
            if bin.len() != 8 + len {
                return Err("to_vec length".into());
            }
            let c = CustomAddr::from_bytes(&bin).map_err(|e| e.to_string())?;
            let pc = postcard::to_stdvec(&a).unwrap();
            let d: CustomAddr = postcard::from_bytes(&pc).map_err(|e| e.to_string())?;
            let js = serde_json::to_string(&a).unwrap();
            let e: CustomAddr = serde_json::from_str(&js).map_err(|e| e.to_string())?;
            let f: CustomAddr = (*id, &data[..]).into();
            use std::hash::{Hash, Hasher};
            let h = |x: &CustomAddr| {
                let mut s = std::collections::hash_map::DefaultHasher::new();
                x.hash(&mut s);
                s.finish()
            };
            for (name, x) in [("string", &b), ("binary", &c), ("postcard", &d), ("json", &e), ("tuple", &f)] {
                if x != &a || x.cmp(&a) != std::cmp::Ordering::Equal || h(x) != h(&a) || x.data() != a.data() || x.id() != a.id() {
                    return Err(format!("{name} round trip differs (eq/ord/hash) for id={id:x} len={len}"));
                }
                let _ = format!("{x} {x:?} {x:#?}");
            }
            Ok((format!("custom:{}", if *len <= 30 { "inline" } else { "heap" }), "roundtrip".into()))
        }
        Case::CustomStr(s) => {
            // reference: split at first '_', id = hex u64 (from_str_radix semantics), data = lowercase hex
            let want = s.split_once('_').and_then(|(i, d)| {
                let id = u64::from_str_radix(i, 16).ok()?;
                let data = ref_hex(d)?;
                Some((id, data))
            });
            let got = CustomAddr::from_str(s).ok();
            if got.as_ref().map(|a| (a.id(), a.data().to_vec())) != want {
                return Err(format!("CustomAddr::from_str({s:?}) = {got:?}, reference {want:?}"));
            }
            if let Some(a) = &got {
                let _ = format!("{a} {a:?}");
                let again = CustomAddr::from_str(&a.to_string()).map_err(|e| e.to_string())?;
                if &again != a {
                    return Err("display/parse not idempotent".into());
                }
            }
            Ok(("custom-str".into(), if want.is_some() { "accepted" } else { "rejected" }.into()))
        }
        Case::CustomBin(h) => {
            let b = unhex(h);
            let got = CustomAddr::from_bytes(&b).ok();
            if got.is_some() != (b.len() >= 8) {
                return Err("from_bytes acceptance".into());
            }
            if let Some(a) = got {
                if a.to_vec() != b {
                    return Err("binary round trip".into());
                }
            }
            Ok(("custom-bin".into(), if b.len() >= 8 { "accepted" } else { "rejected" }.into()))
        }
        Case::AddrSet(set) => {
            let t = taddrs();
            let id = secrets()[1].public();
            let a = EndpointAddr::from_parts(id, set.iter().map(|&i| t[i].clone()));
            let pc = postcard::to_stdvec(&a).unwrap();
            let b: EndpointAddr = postcard::from_bytes(&pc).map_err(|e| e.to_string())?;
            let js = serde_json::to_string(&a).unwrap();
            let c: EndpointAddr = serde_json::from_str(&js).map_err(|e| e.to_string())?;
            if a != c {
                return Err(format!("EndpointAddr json round trip differs: {a:?} vs {c:?}"));
            }
            if a != b {
                // named deviation: serde's binary form of SocketAddrV6 is (ip, port) only
                let strip = |x: &EndpointAddr| {
                    EndpointAddr::from_parts(
                        x.id,
                        x.addrs.iter().map(|t| match t {
                            TransportAddr::Ip(std::net::SocketAddr::V6(v6)) => {
                                TransportAddr::Ip(std::net::SocketAddr::V6(std::net::SocketAddrV6::new(*v6.ip(), v6.port(), 0, 0)))
                            }
                            o => o.clone(),
                        }),
                    )
                };
                if strip(&a) == b {
                    ctx.discrepancy(Some("ipv6-scope-flowinfo-dropped-by-binary-serde"), &format!("postcard round trip of {a:?} yields {b:?}"), case);
                    return Ok((format!("addr-set:{}", set.len()), "scope-dropped".into()));
                }
                return Err(format!("EndpointAddr postcard round trip differs: {a:?} vs {b:?}"));
            }
            if a.ip_addrs().count() + a.relay_urls().count() + a.addrs.iter().filter(|x| x.is_custom()).count() != a.addrs.len() {
                return Err("accessors do not partition".into());
            }
            for x in &a.addrs {
                let _ = format!("{x} {x:?}");
                // each transport addr alone round-trips too
                let js = serde_json::to_string(x).unwrap();
                if &serde_json::from_str::<TransportAddr>(&js).map_err(|e| e.to_string())? != x {
                    return Err("TransportAddr json".into());
                }
            }
            let _ = format!("{a:?} {}", a.is_empty());
            Ok((format!("addr-set:{}", set.len()), "roundtrip".into()))
        }
        Case::AddrMut { set, json, pos, val } => {
            let t = taddrs();
            let id = secrets()[1].public();
            let a = EndpointAddr::from_parts(id, set.iter().map(|&i| t[i].clone()));
            let mut bytes = if *json { serde_json::to_vec(&a).unwrap() } else { postcard::to_stdvec(&a).unwrap() };
            if *pos >= bytes.len() {
                return Ok(("addr-mut".into(), "out-of-range".into()));
            }
            if *val == 256 {
                bytes.truncate(*pos);
            } else {
                bytes[*pos] = *val as u8;
            }
            let got: Option<EndpointAddr> = if *json { serde_json::from_slice(&bytes).ok() } else { postcard::from_bytes(&bytes).ok() };
            match got {
                Some(b) => {
                    // whatever was accepted must be safe to inspect and be a fixed point of re-encoding
                    let _ = format!("{b:?}");
                    for x in &b.addrs {
                        let _ = format!("{x} {x:?}");
                    }
                    inspect_key(&b.id);
                    if !ref_point_valid(b.id.as_bytes()) {
                        return Err("deserialized EndpointAddr carries an invalid key".into());
                    }
                    // (json is the lossless form; the binary form's IPv6 scope loss is the known finding above)
                    let re = serde_json::to_vec(&b).unwrap();
                    let c: EndpointAddr = serde_json::from_slice(&re).map_err(|e| e.to_string())?;
                    if c != b {
                        return Err("accepted mutated value is not a fixed point".into());
                    }
                    Ok(("addr-mut".into(), if b == a { "accepted-same" } else { "accepted-different" }.into()))
                }
                None => Ok(("addr-mut".into(), "rejected".into())),
            }
        }
        Case::Relay(s) => {
            let got = RelayUrl::from_str(s).ok();
            let want = url::Url::parse(s).ok();
            if got.as_ref().map(|u| u.as_str().to_string()) != want.as_ref().map(|u| u.as_str().to_string()) {
                return Err("RelayUrl::from_str differs from Url::parse".into());
            }
            if let Some(u) = got {
                let _ = format!("{u} {u:?}");
                if RelayUrl::from_str(&u.to_string()).ok().as_ref() != Some(&u) {
                    return Err("RelayUrl display round trip".into());
                }
                let js = serde_json::to_string(&u).unwrap();
                if serde_json::from_str::<RelayUrl>(&js).ok().as_ref() != Some(&u) {
                    return Err("RelayUrl json".into());
                }
                let pc = postcard::to_stdvec(&u).unwrap();
                if postcard::from_bytes::<RelayUrl>(&pc).ok().as_ref() != Some(&u) {
                    return Err("RelayUrl postcard".into());
                }
                let back: url::Url = u.clone().into();
                if RelayUrl::from(back) != u {
                    return Err("RelayUrl <-> Url".into());
                }
            }
            Ok(("relay-url".into(), if want.is_some() { "accepted" } else { "rejected" }.into()))
        }
    }
}

fn data_encoding_z32(b: &[u8]) -> String {
    // independent z-base-32 encoder
    let mut out = String::new();
    let mut acc: u32 = 0;
    let mut bits = 0;
    for &x in b {
        acc = (acc << 8) | x as u32;
        bits += 8;
        while bits >= 5 {
            bits -= 5;
            out.push(Z32[((acc >> bits) & 31) as usize] as char);
        }
        acc &= (1 << bits) - 1;
    }
    if bits > 0 {
        out.push(Z32[((acc << (5 - bits)) & 31) as usize] as char);
    }
    out
}

fn gen_cases(ctx: &Ctx) -> Vec<Case> {
    let mut cases = Vec::new();
    // --- key material ---
    let ymax: u32 = ctx.pick(1024, 8192);
    for y in 0..ymax {
        for sign in [0u8, 0x80] {
            let mut b = [0u8; 32];
            b[0] = y as u8;
            b[1] = (y >> 8) as u8;
            b[31] |= sign;
            cases.push(Case::KeyBytes(hex(&b)));
        }
    }
    // high patterns: y = 2^255 - 19 + k (non-canonical encodings of k) and p-1-k
    for k in 0u8..19 {
        for sign in [0u8, 0x80] {
            let mut b = [0xffu8; 32];
            b[0] = 0xed + k;
            b[31] = 0x7f | sign;
            cases.push(Case::KeyBytes(hex(&b)));
            let mut c = [0xffu8; 32];
            c[0] = 0xec - k;
            c[31] = 0x7f | sign;
            cases.push(Case::KeyBytes(hex(&c)));
        }
    }
    // the eight small-order points
    for h in [
        "0100000000000000000000000000000000000000000000000000000000000000",
        "ecffffffffffffffffffffffffffffffffffffffffffffffffffffffffffff7f",
        "0000000000000000000000000000000000000000000000000000000000000080",
        "0000000000000000000000000000000000000000000000000000000000000000",
        "c7176a703d4dd84fba3c0b760d10670f2a2053fa2c39ccc64ec7fd7792ac037a",
        "c7176a703d4dd84fba3c0b760d10670f2a2053fa2c39ccc64ec7fd7792ac03fa",
        "26e8958fc2b227b045c3f489f2ef98f0d5dfac05d3c63339b13802886d53fc05",
        "26e8958fc2b227b045c3f489f2ef98f0d5dfac05d3c63339b13802886d53fc85",
    ] {
        cases.push(Case::KeyBytes(h.into()));
    }
    for s in secrets() {
        cases.push(Case::KeyBytes(hex(s.public().as_bytes())));
        // every single-byte change of the last and first byte of a real key
        let base = *s.public().as_bytes();
        for pos in [0usize, 15, 31] {
            for v in 0..=255u8 {
                let mut b = base;
                b[pos] = v;
                cases.push(Case::KeyBytes(hex(&b)));
            }
        }
    }
    // --- strings ---
    let fills: [&str; 6] = ["a", "F", "z", "!", "é", "a7"];
    for len in 0..=130usize {
        for f in fills {
            let s: String = f.chars().cycle().take(len).collect();
            cases.push(Case::KeyStr(s));
        }
    }
    let keys: Vec<PublicKey> = secrets().iter().take(2).map(|s| s.public()).collect();
    let subst: Vec<char> = if ctx.thorough() {
        (0u8..128).map(|c| c as char).chain(['é', 'ß', '€', '😀']).collect()
    } else {
        "0aAfFgGzZ27189=_ \u{0}~ybYé€".chars().collect()
    };
    for k in &keys {
        let forms = [
            k.to_string(),
            data_encoding::BASE32_NOPAD.encode(k.as_bytes()),
            data_encoding::BASE32_NOPAD.encode(k.as_bytes()).to_lowercase(),
            k.to_z32(),
            k.to_string().to_uppercase(),
        ];
        for f in forms {
            cases.push(Case::KeyStr(f.clone()));
            let chars: Vec<char> = f.chars().collect();
            for pos in 0..chars.len() {
                for &c in &subst {
                    let mut v = chars.clone();
                    v[pos] = c;
                    cases.push(Case::KeyStr(v.into_iter().collect()));
                }
                // deletion and duplication at pos
                let mut v = chars.clone();
                v.remove(pos);
                cases.push(Case::KeyStr(v.into_iter().collect()));
                let mut v = chars.clone();
                v.insert(pos, chars[pos]);
                cases.push(Case::KeyStr(v.into_iter().collect()));
            }
        }
    }
    // text forms of invalid points
    for h in ["0200000000000000000000000000000000000000000000000000000000000000"] {
        cases.push(Case::KeyStr(h.into()));
        cases.push(Case::KeyStr(data_encoding::BASE32_NOPAD.encode(&unhex(h))));
        cases.push(Case::KeyStr(data_encoding_z32(&unhex(h))));
    }
    // --- signatures ---
    for k in 0..4 {
        for m in 0..5 {
            for k2 in 0..4 {
                for m2 in 0..5 {
                    cases.push(Case::Sig { k, m, k2, m2 });
                }
            }
        }
    }
    for bit in 0..512 {
        cases.push(Case::SigFlip { bit });
    }
    for n in 0..=130 {
        cases.push(Case::SigLen(n));
    }
    for n in 0..=70 {
        cases.push(Case::SecretLen(n));
    }
    // --- custom addrs ---
    // every length 0..=70 (inline/heap cutoff at 30) and every length around each point where a narrower integer
    // type would wrap (u8: 256, 512, 1024; u16: 65536) — a truncating cast before the cutoff comparison
    // (seeded change C02-seed19) is only visible there
    let mut lens: Vec<usize> = (0..=70).collect();
    for base in [256usize, 512, 1024, 65536] {
        lens.extend(base - 3..=base + 34);
    }
    for id in [0u64, 1, 0xff, 1 << 32, u64::MAX] {
        for &len in &lens {
            cases.push(Case::Custom { id, len });
        }
    }
    let seeds = ["0_", "ff_00ff", "ffffffffffffffff_0102030405060708090a0b0c0d0e0f101112131415161718191a1b1c1d1e1f"];
    let csub: Vec<char> = (0u8..128).map(|c| c as char).chain(['é']).collect();
    for s in seeds {
        cases.push(Case::CustomStr(s.into()));
        let chars: Vec<char> = s.chars().collect();
        for pos in 0..chars.len().min(ctx.pick(24, 200)) {
            for &c in &csub {
                let mut v = chars.clone();
                v[pos] = c;
                cases.push(Case::CustomStr(v.into_iter().collect()));
            }
            let mut v = chars.clone();
            v.remove(pos);
            cases.push(Case::CustomStr(v.into_iter().collect()));
        }
    }
    for s in ["", "_", "__", "1", "+1_00", "-1_00", "10000000000000000_00", "0_0", "0_0G", "0x1_00", " 1_00", "1 _00", "1_00 ", "1_00_00", "_00", "F_AA", "f_aa"] {
        cases.push(Case::CustomStr(s.into()));
    }
    for n in 0..=20 {
        cases.push(Case::CustomBin(hex(&vec![0xabu8; n])));
    }
    // --- endpoint addrs ---
    let subsets = subsets_up_to(9, 3);
    for s in &subsets {
        cases.push(Case::AddrSet(s.clone()));
    }
    let mut_sets: Vec<Vec<usize>> = if ctx.thorough() { subsets.iter().filter(|s| s.len() <= 2).cloned().collect() } else { vec![vec![], vec![0, 2], vec![4, 7], vec![1, 5, 8]] };
    for s in mut_sets {
        for json in [false, true] {
            let t = taddrs();
            let a = EndpointAddr::from_parts(secrets()[1].public(), s.iter().map(|&i| t[i].clone()));
            let n = if json { serde_json::to_vec(&a).unwrap().len() } else { postcard::to_stdvec(&a).unwrap().len() };
            for pos in 0..n {
                let vals: Vec<u16> = if ctx.thorough() || !json { (0..=256).collect() } else { vec![0, b'"' as u16, b'0' as u16, b'}' as u16, 0xff, 256] };
                for val in vals {
                    cases.push(Case::AddrMut { set: s.clone(), json, pos, val });
                }
            }
        }
    }
    // --- relay urls ---
    for s in [
        "https://relay.example.com./", "http://localhost:3340", "https://[::1]:443/x?y=z#f", "relay.example.com", "", "https://", "http://a b/",
        "https://exa mple.com", "HTTPS://EXAMPLE.COM", "file:///etc/passwd", "https://é.example/", "https://example.com:99999/", "x:", "://", "https://user:pw@host/",
    ] {
        cases.push(Case::Relay(s.into()));
    }
    cases
}

fn main() {
    let ctx = Ctx::from_args("C02", Level::Exploration);
    ctx.set_rule("exhaustive product of small alphabets: key bytes (low y values x sign, non-canonical y, small-order points, byte sweeps of real keys), every length 0..130 x 6 fill classes and every single-char substitution/deletion/duplication of the hex/base32/z32 text forms, signature cross product + all 512 bit flips, CustomAddr ids x lengths 0..70 x 5 encodings, EndpointAddr subsets <=3 of 9 addrs x {postcard,json} + every single-byte mutation/truncation; distinct = distinct (input class, outcome) pairs");
    ctx.assume("curve-point validity oracle = curve25519_dalek decompress (independent of iroh-base's ed25519_dalek path)");
    ctx.min_outcomes(12);
    if let Some(c) = ctx.replay_case::<Case>() {
        run_case(&ctx, &c);
        ctx.finish();
    }
    let cases = gen_cases(&ctx);
    for c in cases.iter().step_by((cases.len() / 10).max(1)) {
        ctx.sample(&format!("{c:?}").chars().take(12).collect::<String>(), c);
    }
    par_for_each(&cases, |c| run_case(&ctx, c));
    ctx.finish();
}
