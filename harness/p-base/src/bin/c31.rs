//! C31 Publishing and resolving endpoint info preserves it — E0 exhaustive small-scope enumeration.
//!
//! Every endpoint info of a finite product domain (address sets x user-data strings x keys) is
//! published through the two public paths
//!   (a) `EndpointInfo::to_pkarr_signed_packet` -> wire bytes -> `SignedPacket::from_bytes`
//!       -> `EndpointInfo::from_pkarr_signed_packet`
//!   (b) `EndpointInfo::to_txt_strings` -> one DNS TXT record per string (`TxtRecordData`)
//!       -> `EndpointInfo::from_txt_lookup` (records offered in publish order and reversed)
//! and the resolved value is compared with the *inputs* the case was built from: endpoint id,
//! address set, user data. Values that do not encode (string > 255 bytes, packet > 1000 bytes)
//! are outside the statement and only counted.
use iroh_base::{CustomAddr, EndpointId, RelayUrl, SecretKey, TransportAddr};
use iroh_dns::dns::TxtRecordData;
use iroh_dns::endpoint_info::{EndpointData, EndpointInfo, UserData};
use iroh_dns::pkarr::SignedPacket;
use serde::{Deserialize, Serialize};
use std::collections::BTreeSet;
use std::str::FromStr;
use vh_engine::*;

#[derive(Serialize, Deserialize, Clone, Debug)]
struct Case {
    key: usize,
    /// indices into `addr_table()`
    addrs: Vec<usize>,
    user: Option<String>,
}

fn secrets() -> Vec<SecretKey> {
    vec![SecretKey::from_bytes(&[7u8; 32]), SecretKey::from_bytes(&[0xa5u8; 32])]
}

fn long_relay(n: usize) -> String {
    // a URL whose text form is exactly n bytes
    let base = "https://relay.example.com./";
    format!("{base}{}", "p".repeat(n - base.len()))
}

fn addr_table() -> Vec<TransportAddr> {
    let relay = |s: &str| TransportAddr::Relay(RelayUrl::from_str(s).unwrap());
    vec![
        relay("https://relay.example.com./"),                                  // 0
        relay("http://10.0.0.1:3340/path?a=b"),                                // 1  '=' in the query
        relay("https://[::1]:443/x"),                                          // 2
        relay("https://user:pw@host.example/p?token=abc=&x=#frag=1"),          // 3  several '='
        TransportAddr::Ip("1.2.3.4:5".parse().unwrap()),                       // 4
        TransportAddr::Ip("0.0.0.0:0".parse().unwrap()),                       // 5
        TransportAddr::Ip("[::1]:65535".parse().unwrap()),                     // 6
        TransportAddr::Ip("[2001:db8::ff00:42:8329]:443".parse().unwrap()),    // 7
        TransportAddr::Ip("[::ffff:1.2.3.4]:80".parse().unwrap()),             // 8  v4-mapped v6
        TransportAddr::Custom(CustomAddr::from_parts(0, &[])),                 // 9
        TransportAddr::Custom(CustomAddr::from_parts(u64::MAX, &[7u8; 30])),   // 10 inline
        TransportAddr::Custom(CustomAddr::from_parts(0x20, &[9u8; 31])),       // 11 heap
        relay(&long_relay(249)),                                               // 12 "relay=" + 249 = 255: largest that fits
        relay(&long_relay(250)),                                               // 13 one byte too long for a TXT string
        relay(&long_relay(200)),                                               // 14 fills the packet when combined
        relay(&format!("{}q", long_relay(199))),                               // 15
        relay(&format!("{}r", long_relay(199))),                               // 16
    ]
}

fn user_symbols(thorough: bool) -> Vec<&'static str> {
    let mut v = vec!["a", "=", " ", "\"", "\u{0}", "é", "😀", "\\", ";", "\n", "%", "."];
    if thorough {
        v.extend(["Z", "\u{7f}", "€", "\t"]);
    }
    v
}

/// what the case is built from (the oracle compares against these, not against accessors of the input value)
struct Built {
    id: EndpointId,
    addrs: BTreeSet<TransportAddr>,
    user: Option<String>,
    info: EndpointInfo,
    secret: SecretKey,
}

fn build(case: &Case) -> Built {
    let secret = secrets()[case.key].clone();
    let table = addr_table();
    let list: Vec<TransportAddr> = case.addrs.iter().map(|&i| table[i].clone()).collect();
    let mut data = EndpointData::new(list.clone());
    if let Some(u) = &case.user {
        data = data.with_user_data(UserData::try_from(u.clone()).expect("generator keeps user data within MAX_LENGTH"));
    }
    let id = secret.public();
    Built { id, addrs: list.into_iter().collect(), user: case.user.clone(), info: EndpointInfo::from_parts(id, data), secret }
}

fn compare(b: &Built, got: &EndpointInfo, path: &str) -> Result<(), String> {
    if got.endpoint_id != b.id {
        return Err(format!("{path}: endpoint id {} resolved as {}", b.id, got.endpoint_id));
    }
    let got_addrs: BTreeSet<TransportAddr> = got.addrs().cloned().collect();
    if got_addrs != b.addrs {
        let missing: Vec<_> = b.addrs.difference(&got_addrs).collect();
        let extra: Vec<_> = got_addrs.difference(&b.addrs).collect();
        return Err(format!("{path}: address set differs: published-but-not-resolved {missing:?}, resolved-but-not-published {extra:?}"));
    }
    // partition accessors agree with the set
    let n = got.relay_urls().count() + got.ip_addrs().count() + got.addrs().filter(|a| a.is_custom()).count();
    if n != got_addrs.len() {
        return Err(format!("{path}: accessors count {n} addresses, set has {}", got_addrs.len()));
    }
    let got_user = got.user_data().map(|u| u.as_ref().to_string());
    if got_user != b.user {
        return Err(format!("{path}: user data {:?} resolved as {:?}", b.user, got_user));
    }
    Ok(())
}

/// size model of the DNS packet (class only): header 12, first owner name `_iroh.<52 z32>` = 60 bytes, later ones a
/// 2-byte compression pointer, 10 bytes of fixed RR fields, 1 length byte + the string
fn model_fits(b: &Built) -> (bool, bool) {
    let mut lens: Vec<usize> = b
        .addrs
        .iter()
        .map(|a| match a {
            TransportAddr::Relay(u) => 6 + u.as_str().len(),
            TransportAddr::Ip(a) => 5 + a.to_string().len(),
            TransportAddr::Custom(c) => 5 + 16usize.min(format!("{:x}", c.id()).len()) + 1 + 2 * c.data().len(),
            _ => 0,
        })
        .collect();
    if let Some(u) = &b.user {
        lens.push(10 + u.len());
    }
    let strings_fit = lens.iter().all(|&l| l <= 255);
    let size: usize = 12 + lens.iter().enumerate().map(|(i, l)| if i == 0 { 60 } else { 2 } + 10 + 1 + l).sum::<usize>();
    (strings_fit, strings_fit && size <= 1000)
}

fn run_case(ctx: &Ctx, case: &Case) {
    match quiet_catch(|| run_case_inner(case)) {
        Ok(Ok((class, outcome))) => ctx.eval(&class, &outcome),
        Ok(Err(msg)) => ctx.discrepancy(None, &msg, case),
        Err(p) => ctx.discrepancy(None, &format!("panic: {p}"), case),
    }
}

fn run_case_inner(case: &Case) -> Result<(String, String), String> {
    let b = build(case);
    let (txt_fits, pkt_fits) = model_fits(&b);
    let has_eq = b.user.as_deref().is_some_and(|u| u.contains('='))
        || b.addrs.iter().any(|a| matches!(a, TransportAddr::Relay(u) if u.as_str().contains('=')));
    let class = format!(
        "addrs:{} user:{} eq:{} model-fits(txt,pkt):{}/{}",
        match b.addrs.len() {
            0 => "0",
            1 => "1",
            2..=3 => "2-3",
            _ => "4-8",
        },
        match &b.user {
            None => "none",
            Some(u) if u.is_empty() => "empty",
            Some(u) if u.len() <= 8 => "short",
            _ => "max-len",
        },
        has_eq,
        txt_fits,
        pkt_fits
    );

    // (a) signed packet
    let pkt_outcome = match b.info.to_pkarr_signed_packet(&b.secret, 30) {
        Err(_) => "enc-err",
        Ok(packet) => {
            if packet.as_bytes().len() > SignedPacket::MAX_BYTES {
                return Err(format!("encoded packet of {} bytes exceeds MAX_BYTES", packet.as_bytes().len()));
            }
            let direct = EndpointInfo::from_pkarr_signed_packet(&packet).map_err(|e| format!("signed packet: does not parse back: {e}"))?;
            compare(&b, &direct, "signed packet")?;
            // over the wire
            let wire = SignedPacket::from_bytes(packet.as_bytes()).map_err(|e| format!("signed packet: own wire form rejected: {e}"))?;
            let resolved = EndpointInfo::from_pkarr_signed_packet(&wire).map_err(|e| format!("signed packet (wire): does not parse back: {e}"))?;
            compare(&b, &resolved, "signed packet (wire)")?;
            // via relay payload
            let relayed = SignedPacket::from_relay_payload(&b.id, &packet.to_relay_payload()).map_err(|e| format!("signed packet: relay payload rejected: {e}"))?;
            let resolved = EndpointInfo::from_pkarr_signed_packet(&relayed).map_err(|e| format!("signed packet (relay payload): does not parse back: {e}"))?;
            compare(&b, &resolved, "signed packet (relay payload)")?;
            "ok"
        }
    };

    // (b) TXT records: one record per string; a DNS character string holds at most 255 bytes
    let strings = b.info.to_txt_strings();
    let txt_outcome = if strings.iter().any(|s| s.len() > 255) {
        "enc-err"
    } else {
        let name = format!("_iroh.{}.dns.iroh.link.", b.id.to_z32());
        let records: Vec<TxtRecordData> = strings.iter().map(|s| TxtRecordData::from(vec![s.clone().into_bytes().into_boxed_slice()])).collect();
        let got = EndpointInfo::from_txt_lookup(name.clone(), records.iter()).map_err(|e| format!("TXT: published strings {strings:?} do not parse back: {e}"))?;
        compare(&b, &got, "TXT")?;
        // DNS does not guarantee record order
        let got = EndpointInfo::from_txt_lookup(name, records.iter().rev()).map_err(|e| format!("TXT (reversed): does not parse back: {e}"))?;
        compare(&b, &got, "TXT (records reversed)")?;
        "ok"
    };
    Ok((class, format!("pkt:{pkt_outcome} txt:{txt_outcome}")))
}

fn gen_cases(ctx: &Ctx) -> Vec<Case> {
    let n = addr_table().len();
    // address sets: every subset of size <= 3, plus structured sets of size 4..=8 (window start x stride)
    let mut sets: Vec<Vec<usize>> = subsets_up_to(n, 3);
    let strides: &[usize] = ctx.pick(&[1, 5][..], &[1, 2, 3, 5, 7][..]);
    for k in 4..=8usize {
        for start in 0..n {
            for &stride in strides {
                let s: Vec<usize> = (0..k).map(|j| (start + j * stride) % n).collect();
                let distinct: BTreeSet<usize> = s.iter().copied().collect();
                if distinct.len() == k && !sets.contains(&s) {
                    sets.push(s);
                }
            }
        }
    }
    // user data
    let syms = user_symbols(ctx.thorough());
    let mut users: Vec<Option<String>> = vec![None];
    for s in sequences_up_to(&syms, 2) {
        users.push(Some(s.concat()));
    }
    if ctx.thorough() {
        for s in sequences_up_to(&["=", "a", "é"], 4).into_iter().filter(|s| s.len() >= 3) {
            users.push(Some(s.concat()));
        }
    }
    // strings at the length limit with each symbol first / middle / last
    for total in [UserData::MAX_LENGTH - 1, UserData::MAX_LENGTH] {
        for sym in &syms {
            for pos in 0..3 {
                let fill = total - sym.len();
                let (before, after) = match pos {
                    0 => (0, fill),
                    1 => (fill / 2, fill - fill / 2),
                    _ => (fill, 0),
                };
                users.push(Some(format!("{}{}{}", "x".repeat(before), sym, "x".repeat(after))));
            }
        }
    }
    ctx.bound("address_table", n);
    ctx.bound("address_sets", sets.len());
    ctx.bound("max_addresses_per_info", 8);
    ctx.bound("user_data_values", users.len());
    ctx.bound("user_data_symbols", &syms);
    // quick: the full user-data list only with address sets of size <= 2, a reduced list (one value per user-data
    // class) with every address set; thorough: the full product
    let reduced: Vec<Option<String>> = vec![
        None,
        Some(String::new()),
        Some("=".into()),
        Some("a=b=c".into()),
        Some("é 😀\u{0}\"".into()),
        Some("x".repeat(UserData::MAX_LENGTH)),
        Some(format!("{}={}", "x".repeat(122), "x".repeat(122))),
        Some("x".repeat(UserData::MAX_LENGTH - 1)),
    ];
    ctx.bound("user_data_values_reduced", reduced.len());
    let mut cases = Vec::new();
    for (si, set) in sets.iter().enumerate() {
        let list = if ctx.thorough() || set.len() <= 2 { &users } else { &reduced };
        for u in list {
            cases.push(Case { key: 0, addrs: set.clone(), user: u.clone() });
            if set.len() <= 1 || (ctx.thorough() && si % 7 == 0) {
                cases.push(Case { key: 1, addrs: set.clone(), user: u.clone() });
            }
        }
    }
    cases
}

fn main() {
    let ctx = Ctx::from_args("C31", Level::Exploration);
    ctx.set_rule("exhaustive product: (every subset of size <=3 of a 17-entry address table [relay URLs incl. '=' in query/fragment, IPv6-literal host, userinfo, lengths 249/250 around the 255-byte TXT string limit, 200-byte URLs to cross the 1000-byte packet limit; IPv4; IPv6 incl. v4-mapped; custom inline/heap/empty] + window/stride sets of size 4..8) x (quick: full user-data list for sets of size <=2, one value per user-data class otherwise; thorough: full product) (no user data + every string of length <=2 over the symbol alphabet [incl. '=', space, quote, NUL, backslash, newline, 2- and 4-byte chars] + strings of 244 and 245 bytes with each symbol first/middle/last) x keys; each case goes through the signed-packet path (direct, wire bytes, relay payload) and the TXT path (records in publish order and reversed); distinct = distinct (model class, outcome) pairs");
    ctx.assume("IPv6 flow info / scope ids are excluded (the statement excludes them)");
    ctx.assume("a value 'encodes successfully' on the TXT path iff every key=value string fits a 255-byte DNS character string; on the packet path iff to_pkarr_signed_packet returns Ok");
    ctx.min_outcomes(10);
    if let Some(c) = ctx.replay_case::<Case>() {
        run_case(&ctx, &c);
        ctx.finish();
    }
    let cases = gen_cases(&ctx);
    for c in cases.iter().step_by((cases.len() / 10).max(1)) {
        ctx.sample(&format!("addrs={:?} user={:?}", c.addrs, c.user.as_ref().map(|u| u.chars().take(6).collect::<String>())), c);
    }
    par_for_each(&cases, |c| run_case(&ctx, c));
    ctx.finish();
}
