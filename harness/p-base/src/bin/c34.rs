//! C34 Staggered DNS lookups never panic and return the first success — E2 under tokio's paused clock.
//!
//! The real `DnsResolver::lookup_*_staggered` functions run on a paused current-thread runtime against a
//! harness `Resolver` whose every lookup is scripted: the k-th lookup *started* gets behaviour k
//! (answer / error / never answer, after a latency). The jitter residue of every delay is chosen through the
//! `choose_u64("dns.stagger.jitter")` seam, so the whole timed environment (delay list x jitter residues x
//! per-attempt behaviour) is enumerated instead of sampled. Observed: the virtual time of every lookup start, the
//! result, the virtual time of the return, panics.
//!
//! Oracle (statement): (1) no panic; (2) the lookups that started can be matched one-to-one to {0} + delays with
//! 0.8*d <= start <= 1.2*d, and a delay without a started lookup is only legitimate if the call was over (returned or
//! horizon reached) no later than 1.2*d; (3) Ok(v): v is the answer of the started lookup that completed
//! successfully first (ties: any of them); (4) Err(list): every attempt was started, all failed, and the list
//! carries exactly their errors (as a multiset); (5) still pending at the horizon only if no started lookup has
//! succeeded by then and some attempt is legitimately unfinished.
use iroh_dns::dns::{BoxIter, DnsError, DnsResolver, LookupError, Resolver, TxtRecordData};
use n0_future::boxed::BoxFuture;
use serde::{Deserialize, Serialize};
use std::collections::HashSet;
use std::net::{IpAddr, Ipv4Addr, Ipv6Addr};
use std::sync::{Arc, Mutex};
use std::time::Duration;
use vh_engine::*;

const TIMEOUT_MS: u64 = 1000; // per-lookup timeout handed to the API (fixed 3000 for the endpoint lookups: DNS_TIMEOUT)
const HORIZON_MS: u64 = 2_000_000;

#[derive(Serialize, Deserialize, Clone, Copy, Debug, PartialEq, Eq)]
enum Api {
    V4,
    V6,
    V4V6,
    ById,
    ByName,
}

#[derive(Serialize, Deserialize, Clone, Copy, Debug, PartialEq, Eq)]
enum Jit {
    Min,
    Mid,
    Max,
    /// exact residue (reduced modulo the bound)
    Exact(u64),
}

#[derive(Serialize, Deserialize, Clone, Copy, Debug, PartialEq, Eq)]
enum Beh {
    Ok(u64),
    Err(u64),
    /// well-formed DNS answer that does not parse as endpoint info (endpoint lookups only)
    Garbage(u64),
    Never,
}

#[derive(Serialize, Deserialize, Clone, Debug)]
struct Case {
    api: Api,
    delays: Vec<u64>,
    jitter: Vec<Jit>,
    /// behaviour of the k-th started attempt (last one repeats)
    beh: Vec<Beh>,
}

#[derive(Default, Debug)]
struct Log {
    /// (attempt number in start order, start ms) — one entry per attempt (the v4 lookup for V4V6)
    starts: Vec<(usize, u64)>,
    v6_starts: Vec<u64>,
}

#[derive(Debug)]
struct Scripted {
    t0: tokio::time::Instant,
    beh: Vec<Beh>,
    log: Arc<Mutex<Log>>,
    api: Api,
    endpoint_z32: String,
}

fn ms_since(t0: tokio::time::Instant) -> u64 {
    t0.elapsed().as_millis() as u64
}

impl Scripted {
    fn beh(&self, k: usize) -> Beh {
        *self.beh.get(k).or(self.beh.last()).unwrap_or(&Beh::Err(0))
    }
    fn start(&self) -> (usize, Beh) {
        let mut g = self.log.lock().unwrap();
        let k = g.starts.len();
        g.starts.push((k, ms_since(self.t0)));
        (k, self.beh(k))
    }
}

async fn act<T>(b: Beh, k: usize, ok: T) -> Result<T, DnsError> {
    match b {
        Beh::Ok(l) | Beh::Garbage(l) => {
            tokio::time::sleep(Duration::from_millis(l)).await;
            Ok(ok)
        }
        Beh::Err(l) => {
            tokio::time::sleep(Duration::from_millis(l)).await;
            Err(DnsError::from(n0_error::anyerr!(format!("attempt-{k}"))))
        }
        Beh::Never => std::future::pending().await,
    }
}

impl Resolver for Scripted {
    fn lookup_ipv4(&self, _host: String) -> BoxFuture<Result<BoxIter<Ipv4Addr>, DnsError>> {
        let (k, b) = self.start();
        Box::pin(async move { act(b, k, Box::new(vec![Ipv4Addr::new(10, 0, 0, k as u8)].into_iter()) as BoxIter<Ipv4Addr>).await })
    }
    fn lookup_ipv6(&self, _host: String) -> BoxFuture<Result<BoxIter<Ipv6Addr>, DnsError>> {
        let (k, b) = if self.api == Api::V4V6 {
            // second lookup of the same attempt: same behaviour as its v4 lookup
            let mut g = self.log.lock().unwrap();
            let k = g.v6_starts.len();
            g.v6_starts.push(ms_since(self.t0));
            (k, self.beh(k))
        } else {
            self.start()
        };
        Box::pin(async move { act(b, k, Box::new(vec![Ipv6Addr::new(0xfd00, 0, 0, 0, 0, 0, 0, k as u16)].into_iter()) as BoxIter<Ipv6Addr>).await })
    }
    fn lookup_txt(&self, host: String) -> BoxFuture<Result<BoxIter<TxtRecordData>, DnsError>> {
        let (k, b) = self.start();
        let expect = format!("_iroh.{}.example.", self.endpoint_z32);
        Box::pin(async move {
            let txt = if host != expect {
                format!("unexpected-name={host}")
            } else if matches!(b, Beh::Garbage(_)) {
                "no-equals-sign".to_string()
            } else {
                format!("addr=10.0.0.{k}:1")
            };
            let rec = TxtRecordData::from(vec![txt.into_bytes().into_boxed_slice()]);
            act(b, k, Box::new(vec![rec].into_iter()) as BoxIter<TxtRecordData>).await
        })
    }
    fn clear_cache(&self) {}
    fn reset(&self) -> Box<dyn Resolver> {
        unreachable!("reset is not used by this driver")
    }
}

#[derive(Debug, Clone, PartialEq, Eq)]
enum Final {
    /// answer of attempt k
    Ok(usize),
    /// error tags
    Err(Vec<String>),
    Pending,
    Panic(String),
    Unrecognised(String),
}

fn dns_tag(e: &DnsError) -> String {
    match e {
        DnsError::Timeout { .. } => "timeout".into(),
        DnsError::Resolve { source, .. } => source.to_string(),
        DnsError::ResolveBoth { ipv4, ipv6, .. } => format!("both({},{})", dns_tag(ipv4), dns_tag(ipv6)),
        other => format!("other:{other}"),
    }
}
fn lookup_tag(e: &LookupError) -> String {
    match e {
        LookupError::LookupFailed { source, .. } => dns_tag(source),
        LookupError::ParseError { .. } => "parse".into(),
        other => format!("other:{other}"),
    }
}

struct Obs {
    fin: Final,
    returned_at: u64,
    log: Log,
}

fn execute(case: &Case) -> Obs {
    seams::reset_local();
    let jit = case.jitter.clone();
    let mut n = 0usize;
    seams::set_chooser(move |label, bound| {
        if label != "dns.stagger.jitter" || bound == 0 {
            return None;
        }
        let j = *jit.get(n).or(jit.last()).unwrap_or(&Jit::Min);
        n += 1;
        Some(match j {
            Jit::Min => 0,
            Jit::Mid => bound / 2,
            Jit::Max => bound - 1,
            Jit::Exact(r) => r % bound,
        })
    });
    let log = Arc::new(Mutex::new(Log::default()));
    let log2 = log.clone();
    let case2 = case.clone();
    let r = quiet_catch(move || {
        let rt = tokio::runtime::Builder::new_current_thread().enable_all().start_paused(true).build().unwrap();
        rt.block_on(async move {
            let t0 = tokio::time::Instant::now();
            let secret = iroh_base::SecretKey::from_bytes(&[3u8; 32]);
            let id = secret.public();
            let resolver = DnsResolver::custom(Scripted { t0, beh: case2.beh.clone(), log: log2, api: case2.api, endpoint_z32: id.to_z32() });
            let to = Duration::from_millis(TIMEOUT_MS);
            let first_v4 = |it: &mut dyn Iterator<Item = IpAddr>| match it.next() {
                Some(IpAddr::V4(a)) if a.octets()[..3] == [10, 0, 0] => Final::Ok(a.octets()[3] as usize),
                Some(IpAddr::V6(a)) if a.segments()[0] == 0xfd00 => Final::Ok(a.segments()[7] as usize),
                other => Final::Unrecognised(format!("{other:?}")),
            };
            let stag = |e: &iroh_dns::dns::StaggeredError<DnsError>| Final::Err(e.iter().map(dns_tag).collect());
            let ltag = |e: &iroh_dns::dns::StaggeredError<LookupError>| Final::Err(e.iter().map(lookup_tag).collect());
            let info = |i: &iroh_dns::endpoint_info::EndpointInfo| match i.ip_addrs().next() {
                Some(std::net::SocketAddr::V4(a)) if i.endpoint_id == id => Final::Ok(a.ip().octets()[3] as usize),
                other => Final::Unrecognised(format!("{other:?}")),
            };
            let horizon = Duration::from_millis(HORIZON_MS);
            let fin = match case2.api {
                Api::V4 => match tokio::time::timeout(horizon, resolver.lookup_ipv4_staggered("host.example", to, &case2.delays)).await {
                    Err(_) => Final::Pending,
                    Ok(Ok(mut it)) => first_v4(&mut it),
                    Ok(Err(e)) => stag(&e),
                },
                Api::V6 => match tokio::time::timeout(horizon, resolver.lookup_ipv6_staggered("host.example", to, &case2.delays)).await {
                    Err(_) => Final::Pending,
                    Ok(Ok(mut it)) => first_v4(&mut it),
                    Ok(Err(e)) => stag(&e),
                },
                Api::V4V6 => match tokio::time::timeout(horizon, resolver.lookup_ipv4_ipv6_staggered("host.example", to, &case2.delays)).await {
                    Err(_) => Final::Pending,
                    Ok(Ok(mut it)) => first_v4(&mut it),
                    Ok(Err(e)) => stag(&e),
                },
                Api::ById => match tokio::time::timeout(horizon, resolver.lookup_endpoint_by_id_staggered(&id, "example.", &case2.delays)).await {
                    Err(_) => Final::Pending,
                    Ok(Ok(i)) => info(&i),
                    Ok(Err(e)) => ltag(&e),
                },
                Api::ByName => {
                    let name = format!("{}.example.", id.to_z32());
                    match tokio::time::timeout(horizon, resolver.lookup_endpoint_by_domain_name_staggered(&name, &case2.delays)).await {
                        Err(_) => Final::Pending,
                        Ok(Ok(i)) => info(&i),
                        Ok(Err(e)) => ltag(&e),
                    }
                }
            };
            (fin, ms_since(t0))
        })
    });
    seams::clear_local();
    let log = std::mem::take(&mut *log.lock().unwrap());
    match r {
        Ok((fin, at)) => Obs { fin, returned_at: at, log },
        Err(p) => Obs { fin: Final::Panic(p), returned_at: 0, log },
    }
}

/// completion (time, Ok?) of attempt k started at s, from the script
fn completion(api: Api, b: Beh, s: u64) -> (u64, Result<(), String>, usize) {
    let to = if matches!(api, Api::ById | Api::ByName) { 3000 } else { TIMEOUT_MS };
    let both = |t: String| if api == Api::V4V6 { format!("both({t},{t})") } else { t };
    match b {
        Beh::Ok(l) if l < to => (s + l, Ok(()), 0),
        Beh::Garbage(l) if l < to => {
            if matches!(api, Api::ById | Api::ByName) {
                (s + l, Err("parse".into()), 0)
            } else {
                (s + l, Ok(()), 0)
            }
        }
        Beh::Err(l) if l < to => (s + l, Err(String::new()), 1), // tag filled by caller (needs k)
        // latency == timeout: the answer and the timeout fire at the same instant; biased select takes the answer, but
        // the statement does not say, so the generator avoids latencies >= timeout except Never
        _ => (s + to, Err(both("timeout".into())), 0),
    }
}

static SEEN: Mutex<Option<HashSet<u64>>> = Mutex::new(None);

fn judge(case: &Case, o: &Obs) -> Result<(String, String), String> {
    let n = case.delays.len() + 1;
    if let Final::Panic(p) = &o.fin {
        return Err(format!("panic: {}", p.replace('\n', " ")));
    }
    if let Final::Unrecognised(u) = &o.fin {
        return Err(format!("result is not an answer of any scripted attempt: {u}"));
    }
    let over_at = if o.fin == Final::Pending { HORIZON_MS } else { o.returned_at };
    // (2) match started lookups to delays within +-20 %
    let mut all_delays: Vec<u64> = vec![0];
    all_delays.extend(&case.delays);
    let starts: Vec<u64> = o.log.starts.iter().map(|s| s.1).collect();
    if starts.len() > n {
        return Err(format!("{} lookups started for {} attempts (starts at {starts:?} ms)", starts.len(), n));
    }
    let within = |s: u64, d: u64| (5 * s as u128) >= (4 * d as u128) && (5 * s as u128) <= (6 * d as u128);
    let mut matched = false;
    'perm: for perm in permutations(n) {
        // perm[i] = index of the delay assigned to the i-th start (for i < starts.len()); the rest are unstarted
        for (i, &di) in perm.iter().enumerate() {
            let d = all_delays[di];
            if i < starts.len() {
                if !within(starts[i], d) {
                    continue 'perm;
                }
            } else if (5 * over_at as u128) > (6 * d as u128) {
                continue 'perm; // should have started before the call was over
            }
        }
        matched = true;
        break;
    }
    if !matched {
        return Err(format!(
            "attempt start times {starts:?} ms (call over at {over_at} ms) cannot be matched to one immediate attempt + one per delay {:?} within +-20 %",
            case.delays
        ));
    }
    if case.api == Api::V4V6 && o.log.v6_starts != starts {
        return Err(format!("dual-stack attempt: v6 lookups started at {:?}, v4 at {starts:?}", o.log.v6_starts));
    }
    // completions of the started attempts
    let comp: Vec<(u64, Result<(), String>)> = o
        .log
        .starts
        .iter()
        .map(|&(k, s)| {
            let b = *case.beh.get(k).or(case.beh.last()).unwrap_or(&Beh::Err(0));
            let (c, r, needs_tag) = completion(case.api, b, s);
            let r = if needs_tag == 1 {
                let t = format!("attempt-{k}");
                Err(if case.api == Api::V4V6 { format!("both({t},{t})") } else { t })
            } else {
                r
            };
            (c, r)
        })
        .collect();
    let first_ok = comp.iter().filter(|c| c.1.is_ok()).map(|c| c.0).min();
    let outcome;
    match &o.fin {
        Final::Ok(k) => {
            let Some(first) = first_ok else { return Err(format!("returned the answer of attempt {k} but no started attempt succeeded")) };
            let Some(ck) = comp.get(*k) else { return Err(format!("returned the answer of attempt {k} which never started")) };
            if ck.1.is_err() {
                return Err(format!("returned the answer of attempt {k} which did not succeed"));
            }
            if ck.0 != first {
                return Err(format!("returned the answer of attempt {k} (completed at {} ms) but the first success completed at {first} ms", ck.0));
            }
            if o.returned_at < first {
                return Err(format!("returned at {} ms, before the first success completed ({first} ms)", o.returned_at));
            }
            outcome = format!("ok (attempt #{} of {} started; returned {} the first success)", k, starts.len(), if o.returned_at == first { "at" } else { "after" });
        }
        Final::Err(tags) => {
            if let Some(first) = first_ok {
                if first <= o.returned_at {
                    return Err(format!("returned an error although an attempt succeeded at {first} ms"));
                }
            }
            if starts.len() != n {
                return Err(format!("returned an error after starting only {} of {} attempts", starts.len(), n));
            }
            let mut want: Vec<String> = comp.iter().map(|c| c.1.clone().err().unwrap_or_else(|| "<succeeded>".into())).collect();
            let mut got = tags.clone();
            want.sort();
            got.sort();
            if want != got {
                return Err(format!("error carries {got:?}, the attempts failed with {want:?}"));
            }
            outcome = format!("err x{}{}", n, if tags.iter().any(|t| t.contains("timeout")) { " (with timeouts)" } else { "" });
        }
        Final::Pending => {
            if let Some(first) = first_ok {
                if first < HORIZON_MS {
                    return Err(format!("still pending at the horizon although an attempt succeeded at {first} ms"));
                }
            }
            if starts.len() == n && comp.iter().all(|c| c.0 < HORIZON_MS) {
                return Err("still pending at the horizon although every attempt had started and finished".into());
            }
            outcome = format!("pending at horizon ({} of {} attempts started)", starts.len(), n);
        }
        _ => unreachable!(),
    }
    // abstract state bookkeeping: distinct prefixes of the event history (start/complete/return with times)
    let mut ev: Vec<(u64, u8, usize)> = Vec::new();
    for (i, &(k, s)) in o.log.starts.iter().enumerate() {
        ev.push((s, 0, k));
        if comp[i].0 <= over_at {
            ev.push((comp[i].0, if comp[i].1.is_ok() { 1 } else { 2 }, k));
        }
    }
    ev.push((over_at, 3, 0));
    ev.sort();
    {
        use std::hash::{Hash, Hasher};
        let mut g = SEEN.lock().unwrap();
        let set = g.get_or_insert_with(HashSet::new);
        let mut h = std::collections::hash_map::DefaultHasher::new();
        (case.api as u8).hash(&mut h);
        for e in &ev {
            e.hash(&mut h);
            set.insert(h.clone().finish());
        }
    }
    let class = format!(
        "{:?} delays:{} {}",
        case.api,
        case.delays.len(),
        if case.delays.iter().any(|&d| d == 1 || d == 2) {
            "with-1-or-2ms"
        } else if case.delays.iter().any(|&d| d > 10_000_000) {
            "with-huge"
        } else if case.delays.contains(&0) {
            "with-0"
        } else {
            "plain"
        }
    );
    Ok((class, outcome))
}

fn run_case(ctx: &Ctx, case: &Case) {
    let o = execute(case);
    ctx.add_traces(1);
    ctx.add_transitions(o.log.starts.len() as u64 * 2 + 1);
    match judge(case, &o) {
        Ok((class, outcome)) => ctx.eval(&class, &outcome),
        Err(msg) => ctx.discrepancy(finding_key(case, &msg), &msg, case),
    }
}

/// named deviation: `add_jitter` computes `random % (delay * 40 / 100)`, which is `% 0` exactly for delays of 1 and 2 ms
fn finding_key(case: &Case, msg: &str) -> Option<&'static str> {
    (msg.starts_with("panic:") && msg.contains("remainder with a divisor of zero") && case.delays.iter().any(|&d| d == 1 || d == 2))
        .then_some("stagger-jitter-zero-divisor")
}

fn gen_cases(ctx: &Ctx) -> Vec<Case> {
    let mut cases = Vec::new();
    let alphabet: Vec<u64> = vec![0, 1, 2, 5, 100, 300, 1_000_000, u64::MAX];
    // (a) every delay list of length <= 3 x jitter {min, mid, max} x {all fail at once, all never answer, first succeeds late}
    for delays in sequences_up_to(&alphabet, 3) {
        for j in [Jit::Min, Jit::Mid, Jit::Max] {
            for beh in [vec![Beh::Err(0)], vec![Beh::Never], vec![Beh::Ok(500), Beh::Err(0)]] {
                if !ctx.thorough() && delays.len() == 3 && !matches!(beh[0], Beh::Err(0)) {
                    continue;
                }
                cases.push(Case { api: Api::V4, delays: delays.clone(), jitter: vec![j], beh });
            }
        }
    }
    // other magnitudes, alone and after a normal delay
    for d in [3u64, 4, 7, 49, 50, 51, 999, 1000, 1001, 1_600_000, 1_700_000, 2_600_000, u64::MAX / 40, u64::MAX / 40 + 1, u64::MAX / 2, u64::MAX - 1] {
        for j in [Jit::Min, Jit::Mid, Jit::Max] {
            for delays in [vec![d], vec![100, d], vec![d, d]] {
                cases.push(Case { api: Api::V4, delays, jitter: vec![j], beh: vec![Beh::Err(0)] });
            }
        }
    }
    // (b) single delay, every jitter residue
    let dmax = ctx.pick(80u64, 300);
    for d in 1..=dmax {
        let bound = d * 40 / 100;
        for r in 0..bound.max(1) {
            cases.push(Case { api: Api::V4, delays: vec![d], jitter: vec![Jit::Exact(r)], beh: vec![Beh::Err(0)] });
        }
    }
    // (c) result selection: every behaviour vector over the attempts
    let behs: Vec<Beh> = vec![Beh::Ok(0), Beh::Ok(50), Beh::Ok(500), Beh::Err(0), Beh::Err(50), Beh::Err(500), Beh::Never];
    let lists: Vec<Vec<u64>> = vec![vec![], vec![0], vec![100], vec![5], vec![100, 300], vec![5, 100], vec![0, 0], vec![300, 100], vec![100, 100]];
    for delays in &lists {
        for bv in sequences_up_to(&behs, delays.len() + 1).into_iter().filter(|b| b.len() == delays.len() + 1) {
            for j in [Jit::Min, Jit::Max] {
                if delays.iter().all(|&d| d == 0) && j == Jit::Max {
                    continue;
                }
                cases.push(Case { api: Api::V4, delays: delays.clone(), jitter: vec![j], beh: bv.clone() });
            }
        }
    }
    if ctx.thorough() {
        for delays in [vec![100u64, 300, 5], vec![100, 100, 100], vec![5, 100, 1000]] {
            for bv in sequences_up_to(&behs, 4).into_iter().filter(|b| b.len() == 4) {
                for j in [Jit::Min, Jit::Mid, Jit::Max] {
                    cases.push(Case { api: Api::V4, delays: delays.clone(), jitter: vec![j], beh: bv.clone() });
                }
            }
        }
        // mixed jitter residues per delay
        for delays in [vec![100u64, 300], vec![300, 100], vec![100, 100]] {
            for j1 in [Jit::Min, Jit::Mid, Jit::Max] {
                for j2 in [Jit::Min, Jit::Mid, Jit::Max] {
                    for bv in sequences_up_to(&behs, 3).into_iter().filter(|b| b.len() == 3) {
                        cases.push(Case { api: Api::V4, delays: delays.clone(), jitter: vec![j1, j2], beh: bv.clone() });
                    }
                }
            }
        }
    }
    // (d) the other four entry points, reduced grid
    let behs_txt: Vec<Beh> = vec![Beh::Ok(0), Beh::Ok(500), Beh::Err(0), Beh::Err(500), Beh::Garbage(50), Beh::Never];
    for api in [Api::V6, Api::V4V6, Api::ById, Api::ByName] {
        let bs = if matches!(api, Api::ById | Api::ByName) { &behs_txt } else { &behs };
        for delays in [vec![], vec![100u64], vec![1], vec![2, 100], vec![100, 300], vec![u64::MAX]] {
            let depth = (delays.len() + 1).min(ctx.pick(2, 3));
            for mut bv in sequences_up_to(bs, depth).into_iter().filter(|b| b.len() == depth) {
                while bv.len() < delays.len() + 1 {
                    bv.push(Beh::Err(0));
                }
                for j in [Jit::Min, Jit::Max] {
                    if delays.is_empty() && j == Jit::Max {
                        continue;
                    }
                    cases.push(Case { api, delays: delays.clone(), jitter: vec![j], beh: bv.clone() });
                }
            }
        }
    }
    ctx.bound("delay_alphabet", &alphabet);
    ctx.bound("max_delays_per_list", 3);
    ctx.bound("single_delay_all_residues_up_to_ms", dmax);
    ctx.bound("per_lookup_timeout_ms", TIMEOUT_MS);
    ctx.bound("horizon_ms", HORIZON_MS);
    ctx.bound("attempt_behaviours", format!("{behs:?}"));
    cases
}

fn main() {
    let ctx = Ctx::from_args("C34", Level::ModelChecking);
    vh_hooks::install();
    ctx.set_rule("timed environments of the real lookup_*_staggered on a paused current-thread runtime: (a) every delay list of length <=3 over {0,1,2,5,100,300,10^6,u64::MAX} ms x jitter residue {min,mid,max} x {all attempts fail at once, none answers, first answers late}; 16 further magnitudes (3,4,7,49..51,999..1001, around the horizon, around the saturation point u64::MAX/40) alone / after 100 ms / doubled; (b) one delay d=1..80 (thorough 300) x every jitter residue 0..0.4d; (c) 9 delay lists x every vector of per-attempt behaviours {answer after 0/50/500 ms, error after 0/50/500 ms, never} x jitter {min,max} (thorough: 3-delay lists and mixed residues); (d) the ipv6, dual-stack, endpoint-by-id and endpoint-by-name entry points on a reduced grid incl. unparsable TXT answers. One execution of the real code per environment; a state is a distinct prefix of the observed timed event history (attempt start / completion / return); distinct = distinct (case class, outcome) pairs");
    ctx.assume("attempt k = the k-th lookup started (the resolver cannot see which delay an attempt belongs to); behaviours are assigned in start order");
    ctx.assume("virtual time: tokio paused clock, auto-advance; horizon 2*10^6 ms — delays whose -20 % bound lies beyond the horizon are only checked for not starting early and not panicking");
    ctx.assume("when the call returns is recorded in the outcome but not judged beyond 'not before the first success / not before all errors exist'");
    ctx.min_outcomes(12);
    if let Some(c) = ctx.replay_case::<Case>() {
        let o = execute(&c);
        println!("observed: starts={:?} v6_starts={:?} final={:?} returned_at={}", o.log.starts, o.log.v6_starts, o.fin, o.returned_at);
        match judge(&c, &o) {
            Ok((class, outcome)) => println!("holds: {class} => {outcome}"),
            Err(msg) => ctx.discrepancy(finding_key(&c, &msg), &msg, &c),
        }
        ctx.finish();
    }
    let cases = gen_cases(&ctx);
    for c in cases.iter().step_by((cases.len() / 11).max(1)) {
        ctx.sample(&format!("{:?} {:?} {:?}", c.api, c.delays, c.beh).chars().take(48).collect::<String>(), c);
    }
    par_for_each(&cases, |c| run_case(&ctx, c));
    let states = SEEN.lock().unwrap().as_ref().map(|s| s.len()).unwrap_or(0) as u64;
    ctx.add_states(states + 1);
    ctx.finish();
}
