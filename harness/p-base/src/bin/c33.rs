//! C33 Pkarr timestamps are strictly increasing across threads — E3 controlled thread scheduler.
//!
//! Logical threads (OS threads under `vh_engine::thrsched`) call the real `Timestamp::now()`; the wall clock is
//! owned through the `clock_micros` seam (a script of readings, consumed in the order the calls read the clock,
//! expressed relative to the current value of the process-global LAST_TIMESTAMP), and the scheduler enumerates every
//! interleaving at the gates: thread start, between two calls of a thread, and `pkarr.timestamp.before_cas`
//! (after the atomic load and after every failed compare-exchange).
//!
//! Oracle (statement): all timestamps of an execution are pairwise distinct, greater than every timestamp generated
//! before the execution (the priming call), and a call that began after another call had returned got a strictly
//! greater timestamp — whatever the clock script (backwards, repeated, stalled).
use iroh_dns::pkarr::Timestamp;
use serde::{Deserialize, Serialize};
use std::collections::HashSet;
use std::sync::atomic::{AtomicUsize, Ordering::SeqCst};
use std::sync::{Arc, Mutex};
use vh_engine::thrsched::{self, Body, Execution};
use vh_engine::*;

#[derive(Serialize, Deserialize, Clone, Debug)]
struct Case {
    /// calls per thread
    calls: Vec<usize>,
    /// clock readings relative to the last timestamp at the start of the execution, in clock-read order
    script: Vec<i64>,
    /// scheduler choices (index into the enabled set at each decision point)
    schedule: Vec<usize>,
}

#[derive(Debug, Clone)]
struct CallRec {
    thread: usize,
    begin: usize,
    end: usize,
    ts: u64,
}

struct Observer {
    base: u64,
    recs: Arc<Mutex<Vec<CallRec>>>,
    clock_reads: Arc<AtomicUsize>,
}

/// Current value of LAST_TIMESTAMP: with the clock at 0, `now()` returns last + 1 and stores it.
fn prime() -> u64 {
    seams::reset_global();
    seams::set_clock(|_, _| 0);
    Timestamp::now().as_micros()
}

fn mk(calls: &[usize], script: &[i64]) -> (Vec<Body>, Observer) {
    let base = prime();
    let recs = Arc::new(Mutex::new(Vec::new()));
    let seq = Arc::new(AtomicUsize::new(0));
    let reads = Arc::new(AtomicUsize::new(0));
    let script2: Vec<i64> = script.to_vec();
    let reads2 = reads.clone();
    seams::reset_global();
    seams::set_clock(move |label, real| {
        if label != "pkarr.timestamp.clock" {
            return real;
        }
        let i = reads2.fetch_add(1, SeqCst);
        let off = *script2.get(i).or(script2.last()).unwrap_or(&0);
        (base as i64 + off) as u64
    });
    let bodies: Vec<Body> = calls
        .iter()
        .enumerate()
        .map(|(t, &n)| {
            let recs = recs.clone();
            let seq = seq.clone();
            Box::new(move || {
                for c in 0..n {
                    if c > 0 {
                        thrsched::pause("between-calls");
                    }
                    let begin = seq.fetch_add(1, SeqCst);
                    let ts = Timestamp::now().as_micros();
                    let end = seq.fetch_add(1, SeqCst);
                    recs.lock().unwrap().push(CallRec { thread: t, begin, end, ts });
                }
            }) as Body
        })
        .collect();
    (bodies, Observer { base, recs, clock_reads: reads })
}

static SEEN: Mutex<Option<HashSet<u64>>> = Mutex::new(None);

fn judge(calls: &[usize], script: &[i64], x: &Execution, o: &Observer) -> Result<(String, String), String> {
    if x.deadlock {
        return Err(format!("deadlock: threads {:?} blocked", x.blocked));
    }
    if let Some((t, m)) = x.panics.first() {
        return Err(format!("thread {t} panicked: {}", m.replace('\n', " ")));
    }
    let recs = o.recs.lock().unwrap().clone();
    let total: usize = calls.iter().sum();
    if recs.len() != total {
        return Err(format!("{} of {total} calls returned", recs.len()));
    }
    for r in &recs {
        if r.ts <= o.base {
            return Err(format!("timestamp {} (thread {}) is not greater than the previously generated {}", r.ts, r.thread, o.base));
        }
    }
    for (i, a) in recs.iter().enumerate() {
        for b in &recs[i + 1..] {
            if a.ts == b.ts {
                return Err(format!("threads {} and {} both got timestamp last+{}", a.thread, b.thread, a.ts - o.base));
            }
            // real-time order: one call returned before the other began
            if a.end < b.begin && b.ts <= a.ts {
                return Err(format!("call of thread {} began after the call of thread {} had returned last+{}, but got last+{}", b.thread, a.thread, a.ts - o.base, b.ts - o.base));
            }
            if b.end < a.begin && a.ts <= b.ts {
                return Err(format!("call of thread {} began after the call of thread {} had returned last+{}, but got last+{}", a.thread, b.thread, b.ts - o.base, a.ts - o.base));
            }
        }
    }
    // CAS retries: gates "before_cas" beyond one per call
    let cas_gates = x.points.iter().filter(|p| p.gates[p.chosen] == "pkarr.timestamp.before_cas").count();
    let retries = cas_gates.saturating_sub(total);
    let overlapping = recs.iter().enumerate().any(|(i, a)| recs[i + 1..].iter().any(|b| !(a.end < b.begin || b.end < a.begin)));
    // states: distinct prefixes of (thread, gate) sequences under this configuration
    {
        use std::hash::{Hash, Hasher};
        let mut g = SEEN.lock().unwrap();
        let set = g.get_or_insert_with(HashSet::new);
        let mut h = std::collections::hash_map::DefaultHasher::new();
        (calls, script).hash(&mut h);
        for p in &x.points {
            (p.enabled[p.chosen], &p.gates[p.chosen]).hash(&mut h);
            set.insert(h.clone().finish());
        }
    }
    let mut offs: Vec<u64> = recs.iter().map(|r| r.ts - o.base).collect();
    offs.sort();
    let clock_led = script.iter().take(total).any(|&s| s > 0 && offs.contains(&(s as u64)));
    let class = format!("threads:{} calls:{:?} clock:{}", calls.len(), calls, script_class(script));
    let outcome = format!(
        "{} cas-retries:{} {}",
        if overlapping { "overlapping" } else { "sequential" },
        retries.min(3),
        if clock_led { "some-from-clock" } else { "all-from-counter" }
    );
    let _ = o.clock_reads.load(SeqCst);
    Ok((class, outcome))
}

fn script_class(s: &[i64]) -> &'static str {
    if s.iter().all(|&x| x <= 0) {
        "all-past"
    } else if s.windows(2).all(|w| w[0] < w[1]) {
        "increasing"
    } else if s.windows(2).all(|w| w[0] == w[1]) {
        "stalled"
    } else if s.windows(2).any(|w| w[1] < w[0]) {
        "goes-backwards"
    } else {
        "repeats"
    }
}

fn main() {
    let ctx = Ctx::from_args("C33", Level::ModelChecking);
    vh_hooks::install();
    silence_all_panics();
    ctx.set_rule("every schedule (stateless DFS over which parked thread runs next; gates: thread start, between two calls of a thread, before every compare-exchange = after the load and after each failed CAS) of T threads x C calls of the real Timestamp::now() x clock scripts (readings relative to the current last timestamp, consumed in clock-read order); plus single-thread runs of 3 (thorough 4) calls over every script in {-10,+1,+5,+100}^n; thorough adds 2+1+1 calls unbounded and 2+2+2 calls with at most 1 preemption; distinct = distinct (configuration class, outcome) pairs; a state is a distinct prefix of the (thread, gate) sequence");
    ctx.assume("Timestamp::now takes no locks, so the scheduler's lock-free runner is used (a released thread is awaited until its next gate; no /proc blocked-thread detection)");
    ctx.assume("clock read + atomic load of one call form one step (no other shared access in between; a load followed by a failed CAS observes the same value as a later load)");
    ctx.assume("compare_exchange_weak never fails spuriously (true on x86-64) and Relaxed orderings on a single location are coherent: non-SC behaviours are not modelled");
    ctx.assume("clock readings near u64::MAX (last + 1 overflows) are excluded: LAST_TIMESTAMP is process-global and would poison every later execution");
    ctx.min_outcomes(8);

    // make sure the process-global counter is far from 0 so that negative offsets are representable
    seams::reset_global();
    seams::set_clock(|_, _| 1_700_000_000_000_000);
    let _ = Timestamp::now();

    if let Some(c) = ctx.replay_case::<Case>() {
        let (bodies, obs) = mk(&c.calls, &c.script);
        let x = thrsched::run_lockfree(bodies, &c.schedule);
        println!("schedule threads={:?} calls={:?}", x.schedule_threads(), obs.recs.lock().unwrap().iter().map(|r| (r.thread, r.ts - obs.base)).collect::<Vec<_>>());
        match judge(&c.calls, &c.script, &x, &obs) {
            Ok((class, outcome)) => println!("holds: {class} => {outcome}"),
            Err(msg) => ctx.discrepancy(None, &msg, &c),
        }
        seams::clear_global();
        ctx.finish();
    }

    // configurations
    let scripts4: Vec<Vec<i64>> = vec![
        vec![-10, 5, 5, 100],
        vec![100, 5, 5, -10],
        vec![5, 5, 5, 5],
        vec![1, 2, 3, 4],
        vec![-10, -10, -10, -10],
        vec![2, 1, 2, 1],
    ];
    let mut configs: Vec<(Vec<usize>, Vec<i64>, Option<usize>)> = Vec::new();
    // single thread: every script over 4 offsets (quick: 3 calls, thorough: 4 calls)
    let n1 = ctx.pick(3usize, 4);
    for s in sequences_up_to(&[-10i64, 1, 5, 100], n1).into_iter().filter(|s| s.len() == n1) {
        configs.push((vec![n1], s, None));
    }
    for s in &scripts4 {
        configs.push((vec![1, 1], s[..2].to_vec(), None));
    }
    for s in ctx.pick(&scripts4[..3], &scripts4[..]) {
        configs.push((vec![2, 1], s[..3].to_vec(), None));
    }
    for s in ctx.pick(&scripts4[..1], &scripts4[..]) {
        configs.push((vec![2, 2], s.clone(), None));
    }
    for s in ctx.pick(&scripts4[2..3], &scripts4[..]) {
        configs.push((vec![1, 1, 1], s[..3].to_vec(), None));
    }
    if ctx.thorough() {
        for s in &scripts4[..3] {
            configs.push((vec![2, 1, 1], s.clone(), None));
        }
        // 3 threads x 2 calls: preemption-bounded
        configs.push((vec![2, 2, 2], vec![-10, 5, 5, 100, 5, -10], Some(1)));
    }
    let cap: u64 = ctx.pick(4_000, 20_000);
    let mut total_exec = 0u64;
    let mut total_points = 0u64;
    let mut max_points = 0usize;
    let mut per_config: Vec<serde_json::Value> = Vec::new();
    for (calls, script, bound) in &configs {
        let mut first_bad: Option<(String, Vec<usize>)> = None;
        let mut evals: Vec<(String, String)> = Vec::new();
        let (stats, capped) = thrsched::explore_with(
            &thrsched::run_lockfree,
            &|| mk(calls, script),
            &mut |x: &Execution, obs: Observer| match judge(calls, script, x, &obs) {
                Ok(co) => evals.push(co),
                Err(msg) => {
                    if first_bad.is_none() {
                        first_bad = Some((msg, x.choices()));
                    }
                }
            },
            *bound,
            cap,
        );
        for (c, o) in &evals {
            ctx.eval(c, o);
        }
        if let Some((msg, schedule)) = first_bad {
            ctx.discrepancy(None, &msg, Case { calls: calls.clone(), script: script.clone(), schedule });
        }
        if capped {
            ctx.cap_hit(&format!("execution cap {cap} reached for calls {calls:?} script {script:?}"));
        }
        if calls.len() > 1 {
            ctx.sample(&format!("calls={calls:?} script={script:?}"), serde_json::json!({"calls": calls, "script": script, "preemption_bound": bound, "schedules": stats.executions, "max_decision_points": stats.max_points}));
        }
        if calls.len() > 1 {
            per_config.push(serde_json::json!({"calls": calls, "script": script, "preemption_bound": bound, "schedules": stats.executions, "max_decision_points": stats.max_points}));
        }
        total_exec += stats.executions;
        total_points += stats.decision_points;
        max_points = max_points.max(stats.max_points);
        if ctx.violations() > 0 {
            break;
        }
    }
    seams::clear_global();
    ctx.add_traces(total_exec);
    ctx.add_transitions(total_points);
    ctx.add_states(SEEN.lock().unwrap().as_ref().map(|s| s.len()).unwrap_or(0) as u64 + 1);
    ctx.extra("multi_thread_configurations", &per_config);
    ctx.bound("configurations", configs.len());
    ctx.bound("max_decision_points_per_execution", max_points);
    ctx.bound("max_threads", 3);
    ctx.bound("max_calls_total", ctx.pick(4, 6));
    ctx.bound("execution_cap_per_configuration", cap);
    ctx.finish();
}
