//! C32 Signed packets are accepted only if authentic and are safe to inspect — E0 exhaustive enumeration.
//!
//! Byte strings derived from deterministic, harness-signed seed packets (every single-byte change, two-byte changes,
//! truncations, extensions, adjacent swaps, field splices between packets, relay payloads under right/wrong keys,
//! small-order keys with forged signatures, raw fills) are offered to every public constructor of
//! `iroh_dns::pkarr::SignedPacket`; whatever a constructor returns is inspected through every accessor, `Display` and
//! `Debug` under `catch_unwind`.
//!
//! Oracle (from the statement): `from_bytes(b)` / `from_relay_payload(k, p)` accepted  ==>  the reference
//! verification holds (independent BEP44 signable `3:seqi<ts>e1:v<len>:<payload>`, ed25519-dalek *non-strict* verify
//! with the embedded / given key — the most permissive reading of "verifies") and the payload parses as a DNS
//! packet; a changed copy of an accepted packet is rejected; nothing
//! obtained from any constructor panics on inspection. Rejection of something the reference accepts is *not* a
//! violation (the statement says "only if"); it is visible as an outcome, and the run is vacuous (exit 2) unless the
//! seed packets themselves are accepted.
use curve25519_dalek::edwards::CompressedEdwardsY;
use ed25519_dalek::{Signature as DalekSig, VerifyingKey};
use iroh_base::{PublicKey, SecretKey};
use iroh_dns::pkarr::{SignedPacket, Timestamp};
use serde::{Deserialize, Serialize};
use vh_engine::*;

#[derive(Serialize, Deserialize, Clone, Debug)]
enum Case {
    /// packet built by the real `from_txt_strings`
    Honest { key: usize, name: String, values: Vec<String>, ttl: u32 },
    Mut { seed: usize, pos: usize, xor: u8 },
    Mut2 { seed: usize, pos1: usize, xor1: u8, pos2: usize, xor2: u8 },
    Trunc { seed: usize, len: usize },
    Extend { seed: usize, extra_hex: String },
    Swap { seed: usize, i: usize },
    /// key / signature / timestamp / payload each taken from one of the seeds
    Splice { key_from: usize, sig_from: usize, ts_from: usize, payload_from: usize },
    /// `from_relay_payload(key, seed[32 + skip ..])`
    Relay { seed: usize, key: usize, skip: usize },
    /// small-order key, small-order R, S = 0, over seed 0's payload
    WeakKey { key: usize, r: usize, ts: u64 },
    Raw { len: usize, fill: u8 },
    /// `from_parts_unchecked`
    Parts { key_kind: usize, sig_len: usize, ts: u64, enc_kind: usize },
    /// harness-signed (authentic signature) packet over a payload shape that may not parse
    SignedPayload { key: usize, ts: u64, enc_kind: usize },
    /// `from_bytes_unchecked` of a seed with the key bytes replaced
    UncheckedKey { seed: usize, key_kind: usize },
}

fn secrets() -> Vec<SecretKey> {
    vec![SecretKey::from_bytes(&[11u8; 32]), SecretKey::from_bytes(&[0x5au8; 32]), SecretKey::from_bytes(&[0xc3u8; 32])]
}

// ---------- independent reference ----------
fn ref_signable(ts: u64, payload: &[u8]) -> Vec<u8> {
    // BEP44: bencoded dictionary fragment "seq" (integer) then "v" (byte string), no salt
    let mut v = Vec::new();
    v.extend_from_slice(b"3:seq");
    v.push(b'i');
    v.extend_from_slice(ts.to_string().as_bytes());
    v.push(b'e');
    v.extend_from_slice(b"1:v");
    v.extend_from_slice(payload.len().to_string().as_bytes());
    v.push(b':');
    v.extend_from_slice(payload);
    v
}
fn ref_point_valid(b: &[u8]) -> bool {
    <[u8; 32]>::try_from(b).ok().is_some_and(|a| CompressedEdwardsY(a).decompress().is_some())
}
fn ref_verifies(b: &[u8]) -> bool {
    if b.len() < 104 {
        return false;
    }
    let Ok(key) = VerifyingKey::from_bytes(b[..32].try_into().unwrap()) else { return false };
    let sig = DalekSig::from_bytes(b[32..96].try_into().unwrap());
    let ts = u64::from_be_bytes(b[96..104].try_into().unwrap());
    key.verify_strict(&ref_signable(ts, &b[104..]), &sig).is_ok() || {
        use ed25519_dalek::Verifier;
        key.verify(&ref_signable(ts, &b[104..]), &sig).is_ok()
    }
}
fn ref_parses(b: &[u8]) -> bool {
    b.len() >= 104 && simple_dns::Packet::parse(&b[104..]).is_ok()
}
fn ref_authentic(b: &[u8]) -> bool {
    // (the statement does not mention the size limit, so the reference does not either)
    b.len() >= 104 && ref_verifies(b) && ref_parses(b)
}

// ---------- deterministic seeds (signed in the harness, independent of Timestamp::now) ----------
struct Seeds {
    packets: Vec<Vec<u8>>,
    keys: Vec<usize>,
}
fn dns_payload(key: &SecretKey, values: &[String]) -> Vec<u8> {
    SignedPacket::from_txt_strings(key, "_iroh", values.iter(), 30).expect("seed payload").encoded_packet().to_vec()
}
fn assemble(key: &SecretKey, ts: u64, payload: &[u8]) -> Vec<u8> {
    let sig = key.sign(&ref_signable(ts, payload));
    let mut b = Vec::new();
    b.extend_from_slice(key.public().as_bytes());
    b.extend_from_slice(&sig.to_bytes());
    b.extend_from_slice(&ts.to_be_bytes());
    b.extend_from_slice(payload);
    b
}
fn seeds() -> Seeds {
    let ks = secrets();
    let s0 = assemble(&ks[0], 1_700_000_000_000_001, &dns_payload(&ks[0], &["relay=https://r.example./".into(), "addr=1.2.3.4:5".into()]));
    let s1 = assemble(&ks[0], 1_700_000_000_000_002, &dns_payload(&ks[0], &["a".into()]));
    // maximal packet: DNS payload of exactly 1000 bytes
    let mut vals: Vec<String> = vec!["x".repeat(255), "y".repeat(255), "z".repeat(255), String::new()];
    let mut big = Vec::new();
    for n in 0..=255 {
        vals[3] = "w".repeat(n);
        let p = dns_payload(&ks[1], &vals);
        if p.len() == 1000 {
            big = p;
            break;
        }
    }
    if big.len() != 1000 {
        machinery_error("could not build a 1000-byte DNS payload for the maximal seed");
    }
    let s2 = assemble(&ks[1], u64::MAX, &big);
    Seeds { packets: vec![s0, s1, s2], keys: vec![0, 0, 1] }
}

const SMALL_ORDER: [&str; 8] = [
    "0100000000000000000000000000000000000000000000000000000000000000",
    "ecffffffffffffffffffffffffffffffffffffffffffffffffffffffffffff7f",
    "0000000000000000000000000000000000000000000000000000000000000080",
    "0000000000000000000000000000000000000000000000000000000000000000",
    "c7176a703d4dd84fba3c0b760d10670f2a2053fa2c39ccc64ec7fd7792ac037a",
    "c7176a703d4dd84fba3c0b760d10670f2a2053fa2c39ccc64ec7fd7792ac03fa",
    "26e8958fc2b227b045c3f489f2ef98f0d5dfac05d3c63339b13802886d53fc05",
    "26e8958fc2b227b045c3f489f2ef98f0d5dfac05d3c63339b13802886d53fc85",
];

/// 32-byte strings that are not curve points (found by search, checked at start-up)
fn invalid_keys() -> Vec<[u8; 32]> {
    let mut out = Vec::new();
    let mut y = 0u8;
    while out.len() < 3 {
        let mut b = [0u8; 32];
        b[0] = y;
        b[5] = 0x77;
        if !ref_point_valid(&b) {
            out.push(b);
        }
        y += 1;
    }
    out
}

/// Inspect a packet through every accessor; returns the list of accessors that panicked (with message).
fn inspect(p: &SignedPacket) -> Vec<(String, String)> {
    let mut bad = Vec::new();
    let mut t = |name: &str, r: Result<(), String>| {
        if let Err(m) = r {
            bad.push((name.to_string(), m));
        }
    };
    t("as_bytes", quiet_catch(|| drop(p.as_bytes().len())));
    t("to_relay_payload", quiet_catch(|| drop(p.to_relay_payload())));
    t("public_key", quiet_catch(|| drop(p.public_key())));
    t("signature", quiet_catch(|| drop(p.signature())));
    t("timestamp", quiet_catch(|| drop(p.timestamp().as_micros())));
    t("encoded_packet", quiet_catch(|| drop(p.encoded_packet().len())));
    for name in ["_iroh", "", "@", ".", "a.b.", "_iroh.", "x._iroh"] {
        t("txt_records", quiet_catch(|| drop(p.txt_records(name))));
    }
    t("all_txt_records", quiet_catch(|| drop(p.all_txt_records())));
    t("Display", quiet_catch(|| drop(p.to_string())));
    t("Debug", quiet_catch(|| drop(format!("{p:?}"))));
    t("more_recent_than", quiet_catch(|| drop(p.more_recent_than(p))));
    t("clone/eq", quiet_catch(|| drop(p.clone() == *p)));
    bad
}

enum Verdict {
    Ok(String),
    /// (finding key, message)
    Bad(Option<&'static str>, String),
}

/// inspection verdict for a packet obtained from constructor `ctor`
fn inspect_verdict(p: &SignedPacket, ctor: &str, unchecked: bool) -> Result<(), (Option<&'static str>, String)> {
    let bad = inspect(p);
    if bad.is_empty() {
        return Ok(());
    }
    let names: Vec<&str> = bad.iter().map(|b| b.0.as_str()).collect();
    // named deviation: the unchecked constructors do not validate the key bytes and every key-dependent accessor
    // `expect`s a valid key
    let only_key_expect = bad.iter().all(|b| b.1.contains("valid public key in SignedPacket"));
    let key_invalid = !ref_point_valid(&p.as_bytes()[..32]);
    let msg = format!("packet returned by {ctor} panics on inspection: {names:?} ({})", bad[0].1.lines().next().unwrap_or(""));
    if unchecked && only_key_expect && key_invalid {
        Err((Some("unchecked-invalid-key-panics"), msg))
    } else {
        Err((None, msg))
    }
}

/// Offer a byte string to from_bytes, from_relay_payload (embedded key) and from_bytes_unchecked.
/// `original`: the accepted packet this string was derived from by modification (if any).
fn check_bytes(b: &[u8], original: Option<&[u8]>) -> Verdict {
    let model = ref_authentic(b);
    let modified = original.is_some_and(|o| o != b);
    let r = SignedPacket::from_bytes(b);
    let mut out = String::new();
    match &r {
        Ok(p) => {
            if !model {
                return Verdict::Bad(
                    None,
                    format!(
                        "from_bytes accepted {} bytes that are not authentic (reference: signature verifies={} payload parses={})",
                        b.len(),
                        ref_verifies(b),
                        ref_parses(b)
                    ),
                );
            }
            if modified {
                return Verdict::Bad(None, "from_bytes accepted a modified copy of an accepted packet".into());
            }
            if p.as_bytes() != b {
                return Verdict::Bad(None, "accepted packet does not carry the offered bytes".into());
            }
            if let Err((k, m)) = inspect_verdict(p, "from_bytes", false) {
                return Verdict::Bad(k, m);
            }
            out.push_str("from_bytes:accept");
        }
        Err(_) => out.push_str(if model { "from_bytes:reject(reference-accepts)" } else { "from_bytes:reject" }),
    }
    // relay payload under the embedded key (only constructible when the key bytes are a key)
    if b.len() >= 32 {
        if let Ok(pk) = PublicKey::from_bytes(b[..32].try_into().unwrap()) {
            match SignedPacket::from_relay_payload(&pk, &b[32..]) {
                Ok(p) => {
                    if !model {
                        return Verdict::Bad(None, "from_relay_payload accepted a payload that is not authentic for the given key".into());
                    }
                    if modified {
                        return Verdict::Bad(None, "from_relay_payload accepted a modified copy of an accepted packet".into());
                    }
                    if let Err((k, m)) = inspect_verdict(&p, "from_relay_payload", false) {
                        return Verdict::Bad(k, m);
                    }
                    out.push_str(" relay:accept");
                }
                Err(_) => out.push_str(" relay:reject"),
            }
        } else {
            out.push_str(" relay:key-unconstructible");
        }
    }
    match SignedPacket::from_bytes_unchecked(b) {
        Ok(p) => {
            if let Err((k, m)) = inspect_verdict(&p, "from_bytes_unchecked", true) {
                return Verdict::Bad(k, m);
            }
            out.push_str(" unchecked:ok");
        }
        Err(_) => out.push_str(" unchecked:err"),
    }
    Verdict::Ok(out)
}

static ALL: std::sync::Mutex<std::collections::BTreeMap<String, u64>> = std::sync::Mutex::new(std::collections::BTreeMap::new());

fn run_case(ctx: &Ctx, seeds: &Seeds, case: &Case) {
    match quiet_catch(|| run_case_inner(seeds, case)) {
        Ok((class, Verdict::Ok(outcome))) => {
            *ALL.lock().unwrap().entry(format!("{class} => {outcome}")).or_insert(0) += 1;
            ctx.eval(&class, &outcome)
        }
        Ok((_, Verdict::Bad(k, msg))) => ctx.discrepancy(k, &msg, case),
        Err(p) => ctx.discrepancy(None, &format!("panic outside catch: {p}"), case),
    }
}

fn payload_shape(sd: &Seeds, enc_kind: usize) -> Vec<u8> {
    match enc_kind {
        0 => sd.packets[0][104..].to_vec(),
        1 => vec![],
        2 => vec![0u8; 12], // bare DNS header
        3 => vec![0xff; 50],
        4 => sd.packets[2][104..].to_vec(), // 1000 bytes
        5 => [&sd.packets[2][104..], &[0u8][..]].concat(), // 1001 bytes (trailing byte after the last record)
        6 => sd.packets[0][104..sd.packets[0].len() - 3].to_vec(), // cut inside the last record
        7 => vec![0u8; 11],
        _ => {
            // header announcing one answer that is missing
            let mut h = vec![0u8; 12];
            h[7] = 1;
            h
        }
    }
}

fn region(pos: usize) -> &'static str {
    match pos {
        0..=31 => "key",
        32..=95 => "sig",
        96..=103 => "ts",
        _ => "payload",
    }
}

fn run_case_inner(sd: &Seeds, case: &Case) -> (String, Verdict) {
    match case {
        Case::Honest { key, name, values, ttl } => {
            let sk = secrets()[*key].clone();
            let class = format!(
                "honest name:{} values:{}",
                match name.len() {
                    0 => "empty".to_string(),
                    n if n > 63 => "long".to_string(),
                    _ if name.is_ascii() => "ascii".to_string(),
                    _ => "non-ascii".to_string(),
                },
                values.len()
            );
            match SignedPacket::from_txt_strings(&sk, name, values.iter(), *ttl) {
                Err(_) => (class, Verdict::Ok("build-err".into())),
                Ok(p) => {
                    if let Err((k, m)) = inspect_verdict(&p, "from_txt_strings", false) {
                        return (class, Verdict::Bad(k, m));
                    }
                    if p.public_key() != sk.public() {
                        return (class, Verdict::Bad(None, "from_txt_strings packet carries another key".into()));
                    }
                    let b = p.as_bytes().to_vec();
                    match check_bytes(&b, None) {
                        Verdict::Ok(o) => (class, Verdict::Ok(format!("built parses={} {o}", ref_parses(&b)))),
                        bad => (class, bad),
                    }
                }
            }
        }
        Case::Mut { seed, pos, xor } => {
            let orig = &sd.packets[*seed];
            let mut b = orig.clone();
            b[*pos] ^= xor;
            (format!("mut1:{}", region(*pos)), check_bytes(&b, Some(orig)))
        }
        Case::Mut2 { seed, pos1, xor1, pos2, xor2 } => {
            let orig = &sd.packets[*seed];
            let mut b = orig.clone();
            b[*pos1] ^= xor1;
            b[*pos2] ^= xor2;
            (format!("mut2:{}+{}", region(*pos1), region(*pos2)), check_bytes(&b, Some(orig)))
        }
        Case::Trunc { seed, len } => {
            let orig = &sd.packets[*seed];
            ("truncate".into(), check_bytes(&orig[..*len], Some(orig)))
        }
        Case::Extend { seed, extra_hex } => {
            let orig = &sd.packets[*seed];
            let mut b = orig.clone();
            b.extend_from_slice(&unhex(extra_hex));
            ("extend".into(), check_bytes(&b, Some(orig)))
        }
        Case::Swap { seed, i } => {
            let orig = &sd.packets[*seed];
            let mut b = orig.clone();
            b.swap(*i, *i + 1);
            (format!("swap:{}", region(*i)), check_bytes(&b, Some(orig)))
        }
        Case::Splice { key_from, sig_from, ts_from, payload_from } => {
            let mut b = Vec::new();
            b.extend_from_slice(&sd.packets[*key_from][..32]);
            b.extend_from_slice(&sd.packets[*sig_from][32..96]);
            b.extend_from_slice(&sd.packets[*ts_from][96..104]);
            b.extend_from_slice(&sd.packets[*payload_from][104..]);
            let consistent = sig_from == ts_from && ts_from == payload_from && sd.keys[*key_from] == sd.keys[*sig_from];
            // a consistent splice is one of the seeds itself; anything else is a modification of the seed that gave the signature
            let orig = if consistent { None } else { Some(sd.packets[*sig_from].as_slice()) };
            (format!("splice:{}", if consistent { "consistent" } else { "mixed" }), check_bytes(&b, orig))
        }
        Case::Relay { seed, key, skip } => {
            let orig = &sd.packets[*seed];
            let pk = secrets()[*key].public();
            let payload = &orig[32 + skip..];
            let mut full = pk.as_bytes().to_vec();
            full.extend_from_slice(payload);
            let model = ref_authentic(&full);
            let right = sd.keys[*seed] == *key && *skip == 0;
            let class = format!("relay:{}", if right { "right-key" } else { "wrong-key-or-shifted" });
            match SignedPacket::from_relay_payload(&pk, payload) {
                Ok(p) => {
                    if !model {
                        return (class, Verdict::Bad(None, "from_relay_payload accepted a payload that is not authentic for the given key".into()));
                    }
                    if !right {
                        return (class, Verdict::Bad(None, "from_relay_payload accepted a payload under a key that did not sign it".into()));
                    }
                    if p.public_key() != pk || p.as_bytes() != &full[..] {
                        return (class, Verdict::Bad(None, "relay packet does not carry given key + payload".into()));
                    }
                    if let Err((k, m)) = inspect_verdict(&p, "from_relay_payload", false) {
                        return (class, Verdict::Bad(k, m));
                    }
                    (class, Verdict::Ok("accept".into()))
                }
                Err(_) => (class, Verdict::Ok(if model { "reject(reference-accepts)" } else { "reject" }.into())),
            }
        }
        Case::WeakKey { key, r, ts } => {
            let mut b = unhex(SMALL_ORDER[*key]);
            b.extend_from_slice(&unhex(SMALL_ORDER[*r]));
            b.extend_from_slice(&[0u8; 32]); // S = 0
            b.extend_from_slice(&ts.to_be_bytes());
            b.extend_from_slice(&sd.packets[0][104..]);
            let class = "weak-key-forgery".to_string();
            match check_bytes(&b, None) {
                Verdict::Ok(o) if o.starts_with("from_bytes:accept") => {
                    // accepted: then every change of the content must be rejected
                    let n = b.len();
                    for d in 1..=8u8 {
                        let mut m = b.clone();
                        m[n - 1] ^= d;
                        if SignedPacket::from_bytes(&m).is_ok() {
                            return (class, Verdict::Bad(None, format!("packet under small-order key accepted, and so is a modified copy (last byte ^ {d})")));
                        }
                    }
                    (class, Verdict::Ok(o))
                }
                v => (class, v),
            }
        }
        Case::Raw { len, fill } => {
            let b: Vec<u8> = (0..*len).map(|i| if *fill == 0xaa { (i as u8).wrapping_mul(31).wrapping_add(7) } else { *fill }).collect();
            (format!("raw:{}", if *len < 104 { "short" } else if *len > 1104 { "long" } else { "in-range" }), check_bytes(&b, None))
        }
        Case::SignedPayload { key, ts, enc_kind } => {
            let payload = payload_shape(sd, *enc_kind);
            let b = assemble(&secrets()[*key], *ts, &payload);
            let class = format!("signed-payload:{}", if ref_parses(&b) { "parses" } else { "does-not-parse" });
            if !ref_verifies(&b) {
                machinery_error("harness-signed packet does not verify under the reference");
            }
            (class, check_bytes(&b, None))
        }
        Case::UncheckedKey { seed, key_kind } => {
            let mut b = sd.packets[*seed].clone();
            let inv = invalid_keys();
            let (label, kb): (&str, [u8; 32]) = match key_kind {
                0 => ("other-valid-key", *secrets()[2].public().as_bytes()),
                k @ 1..=3 => ("not-a-point", inv[*k - 1]),
                k => ("small-order", unhex(SMALL_ORDER[(*k - 4) % 8]).try_into().unwrap()),
            };
            b[..32].copy_from_slice(&kb);
            (format!("unchecked-key:{label}"), check_bytes(&b, Some(&sd.packets[*seed])))
        }
        Case::Parts { key_kind, sig_len, ts, enc_kind } => {
            let inv = invalid_keys();
            let k0 = *secrets()[0].public().as_bytes();
            let key_bytes: Vec<u8> = match key_kind {
                0 => k0.to_vec(),
                1 => inv[0].to_vec(),
                2 => k0[..31].to_vec(),
                3 => [&k0[..], &[0u8][..]].concat(),
                4 => vec![],
                5 => [&k0[..], &k0[..]].concat(),
                _ => unhex(SMALL_ORDER[3]),
            };
            let sig: Vec<u8> = sd.packets[0][32..96].iter().copied().cycle().take(*sig_len).collect();
            let enc: Vec<u8> = payload_shape(sd, *enc_kind);
            let canonical = key_bytes.len() == 32 && sig.len() == 64;
            let class = format!("parts:{} key:{}", if canonical { "canonical-lengths" } else { "odd-lengths" }, if ref_point_valid(&key_bytes) { "point" } else { "not-a-point" });
            match SignedPacket::from_parts_unchecked(&key_bytes, &sig, Timestamp::from_micros(*ts), &enc) {
                Err(_) => (class, Verdict::Ok("err".into())),
                Ok(p) => {
                    if let Err((k, m)) = inspect_verdict(&p, "from_parts_unchecked", true) {
                        return (class, Verdict::Bad(k, m));
                    }
                    let preserved = canonical && p.timestamp().as_micros() == *ts && p.encoded_packet() == &enc[..] && p.signature().to_bytes()[..] == sig[..] && p.public_key().as_bytes()[..] == key_bytes[..];
                    (class, Verdict::Ok(format!("ok parts-preserved={preserved}")))
                }
            }
        }
    }
}

fn gen_cases(ctx: &Ctx, sd: &Seeds) -> Vec<Case> {
    let mut cases = Vec::new();
    // honest packets from arbitrary TXT content through the real builder
    let origin0 = secrets()[0].public().to_z32();
    let names: Vec<String> = vec![
        "_iroh".into(), "".into(), "@".into(), ".".into(), "a.b".into(), "a..b".into(), "_iroh.".into(), origin0.clone(), format!("x.{origin0}"), format!("x.{origin0}."),
        "l".repeat(63), "l".repeat(64), "l".repeat(200), format!("{}.{}.{}.{}", "a".repeat(63), "b".repeat(63), "c".repeat(63), "d".repeat(63)), "é".into(), "a b".into(), "\u{0}".into(),
        "*".into(), "x.@".into(),
    ];
    let value_sets: Vec<Vec<String>> = vec![
        vec![], vec!["".into()], vec!["a".into()], vec!["k=v".into(), "k=v".into()], vec!["é😀\u{0}".into()], vec!["v".repeat(255)], vec!["v".repeat(256)],
        vec!["v".repeat(255), "w".repeat(255), "x".repeat(255)], vec!["v".repeat(255), "w".repeat(255), "x".repeat(255), "y".repeat(255)],
    ];
    for (ni, name) in names.iter().enumerate() {
        for vs in &value_sets {
            for ttl in [0u32, 30, u32::MAX] {
                cases.push(Case::Honest { key: ni % 2, name: name.clone(), values: vs.clone(), ttl });
            }
        }
    }
    // single-byte changes
    for (si, pkt) in sd.packets.iter().enumerate() {
        for pos in 0..pkt.len() {
            let all = ctx.thorough() || (si != 1 && pos < 104) || (si == 0 && pos < 104 + 64);
            if all {
                for x in 1..=255u8 {
                    cases.push(Case::Mut { seed: si, pos, xor: x });
                }
            } else {
                for x in [0x01u8, 0x80, 0xff, 0x20] {
                    cases.push(Case::Mut { seed: si, pos, xor: x });
                }
            }
        }
        for len in 0..pkt.len() {
            cases.push(Case::Trunc { seed: si, len });
        }
        for i in 0..pkt.len() - 1 {
            if pkt[i] != pkt[i + 1] {
                cases.push(Case::Swap { seed: si, i });
            }
        }
        for extra in ["00", "ff", "0000", "c00c", "00000000000000000000"] {
            cases.push(Case::Extend { seed: si, extra_hex: extra.into() });
        }
    }
    // two-byte changes: every pair of positions from a grid covering each region of seed 0 and 1
    for si in 0..2 {
        let n = sd.packets[si].len();
        let step = ctx.pick(7, 2);
        let grid: Vec<usize> = (0..n).step_by(step).chain([31, 32, 95, 96, 103, 104, n - 1]).collect();
        for (a, &p1) in grid.iter().enumerate() {
            for &p2 in &grid[a + 1..] {
                if p1 != p2 {
                    for (x1, x2) in [(1u8, 1u8), (0x80, 0x80), (0xff, 0x01)] {
                        cases.push(Case::Mut2 { seed: si, pos1: p1, xor1: x1, pos2: p2, xor2: x2 });
                    }
                }
            }
        }
    }
    for k in 0..3 {
        for s in 0..3 {
            for t in 0..3 {
                for p in 0..3 {
                    cases.push(Case::Splice { key_from: k, sig_from: s, ts_from: t, payload_from: p });
                }
            }
        }
    }
    for seed in 0..3 {
        for key in 0..3 {
            for skip in [0usize, 1, 8, 64, 72] {
                cases.push(Case::Relay { seed, key, skip });
            }
        }
    }
    for key in 0..8 {
        for r in 0..8 {
            for ts in 0..ctx.pick(16u64, 64) {
                cases.push(Case::WeakKey { key, r, ts });
            }
        }
    }
    for len in (0..=120).chain(1090..=1110) {
        for fill in [0x00u8, 0x01, 0xff, 0xaa] {
            cases.push(Case::Raw { len, fill });
        }
    }
    for key in 0..3 {
        for ts in [0u64, 1, 9, 10, 1_700_000_000_000_001, u64::MAX - 1, u64::MAX] {
            for enc_kind in 0..9 {
                cases.push(Case::SignedPayload { key, ts, enc_kind });
            }
        }
    }
    for seed in 0..3 {
        for key_kind in 0..12 {
            cases.push(Case::UncheckedKey { seed, key_kind });
        }
    }
    for key_kind in 0..7 {
        for sig_len in [64usize, 63, 65, 0, 32, 96] {
            for ts in [0u64, 1_700_000_000_000_001, u64::MAX] {
                for enc_kind in 0..9 {
                    cases.push(Case::Parts { key_kind, sig_len, ts, enc_kind });
                }
            }
        }
    }
    cases
}

fn main() {
    let ctx = Ctx::from_args("C32", Level::Exploration);
    ctx.set_rule("3 deterministic harness-signed seed packets (2 small under key A, one maximal 1104-byte under key B): every single-byte change (quick: all 255 xor values in the 104 header bytes of seeds 0 and 2 and the first 64 payload bytes of seed 0, 4 xor values elsewhere; thorough: all positions x 255), two-byte changes on a position grid, every truncation, every adjacent swap, extensions, all 81 key/signature/timestamp/payload splices, relay payloads x 3 keys x 5 offsets, 8 small-order keys x 8 small-order R with S=0 x timestamps, raw fills of lengths 0..120 and 1090..1110, key replacement (valid / not-a-point / small-order) through from_bytes_unchecked, authentic harness signatures over 9 payload shapes (parsing and not parsing, 1000 and 1001 bytes) x 3 keys x 7 timestamps, from_parts_unchecked over 7 key shapes x 6 signature lengths x 3 timestamps x 9 payload shapes, and real from_txt_strings over 19 names x 9 value lists x 3 ttls; each byte string goes to from_bytes, from_relay_payload (embedded key) and from_bytes_unchecked, every returned packet through all accessors + Display + Debug; distinct = distinct (case class, outcome) pairs");
    ctx.assume("'verifies' = ed25519-dalek verify (strict or non-strict) over the BEP44 signable built independently in the harness; 'parses' = simple_dns::Packet::parse; curve-point validity = curve25519-dalek decompress");
    ctx.min_outcomes(20);
    let sd = seeds();
    // vacuity guard: the harness-signed seeds must be accepted by the real code and by the reference
    for (i, s) in sd.packets.iter().enumerate() {
        if !ref_authentic(s) {
            machinery_error(&format!("seed {i} is not authentic under the reference model"));
        }
    }
    if let Some(c) = ctx.replay_case::<Case>() {
        run_case(&ctx, &sd, &c);
        ctx.finish();
    }
    let accepted = sd.packets.iter().filter(|s| SignedPacket::from_bytes(s).is_ok()).count();
    ctx.extra("seeds_accepted_by_from_bytes", accepted);
    ctx.bound("seed_lengths", sd.packets.iter().map(|p| p.len()).collect::<Vec<_>>());
    if accepted == 0 {
        machinery_error("vacuous: none of the authentic seed packets is accepted by from_bytes (signable mismatch?)");
    }
    let cases = gen_cases(&ctx, &sd);
    for c in cases.iter().step_by((cases.len() / 11).max(1)) {
        ctx.sample(&format!("{c:?}").chars().take(10).collect::<String>(), c);
    }
    par_for_each(&cases, |c| run_case(&ctx, &sd, c));
    ctx.extra("all_class_outcome_pairs", &*ALL.lock().unwrap());
    ctx.finish();
}
