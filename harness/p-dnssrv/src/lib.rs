//! Drivers for the iroh-dns-server properties (C36..C39); shared helpers in `common`.
pub mod common;
