//! C38 DNS answers never go back behind an acknowledged publish — E2: every interleaving of the gated steps of
//! concurrent lookups (cache check | store read | cache fill) and publishes (store write | cache invalidation)
//! on the real ZoneStore / DnsHandler, enumerated by stateless DFS with re-execution.
use iroh_dns::pkarr::SignedPacket;
use iroh_dns_server::verif::c38::{App, GATE_AFTER_CACHE_MISS, GATE_AFTER_STORE_READ, GATE_AFTER_UPSERT, GATE_BEFORE_UPSERT};
use serde::{Deserialize, Serialize};
use std::collections::BTreeMap;
use std::sync::Mutex;
use std::time::{Duration, Instant};
use vh_engine::*;
use vh_p_dnssrv::common::*;

const GATES: [&str; 4] = [GATE_AFTER_CACHE_MISS, GATE_AFTER_STORE_READ, GATE_BEFORE_UPSERT, GATE_AFTER_UPSERT];

#[derive(Serialize, Deserialize, Clone, Debug, PartialEq, Eq, PartialOrd, Ord)]
enum Actor {
    /// DNS TXT lookup through `DnsHandler::answer_request` (-> NodeZoneHandler -> ZoneStore::resolve)
    Lookup,
    /// `ZoneStore::insert` of packet `PACKETS[i]`
    Publish(usize),
    /// `ZoneStore::insert` of a packet for a DIFFERENT key (its cache invalidation must not let a lookup of the
    /// first key re-fill the cache with a superseded packet — seeded change C38-seed63)
    PublishOther,
}

#[derive(Serialize, Deserialize, Clone, Debug, PartialEq, Eq, PartialOrd, Ord)]
struct Config {
    /// a lookup before the run has put the initial packet into the answer cache
    warm: bool,
    /// the published packets carry the SAME timestamp as the initial one (newer by payload bytes only)
    tie: bool,
    actors: Vec<Actor>,
}

#[derive(Serialize, Deserialize, Clone, Debug)]
struct Case {
    config: Config,
    /// which actor makes its next step (start, or pass the gate it is parked at)
    schedule: Vec<usize>,
}

/// packet i: (timestamp, TXT value); index 0 is the initial packet
fn packet_spec(tie: bool, i: usize) -> (u64, &'static str) {
    let txt = ["a", "b", "c"][i];
    let ts = if tie { 10 } else { 10 + 10 * i as u64 };
    (ts, txt)
}
fn packet(tie: bool, i: usize) -> (Vec<u8>, Vec<u8>) {
    let (ts, txt) = packet_spec(tie, i);
    let dns = dns_payload(&[Rec { name: format!("_iroh.{}", z32(0)), data: Data::Txt(txt.into()) }]);
    (honest_packet(&secret(0), ts, &dns), dns)
}
/// rank of packet i in the order "newer" of the statement: (timestamp, payload bytes)
fn rank(tie: bool, i: usize) -> (u64, Vec<u8>) {
    let (ts, _) = packet_spec(tie, i);
    (ts, packet(tie, i).1)
}
fn seen_index(a: &DnsAnswer) -> Result<usize, String> {
    if a.rcode != 0 || a.answers.len() != 1 {
        return Err(format!("lookup answered rcode {} with {} records", a.rcode, a.answers.len()));
    }
    match &a.answers[0].data {
        Data::Txt(s) => ["a", "b", "c"].iter().position(|t| t == s).ok_or_else(|| format!("unknown TXT {s}")),
        other => Err(format!("unexpected record {other:?}")),
    }
}

#[derive(Debug, Clone)]
enum Outcome {
    Seen(Result<usize, String>),
    Flag(Result<bool, String>),
}

#[derive(PartialEq, Clone, Copy)]
enum St {
    NotStarted,
    AtGate(&'static str),
    Done,
}

struct Rt {
    st: St,
    handle: Option<tokio::task::JoinHandle<Outcome>>,
    invoked: u64,
    returned: u64,
    outcome: Option<Outcome>,
}

struct RunResult {
    unfinished: Vec<usize>,
    /// Some at a leaf (all actors finished): Ok((class, outcome)) or Err(discrepancy)
    verdict: Option<Result<(String, String), String>>,
    gate_trace: String,
}

fn qname() -> String {
    format!("_iroh.{}.{}", z32(0), ORIGIN)
}

async fn run(config: &Config, schedule: &[usize]) -> Result<RunResult, String> {
    seams::reset_local();
    let mut opts = timeless_options();
    opts.cache_capacity = 8;
    let app = App::in_memory(opts, vec![ORIGIN.to_string(), ".".to_string()]).map_err(|e| format!("machinery: app: {e}"))?;
    // initial packet, ungated
    let p0 = SignedPacket::from_bytes(&packet(config.tie, 0).0).map_err(|e| format!("machinery: {e}"))?;
    if !app.insert(p0).await.map_err(|e| format!("machinery: initial insert: {e}"))? {
        return Err("machinery: initial insert not an update".into());
    }
    if config.warm {
        let a = udp_query(&app, &qname(), "TXT").await;
        if seen_index(&a) != Ok(0) {
            return Err(format!("machinery: warm-up lookup saw {a:?}"));
        }
    }
    for g in GATES {
        seams::arm(g);
    }
    let mut rts: Vec<Rt> = config.actors.iter().map(|_| Rt { st: St::NotStarted, handle: None, invoked: 0, returned: 0, outcome: None }).collect();
    let mut mirror: BTreeMap<&'static str, Vec<usize>> = GATES.iter().map(|g| (*g, Vec::new())).collect();
    let mut clock = 0u64;
    let mut gate_trace = String::new();
    let mut result: Result<(), String> = Ok(());
    'steps: for &i in schedule {
        match rts[i].st {
            St::Done => {
                result = Err("machinery: schedule steps a finished actor".into());
                break 'steps;
            }
            St::NotStarted => {
                clock += 1;
                rts[i].invoked = clock;
                let app2 = app.clone();
                let actor = config.actors[i].clone();
                let tie = config.tie;
                rts[i].handle = Some(tokio::spawn(async move {
                    match actor {
                        Actor::Lookup => Outcome::Seen(seen_index(&udp_query(&app2, &qname(), "TXT").await)),
                        Actor::Publish(p) => match SignedPacket::from_bytes(&packet(tie, p).0) {
                            Ok(sp) => Outcome::Flag(app2.insert(sp).await.map_err(|e| e.to_string())),
                            Err(e) => Outcome::Flag(Err(e.to_string())),
                        },
                        Actor::PublishOther => {
                            let dns = dns_payload(&[Rec { name: format!("_iroh.{}", z32(1)), data: Data::Txt("other".into()) }]);
                            match SignedPacket::from_bytes(&honest_packet(&secret(1), 50, &dns)) {
                                Ok(sp) => Outcome::Flag(app2.insert(sp).await.map_err(|e| e.to_string())),
                                Err(e) => Outcome::Flag(Err(e.to_string())),
                            }
                        }
                    }
                }));
            }
            St::AtGate(label) => {
                let q = mirror.get_mut(label).unwrap();
                let pos = q.iter().position(|&a| a == i).expect("mirror");
                q.remove(pos);
                if !seams::release_nth(label, pos) {
                    result = Err("machinery: gate mirror out of sync".into());
                    break 'steps;
                }
            }
        }
        // run until actor i parks at its next gate or finishes (positive events only)
        let t0 = Instant::now();
        let mut spins = 0u32;
        loop {
            tokio::task::yield_now().await;
            if rts[i].handle.as_ref().unwrap().is_finished() {
                let out = rts[i].handle.take().unwrap().await.map_err(|e| format!("actor task failed: {e}"));
                clock += 1;
                rts[i].returned = clock;
                rts[i].st = St::Done;
                match out {
                    Ok(o) => rts[i].outcome = Some(o),
                    Err(e) => {
                        result = Err(e);
                        break 'steps;
                    }
                }
                gate_trace.push_str(&format!("{i}:done "));
                break;
            }
            if let Some(g) = GATES.iter().find(|g| seams::waiting(g) > mirror[**g].len()) {
                mirror.get_mut(*g).unwrap().push(i);
                rts[i].st = St::AtGate(g);
                gate_trace.push_str(&format!("{i}:{} ", g.rsplit('.').next().unwrap()));
                break;
            }
            spins += 1;
            if spins % 256 == 0 {
                tokio::time::sleep(Duration::from_millis(1)).await;
            }
            if t0.elapsed() > Duration::from_secs(20) {
                result = Err("machinery: actor neither parked nor finished within 20 s".into());
                break 'steps;
            }
        }
    }
    let unfinished: Vec<usize> = (0..rts.len()).filter(|&i| rts[i].st != St::Done).collect();
    let mut verdict = None;
    if result.is_ok() && unfinished.is_empty() {
        verdict = Some(judge(config, &app, &rts, clock).await);
    }
    // tear down: nothing of this execution may survive on the worker's runtime
    for g in GATES {
        seams::disarm(g);
    }
    for rt in rts.iter_mut() {
        if let Some(h) = rt.handle.take() {
            h.abort();
            let _ = h.await;
        }
    }
    drop(app);
    seams::clear_local();
    result?;
    Ok(RunResult { unfinished, verdict, gate_trace })
}

/// Oracle, from the statement (read as: an answer to a lookup *invoked* after the acknowledgement).
async fn judge(config: &Config, app: &App, rts: &[Rt], clock: u64) -> Result<(String, String), String> {
    for g in GATES {
        seams::disarm(g);
    }
    let tie = config.tie;
    // acknowledged updates: (return time, packet)
    let mut acked: Vec<(u64, usize)> = Vec::new();
    let mut flags = Vec::new();
    for (i, a) in config.actors.iter().enumerate() {
        if let Actor::Publish(p) = a {
            match rts[i].outcome.as_ref().unwrap() {
                Outcome::Flag(Ok(f)) => {
                    flags.push(format!("P{p}={}", if *f { "update" } else { "noop" }));
                    if *f {
                        acked.push((rts[i].returned, *p));
                    }
                }
                other => return Err(format!("publish {p} failed: {other:?}")),
            }
        }
    }
    let floor = |invoked: u64| -> usize {
        // newest packet among the initial one and the updates acknowledged before `invoked`
        let mut best = 0usize;
        for (ret, p) in &acked {
            if *ret < invoked && rank(tie, *p) > rank(tie, best) {
                best = *p;
            }
        }
        best
    };
    let mut seen_desc = Vec::new();
    for (i, a) in config.actors.iter().enumerate() {
        if *a == Actor::Lookup {
            let seen = match rts[i].outcome.as_ref().unwrap() {
                Outcome::Seen(Ok(s)) => *s,
                other => return Err(format!("concurrent lookup (actor {i}) failed: {other:?}")),
            };
            // only packets whose publish had been invoked before the lookup returned can be seen
            let known = seen == 0 || config.actors.iter().enumerate().any(|(j, b)| *b == Actor::Publish(seen) && rts[j].invoked < rts[i].returned);
            if !known {
                return Err(format!("lookup (actor {i}) saw packet {seen} before it was published"));
            }
            let fl = floor(rts[i].invoked);
            if rank(tie, seen) < rank(tie, fl) {
                return Err(format!("lookup (actor {i}) invoked after the update to packet {fl} was acknowledged answered from older packet {seen}"));
            }
            seen_desc.push(format!("L{i}={seen}"));
        }
    }
    // later reads, invoked after everything returned
    let fl = floor(clock + 1);
    let mut later = Vec::new();
    for round in 0..2 {
        let a = if round == 0 { udp_query(app, &qname(), "TXT").await } else { doh_query(app, &qname(), "TXT").await };
        let seen = seen_index(&a).map_err(|e| format!("later lookup failed: {e}"))?;
        if rank(tie, seen) < rank(tie, fl) {
            return Err(format!(
                "later DNS lookup (round {round}, invoked after all publishes returned; packet {fl} acknowledged as update) answered from older packet {seen}"
            ));
        }
        later.push(seen);
    }
    let got = app.get_signed_packet(&secret(0).public()).await.map_err(|e| e.to_string())?.ok_or("later packet read: none")?;
    let idx = (0..3).find(|&i| packet(tie, i).0 == got.as_bytes()).ok_or("later packet read: unknown packet")?;
    if rank(tie, idx) < rank(tie, fl) {
        return Err(format!("later packet read returned packet {idx}, older than acknowledged update {fl}"));
    }
    let g = http_get(app, &z32(0)).await;
    if g.status != 200 || rank(tie, (0..3).find(|&i| packet(tie, i).0[32..] == g.body[..]).ok_or("GET: unknown packet")?) < rank(tie, fl) {
        return Err(format!("later GET /pkarr older than acknowledged update {fl}"));
    }
    let class = format!("{}{} {:?}", if config.warm { "warm" } else { "cold" }, if tie { "/tie" } else { "" }, config.actors);
    let outcome = format!("{} {} later={:?}", flags.join(","), seen_desc.join(","), later);
    Ok((class, outcome))
}

struct Stats {
    traces: Mutex<std::collections::BTreeSet<String>>,
}

fn exec(ctx: &Ctx, stats: &Stats, config: &Config, schedule: &[usize]) -> Vec<usize> {
    let r = quiet_catch(|| block_on(run(config, schedule)));
    ctx.add_traces(1);
    ctx.add_transitions(schedule.len() as u64);
    let case = Case { config: config.clone(), schedule: schedule.to_vec() };
    match r {
        Ok(Ok(res)) => {
            if let Some(v) = res.verdict {
                stats.traces.lock().unwrap().insert(format!("{:?} {}", config, res.gate_trace));
                match v {
                    Ok((class, outcome)) => {
                        ctx.eval(&class, &outcome);
                        ctx.sample(&outcome, &case);
                    }
                    Err(msg) if msg.starts_with("machinery:") => machinery_error(&msg),
                    Err(msg) => ctx.discrepancy(None, &format!("{msg} [gates passed: {}]", res.gate_trace.trim()), &case),
                }
            }
            res.unfinished
        }
        Ok(Err(msg)) if msg.starts_with("machinery:") => machinery_error(&format!("{msg} ({case:?})")),
        Ok(Err(msg)) => {
            ctx.discrepancy(None, &msg, &case);
            vec![]
        }
        Err(p) => {
            ctx.discrepancy(None, &format!("panic: {p}"), &case);
            vec![]
        }
    }
}

/// stateless DFS: every node re-executes its schedule prefix from a fresh server
fn dfs(ctx: &Ctx, stats: &Stats, config: &Config, prefix: &mut Vec<usize>, leaves: &mut u64) {
    let enabled = exec(ctx, stats, config, prefix);
    if enabled.is_empty() {
        *leaves += 1;
        return;
    }
    for a in enabled {
        prefix.push(a);
        dfs(ctx, stats, config, prefix, leaves);
        prefix.pop();
    }
}

fn main() {
    let ctx = Ctx::from_args("C38", Level::ModelChecking);
    vh_hooks::install();
    ctx.set_rule("stateless DFS over schedules: at every point any unfinished actor may make its next step (start; pass the gate after the cache miss; pass the gate after the store read; pass the gate before the upsert; pass the gate after the upsert); a step runs the real code until that actor parks at its next gate or returns; every prefix is re-executed from a fresh real ZoneStore+DnsHandler; configurations = {cold, warm answer cache} x {newer timestamp, equal timestamp + greater payload} x actor sets; after each complete schedule later reads (UDP-path lookup, DoH lookup, packet read, pkarr GET) are issued; states = distinct (configuration, gate-passing order) traces");
    ctx.assume("a lookup may answer from any packet at least as new as every update acknowledged BEFORE THE LOOKUP WAS INVOKED (linearizability reading of 'later answer'); lookups overlapping a publish may see either side");
    ctx.assume("granularity: code between two gates runs atomically w.r.t. other actors (single-threaded runtime); the store actor thread is a FIFO consumer");
    ctx.min_outcomes(4);
    let stats = Stats { traces: Mutex::new(Default::default()) };
    if let Some(c) = ctx.replay_case::<Case>() {
        let left = exec(&ctx, &stats, &c.config, &c.schedule);
        if !left.is_empty() {
            println!("replayed schedule is a prefix; unfinished actors {left:?}");
        }
        ctx.finish();
    }
    let mut actor_sets: Vec<Vec<Actor>> = vec![vec![Actor::Lookup, Actor::Publish(1)]];
    if ctx.thorough() {
        actor_sets.push(vec![Actor::Lookup, Actor::Lookup, Actor::Publish(1)]);
        actor_sets.push(vec![Actor::Lookup, Actor::Publish(1), Actor::Publish(2)]);
    }
    // both tiers: a publish for another key interleaved with the lookup and the publish of the first key
    actor_sets.push(vec![Actor::Lookup, Actor::Publish(1), Actor::PublishOther]);
    let mut roots: Vec<(Config, usize)> = Vec::new();
    for actors in &actor_sets {
        for warm in [false, true] {
            for tie in [false, true] {
                for first in 0..actors.len() {
                    roots.push((Config { warm, tie, actors: actors.clone() }, first));
                }
            }
        }
    }
    ctx.bound("actor_sets", format!("{actor_sets:?}"));
    ctx.bound("configurations", roots.len());
    let leaves = Mutex::new(0u64);
    par_for_each(&roots, |(config, first)| {
        let mut n = 0;
        dfs(&ctx, &stats, config, &mut vec![*first], &mut n);
        *leaves.lock().unwrap() += n;
    });
    ctx.bound("complete_schedules", *leaves.lock().unwrap());
    ctx.add_states(stats.traces.lock().unwrap().len() as u64);
    ctx.finish();
}
