//! C39 DNS packet store survives crashes consistently and evicts only expired packets.
//!
//! Part A (E4 crash-point enumeration): a recording `redb::StorageBackend` logs every write / set_len / sync of a
//! publish + evict workload on the real store, interleaved with the store's own batch/commit events. For EVERY
//! prefix of the log and every subset (up to the limit; above it a reported cap) of the not-yet-synced writes of
//! that prefix dropped, the disk image is materialised, redb recovery and the real store are reopened on it and
//! the content is compared with the reference model of committed batches. The workloads contain batches opened by
//! every kind of message that can open one (publish, lookup, eviction check) with publishes joining them; the
//! batch shapes are measured from the store's message events and required.
//! Part B (E1): every history of publishes (timestamps on both sides of the retention cut-off) and eviction steps
//! (scan, then one CheckExpired at a time) on the live store, then reopened.
use iroh_dns::pkarr::SignedPacket;
use iroh_dns_server::verif::c39::*;
use redb::{MultimapTableDefinition, ReadableDatabase, ReadableMultimapTable, ReadableTable, StorageBackend, TableDefinition};
use serde::{Deserialize, Serialize};
use std::collections::{BTreeMap, BTreeSet};
use std::sync::atomic::{AtomicBool, Ordering};
use std::sync::{Arc, Mutex};
use std::time::{Duration, Instant};
use vh_engine::*;
use vh_p_dnssrv::common::*;

const GATE_BEFORE_CE: &str = GATE_BEFORE_CHECK_EXPIRED;
/// eviction cut-off owned through the seam (microseconds)
const CUTOFF: u64 = 1_000_000_000;
const NKEYS: usize = 3;
/// keys used by the eviction histories of part B
const HKEYS: usize = 2;

// ---------------------------------------------------------------- recording backend + event marks
#[derive(Clone, Debug)]
enum Entry {
    Write { off: u64, data: Vec<u8> },
    SetLen(u64),
    Sync,
    Mark(&'static str, String),
}
static LOG: Mutex<Vec<Entry>> = Mutex::new(Vec::new());
static RECORDING: AtomicBool = AtomicBool::new(false);

#[derive(Debug)]
struct MemBackend {
    data: Arc<Mutex<Vec<u8>>>,
    record: bool,
}
impl MemBackend {
    fn image(bytes: Vec<u8>) -> Self {
        MemBackend { data: Arc::new(Mutex::new(bytes)), record: false }
    }
}
impl StorageBackend for MemBackend {
    fn len(&self) -> Result<u64, std::io::Error> {
        Ok(self.data.lock().unwrap().len() as u64)
    }
    fn read(&self, offset: u64, out: &mut [u8]) -> Result<(), std::io::Error> {
        let d = self.data.lock().unwrap();
        let (o, n) = (offset as usize, out.len());
        if o + n > d.len() {
            return Err(std::io::Error::new(std::io::ErrorKind::UnexpectedEof, "read past end"));
        }
        out.copy_from_slice(&d[o..o + n]);
        Ok(())
    }
    fn set_len(&self, len: u64) -> Result<(), std::io::Error> {
        if self.record && RECORDING.load(Ordering::SeqCst) {
            LOG.lock().unwrap().push(Entry::SetLen(len));
        }
        self.data.lock().unwrap().resize(len as usize, 0);
        Ok(())
    }
    fn sync_data(&self) -> Result<(), std::io::Error> {
        if self.record && RECORDING.load(Ordering::SeqCst) {
            LOG.lock().unwrap().push(Entry::Sync);
        }
        Ok(())
    }
    fn write(&self, offset: u64, data: &[u8]) -> Result<(), std::io::Error> {
        if self.record && RECORDING.load(Ordering::SeqCst) {
            LOG.lock().unwrap().push(Entry::Write { off: offset, data: data.to_vec() });
        }
        let mut d = self.data.lock().unwrap();
        let (o, n) = (offset as usize, data.len());
        if o + n > d.len() {
            return Err(std::io::Error::new(std::io::ErrorKind::UnexpectedEof, "write past end"));
        }
        d[o..o + n].copy_from_slice(data);
        Ok(())
    }
}

fn hook_event(label: &'static str, data: String) {
    if RECORDING.load(Ordering::SeqCst) {
        LOG.lock().unwrap().push(Entry::Mark(label, data));
    }
}
fn hook_pause(_: &'static str) {}

// ---------------------------------------------------------------- packets and reference model
/// packet `p` of key `k`: timestamp relative to the cut-off, payload
#[derive(Serialize, Deserialize, Clone, Copy, Debug, PartialEq, Eq, PartialOrd, Ord, Hash)]
struct Pkt {
    key: usize,
    rel: i64,
    payload: usize,
}
impl Pkt {
    fn ts(&self) -> u64 {
        (CUTOFF as i64 + self.rel) as u64
    }
    fn dns(&self) -> Vec<u8> {
        dns_payload(&[Rec { name: format!("_iroh.{}", z32(self.key)), data: Data::Txt(format!("k{}r{}p{}", self.key, self.rel, self.payload)) }])
    }
    fn bytes(&self) -> Vec<u8> {
        honest_packet(&secret(self.key), self.ts(), &self.dns())
    }
    fn rank(&self) -> (u64, Vec<u8>) {
        (self.ts(), self.dns())
    }
}

#[derive(Clone, Default, PartialEq, Eq, Debug)]
struct Model {
    stored: BTreeMap<usize, Pkt>,
}
#[derive(Clone, Debug, PartialEq, Eq)]
enum Msg {
    Upsert(Pkt),
    CheckExpired(usize),
    Other,
}
impl Model {
    fn apply(&mut self, m: &Msg) {
        match m {
            Msg::Upsert(p) => {
                let newer = match self.stored.get(&p.key) {
                    None => true,
                    Some(s) => p.rank() >= s.rank(),
                };
                if newer {
                    self.stored.insert(p.key, *p);
                }
            }
            // eviction removes exactly the packets older than the retention cut-off
            Msg::CheckExpired(k) => {
                if self.stored.get(k).map(|s| s.ts() < CUTOFF).unwrap_or(false) {
                    self.stored.remove(k);
                }
            }
            Msg::Other => {}
        }
    }
}

// ---------------------------------------------------------------- driving the live store
#[derive(Serialize, Deserialize, Clone, Debug, PartialEq, Eq, PartialOrd, Ord)]
enum Op {
    Publish(Pkt),
    /// one step of the eviction task: start a cycle (snapshot + scan) or send the next CheckExpired
    EvictStep,
    /// a read (counts as a message of the write batch)
    Get(usize),
}

struct Live {
    app: Option<App>,
    data: Arc<Mutex<Vec<u8>>>,
    batch_size: usize,
    /// harness-side list of published packets in send order (k-th Upsert mark <-> k-th entry)
    sent: Vec<Pkt>,
    marks_seen: usize,
    upserts_seen: usize,
    model: Model,
    /// messages handled in the currently open batch (None = no batch open), from the marks
    in_batch: Option<usize>,
    evict_at: &'static str,
}

fn key_index_of(z: &str) -> Option<usize> {
    (0..NKEYS).find(|&k| z32(k) == z)
}

fn parse_msg(data: &str, sent: &[Pkt], upserts_seen: &mut usize) -> Result<Msg, String> {
    if data.starts_with("Upsert") {
        let p = *sent.get(*upserts_seen).ok_or("machinery: more Upsert messages handled than sent")?;
        *upserts_seen += 1;
        Ok(Msg::Upsert(p))
    } else if data.starts_with("CheckExpired") {
        let z = data.split("PublicKeyBytes(").nth(1).and_then(|s| s.split(')').next()).ok_or("machinery: cannot parse CheckExpired")?;
        Ok(Msg::CheckExpired(key_index_of(z).ok_or("machinery: CheckExpired for unknown key")?))
    } else {
        Ok(Msg::Other)
    }
}

async fn wait_until(what: &str, mut f: impl FnMut() -> bool) -> Result<(), String> {
    let t0 = Instant::now();
    let mut spins = 0u32;
    while !f() {
        tokio::task::yield_now().await;
        spins += 1;
        if spins % 64 == 0 {
            tokio::time::sleep(Duration::from_millis(1)).await;
        }
        if t0.elapsed() > Duration::from_secs(30) {
            return Err(format!("machinery: timeout waiting for {what}"));
        }
    }
    Ok(())
}

impl Live {
    async fn start(batch_size: usize) -> Result<Live, String> {
        seams::reset_global();
        seams::set_clock(|label, real| if label == SEAM_EVICT_CUTOFF { CUTOFF } else { real });
        seams::arm(GATE_EVICT_CYCLE);
        seams::arm(GATE_BEFORE_CE);
        LOG.lock().unwrap().clear();
        RECORDING.store(true, Ordering::SeqCst);
        let data = Arc::new(Mutex::new(Vec::new()));
        let backend = MemBackend { data: data.clone(), record: true };
        let db = redb::Database::builder().create_with_backend(backend).map_err(|e| format!("machinery: create db: {e}"))?;
        let opts = StoreOptions {
            max_batch_size: batch_size,
            max_batch_time: Duration::from_secs(3600),
            eviction: Duration::from_secs(1), // unused: the cut-off comes from the seam
            eviction_interval: Duration::ZERO, // cycles are started by the gate only
            cache_capacity: 8,
        };
        let app = App::new(db, opts, vec![ORIGIN.to_string(), ".".to_string()]).map_err(|e| format!("machinery: app: {e}"))?;
        wait_until("evict task to park", || seams::waiting(GATE_EVICT_CYCLE) == 1).await?;
        Ok(Live { app: Some(app), data, batch_size, sent: vec![], marks_seen: 0, upserts_seen: 0, model: Model::default(), in_batch: None, evict_at: GATE_EVICT_CYCLE })
    }

    /// consume the marks logged since the last call: update model and batch bookkeeping
    fn absorb(&mut self) -> Result<(), String> {
        let log = LOG.lock().unwrap();
        let marks: Vec<(&'static str, String)> = log.iter().filter_map(|e| if let Entry::Mark(l, d) = e { Some((*l, d.clone())) } else { None }).collect();
        drop(log);
        for (l, d) in &marks[self.marks_seen..] {
            match *l {
                EVENT_BATCH_BEGIN => self.in_batch = Some(0),
                EVENT_COMMIT => self.in_batch = None,
                EVENT_MSG => {
                    if let Some(n) = self.in_batch.as_mut() {
                        *n += 1;
                    }
                    let m = parse_msg(d, &self.sent, &mut self.upserts_seen)?;
                    self.model.apply(&m);
                }
                _ => {}
            }
        }
        self.marks_seen = marks.len();
        Ok(())
    }

    /// after a reply: if the reply's message filled the batch, wait for the commit to be logged
    async fn settle(&mut self) -> Result<(), String> {
        self.absorb()?;
        if self.in_batch == Some(self.batch_size) {
            let target = self.marks_seen;
            wait_until("commit mark", || LOG.lock().unwrap().iter().filter(|e| matches!(e, Entry::Mark(..))).count() > target).await?;
            self.absorb()?;
        }
        Ok(())
    }

    async fn get(&mut self, k: usize) -> Result<Option<Vec<u8>>, String> {
        let r = self.app.as_ref().unwrap().get_signed_packet(&secret(k).public()).await.map_err(|e| format!("get failed: {e}"))?;
        self.settle().await?;
        Ok(r.map(|p| p.as_bytes().to_vec()))
    }

    async fn step(&mut self, op: &Op) -> Result<String, String> {
        match op {
            Op::Publish(p) => {
                let before = self.model.clone();
                let sp = SignedPacket::from_bytes(&p.bytes()).map_err(|e| format!("machinery: {e}"))?;
                self.sent.push(*p);
                let flag = self.app.as_ref().unwrap().insert(sp).await.map_err(|e| format!("insert failed: {e}"))?;
                self.settle().await?;
                let became = self.model.stored.get(&p.key) == Some(p);
                let identical = before.stored.get(&p.key) == Some(p);
                if !identical && flag != became {
                    return Err(format!("publish {p:?} acknowledged update={flag}, reference {became}"));
                }
                Ok(format!("publish:{}", if p.ts() < CUTOFF { "old" } else { "fresh" }))
            }
            Op::Get(k) => {
                let got = self.get(*k).await?;
                if got != self.model.stored.get(k).map(|p| p.bytes()) {
                    return Err(format!("read of key{k} differs from the reference model"));
                }
                Ok("get".into())
            }
            Op::EvictStep => {
                let at = self.evict_at;
                let before = (seams::arrivals(GATE_EVICT_CYCLE), seams::arrivals(GATE_BEFORE_CE));
                // every step makes the task send exactly one message (Snapshot or CheckExpired)
                let handled = || LOG.lock().unwrap().iter().filter(|e| matches!(e, Entry::Mark(l, _) if *l == EVENT_MSG || *l == EVENT_SNAPSHOT_OUTSIDE_BATCH)).count();
                let handled_before = handled();
                if !seams::release(at) {
                    return Err("machinery: evict task not parked".into());
                }
                wait_until("evict task to park again", || (seams::arrivals(GATE_EVICT_CYCLE), seams::arrivals(GATE_BEFORE_CE)) != before && seams::waiting(GATE_EVICT_CYCLE) + seams::waiting(GATE_BEFORE_CE) == 1).await?;
                self.evict_at = if seams::waiting(GATE_BEFORE_CE) == 1 { GATE_BEFORE_CE } else { GATE_EVICT_CYCLE };
                // like publish and get, the step returns only when the actor has handled the message and, if it
                // filled the batch, the commit has returned: otherwise the next step could let the eviction task
                // drop its read snapshot while that commit is running (redb's page reclamation sees live readers,
                // the storage log would depend on the race)
                wait_until("the eviction task's message to be handled", || handled() > handled_before).await?;
                self.settle().await?;
                Ok(format!("evict:{}", if at == GATE_EVICT_CYCLE { "scan" } else { "check-expired" }))
            }
        }
    }

    /// complete the open batch with reads until it commits
    async fn flush(&mut self) -> Result<(), String> {
        self.get(0).await?; // make sure everything sent so far has been handled
        while self.in_batch.is_some() {
            self.get(0).await?;
        }
        Ok(())
    }

    /// run the eviction task until it is parked at the start of a cycle
    async fn finish_cycle(&mut self) -> Result<(), String> {
        while self.evict_at != GATE_EVICT_CYCLE {
            self.step(&Op::EvictStep).await?;
        }
        Ok(())
    }

    /// drop the store (commits an open batch), stop recording, return the final image
    fn stop(&mut self) -> Vec<u8> {
        self.app.take();
        RECORDING.store(false, Ordering::SeqCst);
        seams::clear_global();
        self.data.lock().unwrap().clone()
    }
}

// ---------------------------------------------------------------- reopening an image
struct Reopened {
    /// key -> stored value bytes without the 8-byte last-seen prefix
    packets: BTreeMap<usize, Vec<u8>>,
    /// (timestamp, key)
    index: BTreeSet<(u64, usize)>,
    foreign_rows: usize,
}

const T_PACKETS: TableDefinition<&[u8; 32], &[u8]> = TableDefinition::new(SIGNED_PACKETS_TABLE);
const T_INDEX: MultimapTableDefinition<[u8; 8], [u8; 32]> = MultimapTableDefinition::new(UPDATE_TIME_TABLE);

/// Err(msg) = redb could not open the image
async fn reopen(image: Vec<u8>) -> Result<Result<Reopened, String>, String> {
    let db = match redb::Database::builder().create_with_backend(MemBackend::image(image)) {
        Ok(db) => db,
        Err(e) => return Ok(Err(format!("{e}"))),
    };
    let mut out = Reopened { packets: BTreeMap::new(), index: BTreeSet::new(), foreign_rows: 0 };
    {
        let tx = db.begin_read().map_err(|e| format!("begin_read after recovery: {e}"))?;
        match tx.open_table(T_PACKETS) {
            Ok(t) => {
                for row in t.iter().map_err(|e| format!("iterate packets: {e}"))? {
                    let (k, v) = row.map_err(|e| format!("read packet row: {e}"))?;
                    let key = *k.value();
                    let val = v.value().to_vec();
                    match (0..NKEYS).find(|&i| secret(i).public().as_bytes() == &key) {
                        Some(i) if val.len() >= 8 => {
                            out.packets.insert(i, val[8..].to_vec());
                        }
                        _ => out.foreign_rows += 1,
                    }
                }
            }
            Err(redb::TableError::TableDoesNotExist(_)) => {}
            Err(e) => return Err(format!("open packets table after recovery: {e}")),
        }
        match tx.open_multimap_table(T_INDEX) {
            Ok(t) => {
                for row in t.iter().map_err(|e| format!("iterate index: {e}"))? {
                    let (ts, keys) = row.map_err(|e| format!("read index row: {e}"))?;
                    let ts = u64::from_be_bytes(ts.value());
                    for k in keys {
                        let k = k.map_err(|e| format!("read index value: {e}"))?.value();
                        match (0..NKEYS).find(|&i| secret(i).public().as_bytes() == &k) {
                            Some(i) => {
                                out.index.insert((ts, i));
                            }
                            None => out.foreign_rows += 1,
                        }
                    }
                }
            }
            Err(redb::TableError::TableDoesNotExist(_)) => {}
            Err(e) => return Err(format!("open index table after recovery: {e}")),
        }
    }
    // the real store on the recovered database: every stored packet must read back byte for byte
    let app = App::new(db, timeless_options(), vec![ORIGIN.to_string(), ".".to_string()]).map_err(|e| format!("real store failed to open the recovered database: {e}"))?;
    for k in 0..NKEYS {
        let got = app.get_signed_packet(&secret(k).public()).await.map_err(|e| format!("real store read of key{k} after recovery failed: {e}"))?;
        if got.as_ref().map(|p| p.as_bytes().to_vec()) != out.packets.get(&k).cloned() {
            return Err(format!("key{k}: the real store reads back something else than the table row holds"));
        }
    }
    drop(app);
    Ok(Ok(out))
}

/// checks that do not depend on the crash point: bytes are published packets, every stored packet has its index row
fn check_shape(r: &Reopened, universe: &[Pkt]) -> Result<(BTreeMap<usize, Pkt>, usize), String> {
    if r.foreign_rows != 0 {
        return Err(format!("{} rows for keys that never published", r.foreign_rows));
    }
    let mut stored = BTreeMap::new();
    for (k, bytes) in &r.packets {
        let p = universe.iter().find(|p| p.key == *k && &p.bytes() == bytes).ok_or_else(|| format!("key{k} holds bytes that are not a packet published for it"))?;
        stored.insert(*k, *p);
        if !r.index.contains(&(p.ts(), *k)) {
            return Err(format!("key{k} holds packet ts={} but the expiry index has no row for it (index: {:?})", p.ts(), r.index));
        }
    }
    let dangling = r.index.iter().filter(|(ts, k)| stored.get(k).map(|p| p.ts()) != Some(*ts)).count();
    Ok((stored, dangling))
}

// ---------------------------------------------------------------- part A: crash enumeration
#[derive(Serialize, Deserialize, Clone, Debug)]
enum Case {
    Crash { workload: usize, prefix: usize, dropped: Vec<usize> },
    History { ops: Vec<Op> },
}

fn workload(i: usize) -> (usize, Vec<Op>) {
    let p = |key, rel, payload| Op::Publish(Pkt { key, rel, payload });
    match i {
        // batch size 2: two batches of publishes, one eviction cycle (2 CheckExpired), a fresh re-publish of an
        // evicted key, a no-op publish; the last batch is committed by the shutdown
        0 => (2, vec![p(0, -100, 0), p(1, 5, 0), p(0, -50, 0), p(2, -1, 0), Op::EvictStep, Op::EvictStep, Op::EvictStep, p(0, 10, 0), p(1, 20, 0), p(1, 5, 0)]),
        // batch size 3; ties; between the scan and its CheckExpired messages key0's old packet is replaced by a
        // newer but still evictable one (its eviction leaves a dangling index row until the next cycle) and key2
        // gets a fresh packet ("no longer expired"); a second cycle; a publish that is only committed by the shutdown
        1 => (
            3,
            vec![
                p(0, -100, 0), p(1, 0, 0), p(2, -7, 0), p(0, -100, 1), p(1, 0, 1), Op::EvictStep, p(0, -50, 0), Op::EvictStep, p(2, 3, 0), Op::EvictStep, Op::Get(0), p(0, -2, 0),
                p(2, 3, 1), Op::EvictStep, Op::EvictStep, Op::EvictStep, p(1, -1, 0), Op::Get(1),
            ],
        ),
        // batch size 2, batches opened by EVERY kind of message the actor accepts in a batch (Snapshot cannot open
        // one: as first message it is answered outside a write transaction). Every ordered pair (opener in
        // {Upsert, Get, CheckExpired}) x (second in {Upsert, Get, CheckExpired, Snapshot}) except CheckExpired+
        // CheckExpired (that one is in workload 0) occurs as a batch; in particular a lookup-opened and an
        // eviction-opened batch that a state-changing publish joins, and the reverse orders.
        // Determinism of the storage log: whenever a message of the eviction task is the one that fills a batch,
        // the task ends up parked before its next CheckExpired, i.e. its read snapshot is alive during the commit
        // (no race between the commit and the drop of the snapshot, which redb's page reclamation could see).
        2 => (
            2,
            vec![
                p(0, -100, 0), p(1, -90, 0), // [U,U]
                p(2, -80, 0), Op::Get(2), // [U,G]
                Op::EvictStep, // idle actor: snapshot outside a batch; scan reports key0,key1,key2; parked before CE(key0)
                p(0, 10, 0), Op::EvictStep, // [U,CE] CheckExpired(key0: no longer expired) joins
                Op::Get(1), Op::EvictStep, // [G,CE] CheckExpired(key1) joins a lookup-opened batch and evicts
                Op::EvictStep, p(1, 7, 0), // [CE,U] CheckExpired(key2) opens and evicts (cycle ends), fresh re-publish of key1 joins
                Op::Get(2), p(2, -60, 0), // [G,U] lookup opens, publish joins
                p(0, 20, 0), Op::EvictStep, // [U,S] next cycle's snapshot joins; scan reports key2
                Op::EvictStep, Op::Get(2), // [CE,G] CheckExpired(key2) opens and evicts (cycle ends), lookup joins
                p(2, -50, 0), Op::Get(0), // [U,G]
                Op::Get(1), Op::EvictStep, // [G,S] snapshot joins a lookup-opened batch; scan reports key2
                Op::EvictStep, Op::EvictStep, // [CE,S] CheckExpired(key2) opens and evicts, the next snapshot joins and still sees key2
                Op::EvictStep, p(2, 30, 0), // [CE,U] CheckExpired(key2: not found) opens, fresh re-publish joins
                Op::Get(0), Op::Get(1), // [G,G]
                p(1, 8, 0), // [U] committed by the shutdown
            ],
        ),
        // batch size 3 (thorough): openers of every kind with the publish in second or third place, mixed with the
        // other kinds: [U,U,U] [G,U,G] [CE,CE,U] [G,G,U] [CE,U,S] [G,CE,U] [CE,G,U] [G,S,U] [U,CE,G] [U]
        // (same determinism rule as workload 2: an eviction-task message fills a batch only when the task then
        // parks before its next CheckExpired)
        3 => (
            3,
            vec![
                p(0, -100, 0), p(1, -90, 0), p(2, -80, 0), // [U,U,U]
                Op::EvictStep, // idle: snapshot outside, scan reports key0,key1,key2
                Op::Get(0), p(0, -100, 1), Op::Get(0), // [G,U,G] tie on the timestamp, larger payload wins
                Op::EvictStep, Op::EvictStep, p(0, 15, 0), // [CE,CE,U] key0, key1 evicted, key0 re-published fresh
                Op::Get(1), Op::Get(2), p(1, -30, 0), // [G,G,U]
                Op::EvictStep, p(2, 25, 0), Op::EvictStep, // [CE,U,S] CE(key2) evicts, fresh re-publish, snapshot of the committed state (old key2, key1)
                Op::Get(0), Op::EvictStep, p(0, 15, 1), // [G,CE,U] CE(key2: no longer expired)
                Op::EvictStep, Op::Get(1), p(1, -20, 0), // [CE,G,U] CE(key1) evicts, re-published old
                Op::Get(2), Op::EvictStep, p(2, 25, 1), // [G,S,U] scan reports key1
                p(0, 40, 0), Op::EvictStep, Op::Get(1), // [U,CE,G] CE(key1) evicts
                Op::EvictStep, // idle: snapshot outside, nothing expired
                p(1, -5, 0), // [U] committed by the shutdown
            ],
        ),
        _ => unreachable!(),
    }
}

/// kind of a handled message from its Debug text (the `dnssrv.store.msg` mark)
fn kind_of(data: &str) -> &'static str {
    if data.starts_with("Upsert") {
        "U"
    } else if data.starts_with("Get") {
        "G"
    } else if data.starts_with("CheckExpired") {
        "CE"
    } else if data.starts_with("Snapshot") {
        "S"
    } else {
        "?"
    }
}

/// one write batch as observed in the log
#[derive(Clone, Debug)]
struct Batch {
    /// kinds of the messages handled in it, in order; the first one opened it
    kinds: Vec<&'static str>,
    /// publishes in it that changed the reference state (a packet a crash must not lose once the batch committed)
    effective_publishes: usize,
    /// effective publishes that are not the opener
    joined_effective_publishes: usize,
    /// "batch" | "cancel"
    committed_by: String,
    /// storage writes / syncs logged between the batch's begin and its commit mark
    writes: usize,
    syncs: usize,
}
impl Batch {
    fn shape(&self) -> String {
        format!("[{}]", self.kinds.join(","))
    }
    fn opener(&self) -> &'static str {
        self.kinds.first().copied().unwrap_or("-")
    }
}

struct Recorded {
    log: Vec<Entry>,
    universe: Vec<Pkt>,
    /// messages in handling order with the batch they belong to are derived from the marks
    created_at: usize,
}

async fn record(w: usize) -> Result<Recorded, String> {
    let (batch, ops) = workload(w);
    let mut live = Live::start(batch).await?;
    let created_at = LOG.lock().unwrap().len();
    for op in &ops {
        live.step(op).await?;
    }
    let universe = live.sent.clone();
    live.stop();
    let log = LOG.lock().unwrap().clone();
    Ok(Recorded { log, universe, created_at })
}

/// the reference states S_0..S_n after each logged commit, and for every log position the number of commits /
/// begun batches logged before it
struct Timeline {
    /// state after j commits
    states: Vec<Model>,
    commits_before: Vec<usize>,
    begins_before: Vec<usize>,
    /// the write batches in log order (batch j is the one whose commit produces states[j + 1])
    batches: Vec<Batch>,
}

fn timeline(rec: &Recorded) -> Result<Timeline, String> {
    let mut model = Model::default();
    let mut states = vec![model.clone()];
    let mut commits_before = Vec::with_capacity(rec.log.len() + 1);
    let mut begins_before = Vec::with_capacity(rec.log.len() + 1);
    let (mut c, mut b, mut ups) = (0, 0, 0);
    let mut batches: Vec<Batch> = Vec::new();
    for e in &rec.log {
        commits_before.push(c);
        begins_before.push(b);
        if let Entry::Mark(l, d) = e {
            match *l {
                EVENT_BATCH_BEGIN => {
                    b += 1;
                    batches.push(Batch { kinds: vec![], effective_publishes: 0, joined_effective_publishes: 0, committed_by: String::new(), writes: 0, syncs: 0 });
                }
                EVENT_MSG => {
                    let m = parse_msg(d, &rec.universe, &mut ups)?;
                    let before = model.clone();
                    model.apply(&m);
                    let cur = batches.last_mut().filter(|_| b == c + 1).ok_or("machinery: message handled outside a write batch")?;
                    if matches!(m, Msg::Upsert(_)) && model != before {
                        cur.effective_publishes += 1;
                        if !cur.kinds.is_empty() {
                            cur.joined_effective_publishes += 1;
                        }
                    }
                    cur.kinds.push(kind_of(d));
                }
                EVENT_COMMIT => {
                    c += 1;
                    states.push(model.clone());
                    batches.last_mut().filter(|_| b == c).ok_or("machinery: commit without an open batch")?.committed_by = d.clone();
                }
                _ => {}
            }
        } else if b == c + 1 {
            let cur = batches.last_mut().unwrap();
            match e {
                Entry::Write { .. } => cur.writes += 1,
                Entry::Sync => cur.syncs += 1,
                _ => {}
            }
        }
    }
    commits_before.push(c);
    begins_before.push(b);
    if b != c {
        return Err(format!("machinery: {b} batches begun, {c} committed at the end of the workload"));
    }
    Ok(Timeline { states, commits_before, begins_before, batches })
}

fn materialise(log: &[Entry], prefix: usize, dropped: &[usize]) -> Vec<u8> {
    let mut img: Vec<u8> = Vec::new();
    for (i, e) in log[..prefix].iter().enumerate() {
        match e {
            Entry::SetLen(n) => img.resize(*n as usize, 0),
            Entry::Write { off, data } => {
                if dropped.contains(&i) {
                    continue;
                }
                let (o, n) = (*off as usize, data.len());
                if img.len() < o + n {
                    img.resize(o + n, 0);
                }
                img[o..o + n].copy_from_slice(data);
            }
            _ => {}
        }
    }
    img
}

/// indices of the writes of `log[..prefix]` issued after the last sync of the prefix
fn unsynced(log: &[Entry], prefix: usize) -> Vec<usize> {
    let start = log[..prefix].iter().rposition(|e| matches!(e, Entry::Sync)).map(|i| i + 1).unwrap_or(0);
    (start..prefix).filter(|&i| matches!(log[i], Entry::Write { .. })).collect()
}

fn judge_crash(ctx: &Ctx, rec: &Recorded, tl: &Timeline, prefix: usize, dropped: &[usize]) -> Result<(String, String), String> {
    // marks directly following the prefix carry no I/O: the image is the same, the stronger knowledge applies
    let mut q = prefix;
    while q < rec.log.len() && matches!(rec.log[q], Entry::Mark(..)) {
        q += 1;
    }
    let durable = tl.commits_before[q];
    let begun = tl.begins_before[q];
    let img = materialise(&rec.log, prefix, dropped);
    let phase = if prefix < rec.created_at { "during-create" } else if prefix == rec.log.len() { "after-shutdown" } else { "workload" };
    // where the crash falls relative to the write batches: which kind of message opened the last batch whose
    // commit was logged (its publishes are what the crash must not lose) and the batch in flight, if any
    let at = format!(
        "last-commit:{}{}",
        if durable == 0 { "none".to_string() } else { format!("{}-opened", tl.batches[durable - 1].opener()) },
        if begun > durable { format!("+in-flight:{}-opened", tl.batches[begun - 1].opener()) } else { String::new() }
    );
    let class = format!("{phase}/{at}/dropped:{}", if dropped.is_empty() { "none" } else if dropped.len() == unsynced(&rec.log, prefix).len() { "all-unsynced" } else { "some" });
    let r = block_on(reopen(img))?;
    let r = match r {
        Ok(r) => r,
        Err(e) => {
            if prefix < rec.created_at {
                // crash while the empty database was being created: a clean open error is an acceptable answer
                return Ok((class, "unopenable (database never finished being created)".into()));
            }
            return Err(format!("redb cannot reopen the image: {e}"));
        }
    };
    let (stored, dangling) = check_shape(&r, &rec.universe)?;
    // primary: the recovered content is exactly the state after some commit between the last durable one and the
    // last one whose batch had begun
    let as_model = Model { stored: stored.clone() };
    let hit = (durable..=begun.min(tl.states.len() - 1)).find(|&j| tl.states[j] == as_model);
    let outcome = match hit {
        Some(j) if j == durable => "state of the last durable commit",
        Some(_) => "state of a commit that was in flight",
        None => {
            // statement level: per key a published packet at least as new as the durable one; a key may be absent
            // only if nothing durable exists for it or an eviction of an old packet was in flight
            let d = &tl.states[durable];
            for k in 0..NKEYS {
                match (d.stored.get(&k), stored.get(&k)) {
                    (Some(dp), Some(rp)) if rp.rank() < dp.rank() => {
                        return Err(format!("key{k}: recovered packet ts={} is older than the durably committed ts={}", rp.ts(), dp.ts()));
                    }
                    (Some(dp), None) if dp.ts() >= CUTOFF || begun == durable => {
                        return Err(format!("key{k}: durably committed packet ts={} is gone after recovery", dp.ts()));
                    }
                    _ => {}
                }
            }
            "mixed state allowed by the statement (not a commit boundary)"
        }
    };
    let _ = ctx;
    Ok((class, format!("{outcome}{}", if dangling > 0 { " + dangling index rows" } else { "" })))
}

// ---------------------------------------------------------------- part B: eviction histories
async fn run_history(ops: &[Op]) -> Result<(String, String), String> {
    let mut live = Live::start(2).await?;
    let r = run_history_inner(&mut live, ops).await;
    let image = live.stop();
    let (class, live_outcome) = r?;
    // reopen what is on disk after the shutdown commit
    let reopened = reopen(image).await?.map_err(|e| format!("redb cannot reopen the image after a clean shutdown: {e}"))?;
    let universe: Vec<Pkt> = live.sent.clone();
    let (stored, dangling) = check_shape(&reopened, &universe)?;
    if stored != live.model.stored {
        return Err(format!("after clean shutdown and reopen the store holds {:?}, reference {:?}", stored, live.model.stored));
    }
    Ok((class, format!("{live_outcome}{}", if dangling > 0 { " + dangling index rows" } else { "" })))
}

async fn run_history_inner(live: &mut Live, ops: &[Op]) -> Result<(String, String), String> {
    let mut classes = Vec::new();
    for (i, op) in ops.iter().enumerate() {
        classes.push(live.step(op).await.map_err(|e| format!("step {i} {op:?}: {e}"))?);
        // exact live content after every step (reads are messages too, so they also move batch boundaries)
        for k in 0..HKEYS {
            let got = live.get(k).await?;
            let want = live.model.stored.get(&k).map(|p| p.bytes());
            if got != want {
                let m = live.model.stored.get(&k);
                return Err(format!(
                    "step {i} {op:?}: key{k} reads {}, reference {} (cut-off {CUTOFF})",
                    got.as_ref().map(|b| format!("ts={}", u64::from_be_bytes(b[96..104].try_into().unwrap()))).unwrap_or("nothing".into()),
                    m.map(|p| format!("ts={}", p.ts())).unwrap_or("nothing".into())
                ));
            }
        }
    }
    // eventually: commit everything, then two complete cycles, each followed by a commit
    live.finish_cycle().await?;
    for _ in 0..2 {
        live.flush().await?;
        live.step(&Op::EvictStep).await?;
        live.finish_cycle().await?;
    }
    live.flush().await?;
    let mut evicted = 0;
    let mut kept = 0;
    for k in 0..HKEYS {
        let got = live.get(k).await?;
        // the newest packet ever published for k decides: older than the cut-off => must be gone, else must be there
        let newest = live.sent.iter().filter(|p| p.key == k).max_by_key(|p| p.rank());
        match newest {
            None => {
                if got.is_some() {
                    return Err(format!("key{k} never published but present"));
                }
            }
            Some(p) if p.ts() < CUTOFF => {
                if got.is_some() {
                    return Err(format!("key{k}: packet ts={} is older than the cut-off {CUTOFF} but still stored after two complete eviction cycles", p.ts()));
                }
                evicted += 1;
            }
            Some(p) => {
                if got != Some(p.bytes()) {
                    return Err(format!("key{k}: packet ts={} is not older than the cut-off {CUTOFF} but was removed or replaced", p.ts()));
                }
                kept += 1;
            }
        }
    }
    classes.sort();
    classes.dedup();
    Ok((classes.join("+"), format!("finally evicted={evicted} kept={kept}")))
}

// ---------------------------------------------------------------- main
fn run_crash_case(ctx: &Ctx, rec: &Recorded, tl: &Timeline, w: usize, prefix: usize, dropped: &[usize]) {
    let case = Case::Crash { workload: w, prefix, dropped: dropped.to_vec() };
    match quiet_catch(|| judge_crash(ctx, rec, tl, prefix, dropped)) {
        Ok(Ok((class, outcome))) => {
            ctx.eval(&class, &outcome);
            ctx.sample(&format!("{class} => {outcome}"), &case);
        }
        Ok(Err(m)) if m.starts_with("machinery:") => machinery_error(&m),
        Ok(Err(m)) => ctx.discrepancy(None, &format!("crash after log entry {prefix} of workload {w}, dropped unsynced writes {dropped:?}: {m}"), &case),
        Err(p) => ctx.discrepancy(None, &format!("panic while reopening (workload {w}, prefix {prefix}, dropped {dropped:?}): {p}"), &case),
    }
}

fn run_history_case(ctx: &Ctx, ops: &[Op]) {
    let case = Case::History { ops: ops.to_vec() };
    match quiet_catch(|| block_on(run_history(ops))) {
        Ok(Ok((class, outcome))) => {
            ctx.eval(&format!("history:{class}"), &outcome);
            ctx.sample(&format!("history:{class} => {outcome}"), &case);
        }
        Ok(Err(m)) if m.starts_with("machinery:") => machinery_error(&format!("{m} ({case:?})")),
        Ok(Err(m)) => ctx.discrepancy(None, &m, &case),
        Err(p) => ctx.discrepancy(None, &format!("panic: {p}"), &case),
    }
}

fn shape_hash(log: &[Entry]) -> String {
    use std::hash::{Hash, Hasher};
    let mut h = std::collections::hash_map::DefaultHasher::new();
    for e in log {
        match e {
            Entry::Write { off, data } => (1u8, *off, data.len()).hash(&mut h),
            Entry::SetLen(n) => (2u8, *n, 0usize).hash(&mut h),
            Entry::Sync => (3u8, 0u64, 0usize).hash(&mut h),
            Entry::Mark(l, _) => (4u8, l.len() as u64, 0usize).hash(&mut h),
        }
    }
    format!("{:016x}", h.finish())
}

fn main() {
    let ctx = Ctx::from_args("C39", Level::FaultEnumeration);
    iroh_base::verif::install(iroh_base::verif::Hooks {
        pause: hook_pause,
        pause_async: seams::hook_pause_async,
        event: hook_event,
        choose_u64: seams::hook_choose_u64,
        clock_micros: seams::hook_clock_micros,
        fill_bytes: seams::hook_fill_bytes,
    });
    ctx.set_rule("A: the workloads contain write batches opened by every kind of message that can open one (publish, lookup, eviction check; a snapshot joins batches but never opens one) in both orders with a publish; for every prefix of the recorded storage log (write/set_len/sync) of each workload and every subset of the writes not yet followed by a sync (all subsets up to the limit; above it none/all/each-one-dropped/each-one-kept, reported as a cap) a crash image is materialised and reopened with redb + the real store; two cases are distinct when (workload, prefix, dropped set) differ. B: every history over {publish(key, timestamp relative to the cut-off, payload), eviction step} up to the length bound on the live store with exact content comparison after every step, then two complete eviction cycles and a reopen");
    ctx.assume("crash model: a write issued before the last sync of the prefix is durable; later writes are each independently lost or kept, whole (no torn writes); set_len is applied immediately");
    ctx.assume("the eviction cut-off is owned through the dnssrv.evict.now seam (constant); eviction cycles and each CheckExpired send are released by gates; batches end by count only; stored last-seen prefix (wall clock) is ignored");
    ctx.assume("a crash before the empty database finished being created may leave a file redb refuses to open");
    ctx.min_outcomes(20);

    if let Some(c) = ctx.replay_case::<Case>() {
        match c {
            Case::Crash { workload: w, prefix, dropped } => {
                let rec = block_on(record(w)).unwrap_or_else(|e| machinery_error(&e));
                let tl = timeline(&rec).unwrap_or_else(|e| machinery_error(&e));
                run_crash_case(&ctx, &rec, &tl, w, prefix, &dropped);
            }
            Case::History { ops } => run_history_case(&ctx, &ops),
        }
        ctx.finish();
    }

    // diagnostic (not a check): C39_SHAPES=n records every workload n times and prints the shape of each log
    if let Some(n) = std::env::var("C39_SHAPES").ok().and_then(|v| v.parse::<usize>().ok()) {
        for w in 0..4 {
            for _ in 0..n {
                let rec = block_on(record(w)).unwrap_or_else(|e| machinery_error(&format!("workload {w}: {e}")));
                let tl = timeline(&rec).unwrap_or_else(|e| machinery_error(&e));
                println!("workload {w} {} {}", shape_hash(&rec.log), tl.batches.iter().map(|b| format!("{}w{}s{}", b.shape(), b.writes, b.syncs)).collect::<Vec<_>>().join(" "));
            }
        }
        std::process::exit(0);
    }

    // ---- part A
    let t_start = Instant::now();
    let subset_limit: usize = ctx.pick(8, 10);
    let workloads: Vec<usize> = ctx.pick(vec![0, 2], vec![0, 1, 2, 3]);
    ctx.bound("subset_limit", subset_limit);
    ctx.bound("workloads", &workloads);
    let mut total_images = 0u64;
    // measured coverage of batch compositions over the workloads of this tier: shape -> occurrences
    let mut shapes: BTreeMap<String, usize> = BTreeMap::new();
    // opener kind -> batches it opened / of those, batches that a state-changing publish joined
    let mut openers: BTreeMap<&'static str, (usize, usize)> = BTreeMap::new();
    for &w in &workloads {
        let rec = block_on(record(w)).unwrap_or_else(|e| machinery_error(&format!("workload {w}: {e}")));
        let tl = timeline(&rec).unwrap_or_else(|e| machinery_error(&e));
        let io_ops = rec.log.iter().filter(|e| !matches!(e, Entry::Mark(..))).count();
        for b in &tl.batches {
            *shapes.entry(b.shape()).or_default() += 1;
            let o = openers.entry(b.opener()).or_default();
            o.0 += 1;
            if b.joined_effective_publishes > 0 {
                o.1 += 1;
            }
        }
        ctx.extra(&format!("workload{w}_log"), serde_json::json!({
            "batch_size": workload(w).0, "operations": workload(w).1.len(),
            "batches": tl.batches.iter().map(|b| format!("{}{} writes={} syncs={}", b.shape(), if b.committed_by == "cancel" { " (committed by shutdown)" } else { "" }, b.writes, b.syncs)).collect::<Vec<_>>(),
            "io_ops": io_ops, "syncs": rec.log.iter().filter(|e| matches!(e, Entry::Sync)).count(),
            "commits": tl.states.len() - 1, "created_at": rec.created_at, "shape_hash": shape_hash(&rec.log),
            "max_unsynced": (0..=rec.log.len()).map(|p| unsynced(&rec.log, p).len()).max().unwrap_or(0),
        }));
        // crash cases: prefixes that end in an I/O op (or the empty prefix); marks add no new image
        let mut cases: Vec<(usize, Vec<usize>)> = Vec::new();
        let mut capped = 0usize;
        for prefix in 0..=rec.log.len() {
            if prefix > 0 && matches!(rec.log[prefix - 1], Entry::Mark(..)) {
                continue;
            }
            let u = unsynced(&rec.log, prefix);
            if u.len() <= subset_limit {
                for mask in 0u32..(1u32 << u.len()) {
                    cases.push((prefix, u.iter().enumerate().filter(|(i, _)| mask >> i & 1 == 1).map(|(_, &x)| x).collect()));
                }
            } else {
                capped += 1;
                cases.push((prefix, vec![]));
                cases.push((prefix, u.clone()));
                for &x in &u {
                    cases.push((prefix, vec![x]));
                    cases.push((prefix, u.iter().copied().filter(|&y| y != x).collect()));
                }
            }
        }
        if capped > 0 {
            ctx.cap_hit(&format!("workload {w}: {capped} prefixes have more than {subset_limit} unsynced writes; for those only none/all/each-one-dropped/each-one-kept were explored"));
        }
        total_images += cases.len() as u64;
        ctx.bound(&format!("crash_images_workload{w}"), cases.len());
        RECORDING.store(false, Ordering::SeqCst);
        par_for_each(&cases, |(prefix, dropped)| run_crash_case(&ctx, &rec, &tl, w, *prefix, dropped));
    }
    ctx.bound("crash_images", total_images);
    ctx.extra("batch_shapes", &shapes);
    ctx.extra("batches_by_opener (opened, of those joined by a state-changing publish)", &openers);
    // the crash workloads must contain batches opened by every kind of message that can open one, and the ones
    // opened by a lookup / an eviction check must have been joined by a publish that changed the reference state
    // (otherwise "a packet whose batch committed" is never at stake in such a batch): a workload that stops
    // producing them is a broken harness, not a pass
    for kind in ["U", "G", "CE"] {
        let (opened, joined) = openers.get(kind).copied().unwrap_or((0, 0));
        if opened == 0 || (kind != "U" && joined == 0) {
            machinery_error(&format!("crash workloads {workloads:?}: batches opened by {kind}: {opened}, joined by a state-changing publish: {joined} - the workloads no longer cover every batch opener"));
        }
    }
    if !shapes.keys().any(|s| s.contains(",S")) {
        machinery_error("crash workloads: no batch contains a Snapshot message");
    }

    ctx.extra("wall_s_part_a", t_start.elapsed().as_secs_f64());
    // ---- part B (serial: the eviction gate lives in the process-global registry)
    let t_start = Instant::now();
    let mk = |keys: usize, rels: &[i64]| {
        let mut a: Vec<Op> = vec![Op::EvictStep];
        for key in 0..keys {
            for &rel in rels {
                a.push(Op::Publish(Pkt { key, rel, payload: 0 }));
            }
        }
        a
    };
    let full = |a: &[Op], len: usize| -> Vec<Vec<Op>> { sequences_up_to(a, len).into_iter().filter(|s| s.len() == len).collect() };
    // timestamps relative to the cut-off: -1 is the newest evictable, 0 the oldest that must stay
    let mut plan: Vec<(String, Vec<Vec<Op>>)> = Vec::new();
    if ctx.thorough() {
        plan.push(("1 key x rel{-1,0,+1} + evict-step, length 5".into(), full(&mk(1, &[-1, 0, 1]), 5)));
        plan.push(("2 keys x rel{-1,0,+1} + evict-step, length 3".into(), full(&mk(2, &[-1, 0, 1]), 3)));
        plan.push(("2 keys x rel{-2,-1,0,+1} + evict-step, length 3".into(), full(&mk(2, &[-2, -1, 0, 1]), 3)));
    } else {
        plan.push(("1 key x rel{-1,0,+1} + evict-step, length 3".into(), full(&mk(1, &[-1, 0, 1]), 3)));
        plan.push(("2 keys x rel{-1,0,+1} + evict-step, length 2".into(), full(&mk(2, &[-1, 0, 1]), 2)));
    }
    let mut histories: Vec<Vec<Op>> = Vec::new();
    let mut seen: BTreeSet<Vec<Op>> = BTreeSet::new();
    for (name, hs) in &plan {
        for h in hs {
            if seen.insert(h.clone()) {
                histories.push(h.clone());
            }
        }
        ctx.bound(&format!("histories: {name}"), hs.len());
    }
    ctx.bound("histories", histories.len());
    for h in &histories {
        run_history_case(&ctx, h);
        if ctx.violations() > 3 {
            break;
        }
    }
    ctx.extra("wall_s_part_b", t_start.elapsed().as_secs_f64());
    ctx.finish();
}
