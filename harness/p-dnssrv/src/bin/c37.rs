//! C37 DNS server keeps the newest packet per key — E1: every publish sequence over a small packet pool,
//! executed against the real store / router / DNS handler, compared step by step with a reference model.
use iroh_dns::pkarr::SignedPacket;
use iroh_dns_server::verif::c37::App;
use serde::{Deserialize, Serialize};
use std::collections::{BTreeMap, BTreeSet};
use std::sync::Mutex;
use vh_engine::*;
use vh_p_dnssrv::common::*;

/// timestamp menu (microseconds): adjacent values, the extremes of u64
const TS: [u64; 5] = [1_000_000, 1_000_001, u64::MAX, 0, 2_000_000];

#[derive(Serialize, Deserialize, Clone, Debug, PartialEq, Eq, PartialOrd, Ord)]
struct Op {
    key: usize,
    ts: usize, // index into TS
    payload: usize,
}

#[derive(Serialize, Deserialize, Clone, Debug)]
struct Case {
    keys: usize,
    ops: Vec<Op>,
    /// publish through `PUT /pkarr/<key>` (no flag observable) instead of `ZoneStore::insert`
    via_http: bool,
    /// query DNS (filling the answer cache) after every publish, or only after the last one
    dns_every_step: bool,
}

fn payload_records(key: usize, payload: usize) -> Vec<Rec> {
    let name = format!("_iroh.{}", z32(key));
    let txt = |s: &str| Rec { name: name.clone(), data: Data::Txt(s.into()) };
    match payload {
        0 => vec![txt("a")],
        1 => vec![txt("b")],
        2 => vec![txt("a"), txt("zz")],
        _ => unreachable!(),
    }
}

/// reference model state: per key the stored (timestamp, dns payload bytes, full packet bytes, records)
#[derive(Clone)]
struct Stored {
    ts: u64,
    dns: Vec<u8>,
    bytes: Vec<u8>,
    records: Vec<Rec>,
}

async fn observe(app: &App, case: &Case, model: &BTreeMap<usize, Stored>, with_dns: bool, step: usize) -> Result<(), String> {
    for k in 0..case.keys {
        let want = model.get(&k);
        let pk = secret(k).public();
        // packet read through the store API
        let got = app.get_signed_packet(&pk).await.map_err(|e| format!("step {step}: get_signed_packet failed: {e}"))?;
        if got.as_ref().map(|p| p.as_bytes().to_vec()) != want.map(|s| s.bytes.clone()) {
            return Err(format!(
                "step {step}: stored packet of key {k} is ts={:?}, reference ts={:?} (payload differs or absent)",
                got.as_ref().map(|p| p.timestamp().as_micros()),
                want.map(|s| s.ts)
            ));
        }
        // pkarr GET
        let r = http_get(app, &z32(k)).await;
        match want {
            Some(s) => {
                if r.status != 200 || r.body != s.bytes[32..] {
                    return Err(format!("step {step}: GET /pkarr of key {k}: status {} body differs from reference packet ts={}", r.status, s.ts));
                }
            }
            None => {
                if r.status != 404 {
                    return Err(format!("step {step}: GET /pkarr of unpublished key {k}: status {}", r.status));
                }
            }
        }
        if with_dns {
            // twice: first may fill the cache, second is served from it
            for round in 0..2 {
                let qname = format!("_iroh.{}.{}", z32(k), ORIGIN);
                let a = if round == 0 { doh_query(app, &qname, "TXT").await } else { udp_query(app, &qname, "TXT").await };
                let mut want_recs: Vec<Rec> = want
                    .map(|s| s.records.iter().map(|r| Rec { name: format!("{}.{}", r.name, ORIGIN.trim_end_matches('.')), data: r.data.clone() }).collect())
                    .unwrap_or_default();
                want_recs.sort();
                if a.answers != want_recs {
                    return Err(format!("step {step}: DNS answer (round {round}) for key {k} = {:?}, reference {:?}", a.answers, want_recs));
                }
                let want_rcode = if want.is_some() { 0 } else { 3 };
                if a.rcode != want_rcode || a.http_status != 200 {
                    return Err(format!("step {step}: DNS rcode {} http {} for key {k}, reference rcode {want_rcode}", a.rcode, a.http_status));
                }
            }
        }
    }
    Ok(())
}

struct Stats {
    model_states: Mutex<BTreeSet<Vec<(usize, u64, usize)>>>,
}

fn run_case(ctx: &Ctx, stats: &Stats, case: &Case) {
    let r = quiet_catch(|| {
        block_on(run_case_inner(ctx, stats, case))
    });
    match r {
        Ok(Ok(())) => {}
        Ok(Err(msg)) if msg.starts_with("machinery:") => machinery_error(&msg),
        Ok(Err(msg)) => ctx.discrepancy(None, &msg, case),
        Err(p) => ctx.discrepancy(None, &format!("panic: {p}"), case),
    }
}

async fn run_case_inner(ctx: &Ctx, stats: &Stats, case: &Case) -> Result<(), String> {
    let app = App::in_memory(timeless_options(), vec![ORIGIN.to_string(), ".".to_string()]).map_err(|e| format!("machinery: app: {e}"))?;
    let mut model: BTreeMap<usize, Stored> = BTreeMap::new();
    let mut shape: BTreeMap<usize, (u64, usize)> = BTreeMap::new();
    ctx.add_traces(1);
    for (i, op) in case.ops.iter().enumerate() {
        let sk = secret(op.key);
        let records = payload_records(op.key, op.payload);
        let dns = dns_payload(&records);
        let ts = TS[op.ts];
        let bytes = honest_packet(&sk, ts, &dns);
        // reference model: newest by (timestamp, payload bytes)
        let (class, must_update): (&str, Option<bool>) = match model.get(&op.key) {
            None => ("first", Some(true)),
            Some(s) if ts > s.ts => ("newer-timestamp", Some(true)),
            Some(s) if ts < s.ts => ("older-timestamp", Some(false)),
            Some(s) if dns > s.dns => ("same-timestamp-greater-payload", Some(true)),
            Some(s) if dns < s.dns => ("same-timestamp-smaller-payload", Some(false)),
            Some(_) => ("identical-republish", None),
        };
        if must_update != Some(false) {
            model.insert(op.key, Stored { ts, dns: dns.clone(), bytes: bytes.clone(), records: records.clone() });
            shape.insert(op.key, (ts, op.payload));
        }
        let outcome: String;
        if case.via_http {
            let r = http_put(&app, &z32(op.key), bytes[32..].to_vec()).await;
            if r.status != 204 {
                return Err(format!("step {i}: PUT of a valid packet answered {}", r.status));
            }
            outcome = "put-204".into();
        } else {
            let p = SignedPacket::from_bytes(&bytes).map_err(|e| format!("machinery: harness-signed packet rejected: {e}"))?;
            let flag = app.insert(p).await.map_err(|e| format!("step {i}: insert failed: {e}"))?;
            if let Some(m) = must_update {
                if flag != m {
                    return Err(format!("step {i}: publish of ({class}) reported update={flag}, reference {m}"));
                }
            }
            outcome = format!("update={flag}");
        }
        ctx.add_transitions(1);
        ctx.eval(class, &outcome);
        let last = i + 1 == case.ops.len();
        observe(&app, case, &model, case.dns_every_step || last, i).await?;
        stats.model_states.lock().unwrap().insert(shape.iter().map(|(k, v)| (*k, v.0, v.1)).collect());
    }
    Ok(())
}

fn sequences(alphabet: &[Op], len: usize) -> Vec<Vec<Op>> {
    let mut out: Vec<Vec<Op>> = vec![vec![]];
    for _ in 0..len {
        let mut next = Vec::with_capacity(out.len() * alphabet.len());
        for s in &out {
            for a in alphabet {
                let mut s2 = s.clone();
                s2.push(a.clone());
                next.push(s2);
            }
        }
        out = next;
    }
    out
}

fn pool(keys: usize, ts: &[usize], payloads: &[usize]) -> Vec<Op> {
    let mut v = Vec::new();
    for key in 0..keys {
        for &t in ts {
            for &p in payloads {
                v.push(Op { key, ts: t, payload: p });
            }
        }
    }
    v
}

fn main() {
    let ctx = Ctx::from_args("C37", Level::ModelChecking);
    ctx.set_rule("every publish sequence of maximal length over a packet pool (key x timestamp x payload; repetition allowed, so every permutation of every multiset of pool packets, equal and distinct timestamps, identical re-publishes) x {ZoneStore::insert, HTTP PUT} x {DNS lookup after every publish, only after the last}; shorter sequences are the checked prefixes; after every publish: update flag, packet read, pkarr GET and DoH+UDP-path TXT answers of every key compared with the reference model; two cases are distinct when their op lists or variants differ; states = distinct reference-model states reached");
    ctx.assume("real clock runtime; store options make batches end by count only and disable eviction (timestamps are arbitrary u64), so outcomes are a function of the order of awaited requests");
    ctx.assume("payload order = lexicographic order of the encoded DNS packet bytes; identical re-publish may report either flag");
    ctx.min_outcomes(9);
    let stats = Stats { model_states: Mutex::new(BTreeSet::new()) };
    if let Some(c) = ctx.replay_case::<Case>() {
        run_case(&ctx, &stats, &c);
        ctx.finish();
    }
    let mut cases: Vec<Case> = Vec::new();
    let mut add = |keys: usize, alphabet: Vec<Op>, len: usize, variants: &[(bool, bool)]| {
        for ops in sequences(&alphabet, len) {
            for &(via_http, dns_every_step) in variants {
                cases.push(Case { keys, ops: ops.clone(), via_http, dns_every_step });
            }
        }
    };
    let all = [(false, true), (false, false), (true, true), (true, false)];
    if ctx.thorough() {
        let two = [(false, true), (true, false)];
        // one key, 5 publishes: 3 timestamps (adjacent + u64::MAX) x 2 payloads; 2 adjacent timestamps x 3 ordered payloads; extremes 0 / MAX
        add(1, pool(1, &[0, 1, 2], &[0, 1]), 5, &two);
        add(1, pool(1, &[0, 1], &[0, 1, 2]), 5, &two);
        add(1, pool(1, &[3, 2, 4], &[0, 2]), 5, &[(false, true)]);
        add(1, pool(1, &[0, 1], &[0, 1]), 5, &all);
        // three keys: 4 publishes over the full 12-packet pool, 5 publishes over 6 packets
        add(3, pool(3, &[0, 1], &[0, 1]), 4, &[(false, true)]);
        let six: Vec<Op> = pool(3, &[0, 1], &[0, 1]).into_iter().filter(|o| o.ts != o.payload).collect();
        add(3, six, 5, &two);
        ctx.bound("single_key", "5 publishes over pools of 6 packets (3 pools) and of 4 packets (all variants)");
        ctx.bound("multi_key", "3 keys: 4 publishes over 12 packets, 5 publishes over 6 packets");
    } else {
        add(1, pool(1, &[0, 1], &[0, 1]), 4, &all);
        add(1, pool(1, &[3, 2], &[0, 1, 2]), 3, &all);
        add(2, pool(2, &[0, 1], &[0, 1]), 3, &[(false, true), (true, false)]);
        ctx.bound("single_key", "4 publishes over 4 packets; 3 publishes over 6 packets");
        ctx.bound("multi_key", "2 keys, 3 publishes over 8 packets");
    }
    ctx.bound("cases", cases.len());
    for c in cases.iter().step_by((cases.len() / 8).max(1)) {
        ctx.sample(&format!("{:?}", (c.keys, c.ops.len(), c.via_http, c.dns_every_step, &c.ops[0])), c);
    }
    par_for_each(&cases, |c| run_case(&ctx, &stats, c));
    ctx.add_states(stats.model_states.lock().unwrap().len() as u64);
    ctx.finish();
}
