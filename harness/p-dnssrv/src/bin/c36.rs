//! C36 DNS server serves a zone only from packets signed by its key — E1: every publish history (depth-bounded)
//! over honest / foreign-signer / tampered / malformed publishes with record names inside and outside the
//! signer's zone, against the real router + DNS handler; after every publish every (key, name, type) query
//! and every pkarr GET is compared with a reference model written from the property statement.
use iroh_dns_server::verif::c37::App;
use serde::{Deserialize, Serialize};
use std::collections::{BTreeMap, BTreeSet};
use std::sync::Mutex;
use vh_engine::*;
use vh_p_dnssrv::common::*;

const NKEYS: usize = 2;

#[derive(Serialize, Deserialize, Clone, Copy, Debug, PartialEq, Eq, PartialOrd, Ord)]
enum Integrity {
    Ok,
    /// one signature bit flipped
    SigFlip,
    /// a payload byte changed after signing
    PayloadTamper,
    /// the timestamp changed after signing
    TsTamper,
    /// body cut below the 72 header bytes of a relay payload
    Truncated,
    /// dns part longer than 1000 bytes (validly signed)
    Oversize,
    /// path key is not a valid z-base-32 key
    BadPathKey,
}

#[derive(Serialize, Deserialize, Clone, Debug, PartialEq, Eq, PartialOrd, Ord)]
struct Publish {
    path_key: usize,
    signer: usize,
    content: usize,
    integrity: Integrity,
}

#[derive(Serialize, Deserialize, Clone, Debug)]
struct Case {
    ops: Vec<Publish>,
}

/// Record templates of content `c` written for a packet published under `path_key` (own zone = path key's).
fn content(c: usize, own: usize) -> Vec<Rec> {
    let me = z32(own);
    let other = z32(1 - own);
    let r = |name: String, data: Data| Rec { name, data };
    let tag = format!("c{c}k{own}");
    match c {
        // plain honest zone: TXT + A inside, at two depths and at the apex
        0 => vec![
            r(format!("_iroh.{me}"), Data::Txt(format!("{tag}-in"))),
            r(me.clone(), Data::Txt(format!("{tag}-apex"))),
            r(me.clone(), Data::A([10, 0, own as u8, 1])),
        ],
        // SOA / NS inside the own zone next to a TXT and a CNAME
        1 => vec![
            r(format!("_iroh.{me}"), Data::Txt(format!("{tag}-in"))),
            r(format!("_iroh.{me}"), Data::Ns(format!("ns.{tag}.example"))),
            r(me.clone(), Data::Soa(format!("soa.{tag}.example"))),
            r(me.clone(), Data::Ns(format!("ns2.{tag}.example"))),
            r(format!("alias.{me}"), Data::Cname(format!("target.{tag}.example"))),
        ],
        // records for the other key's zone and outside any zone, plus one honest
        2 => vec![
            r(format!("_iroh.{other}"), Data::Txt(format!("{tag}-foreign"))),
            r(other.clone(), Data::Txt(format!("{tag}-foreign-apex"))),
            r(other.clone(), Data::A([66, 66, own as u8, 2])),
            r(format!("_iroh.{me}.{other}"), Data::Txt(format!("{tag}-own-inside-foreign"))),
            r("example.com".into(), Data::Txt(format!("{tag}-nozone"))),
            r(format!("_iroh.{me}"), Data::Txt(format!("{tag}-in"))),
        ],
        // labels that merely look like keys inside the own zone; upper-case zone label
        3 => vec![
            r(format!("{other}.{me}"), Data::Txt(format!("{tag}-otherlabel-in-own"))),
            r(format!("_iroh.{other}.{me}"), Data::Txt(format!("{tag}-deep"))),
            r(format!("_up.{}", me.to_ascii_uppercase()), Data::Txt(format!("{tag}-uppercase-zone"))),
            r(format!("{me}.{me}"), Data::A([10, 9, own as u8, 3])),
        ],
        // only foreign / SOA / NS: nothing servable
        4 => vec![
            r(format!("_iroh.{other}"), Data::Txt(format!("{tag}-foreign-only"))),
            r(me.clone(), Data::Ns(format!("ns3.{tag}.example"))),
            r(format!("x.{me}"), Data::Soa(format!("soa2.{tag}.example"))),
        ],
        // empty packet
        5 => vec![],
        // a foreign-zone record FOLLOWING an own-zone record of the same relative name and type (a filter that only
        // guards the record that opens a record set would merge it in: seeded change C36-seed76), and the reverse order
        6 => vec![
            r(format!("_iroh.{me}"), Data::Txt(format!("{tag}-in"))),
            r(format!("_iroh.{other}"), Data::Txt(format!("{tag}-foreign-after-own"))),
            r(me.clone(), Data::A([10, 0, own as u8, 6])),
            r(other.clone(), Data::A([66, 66, own as u8, 6])),
            r("_iroh.example".into(), Data::Txt(format!("{tag}-nozone-after-own"))),
            r(format!("late.{other}"), Data::Txt(format!("{tag}-foreign-before-own"))),
            r(format!("late.{me}"), Data::Txt(format!("{tag}-late-in"))),
        ],
        _ => unreachable!(),
    }
}
const NCONTENT: usize = 7;

/// The (relative name, type) grid queried for `key`: every (name, type) under which any record of any
/// content template could be served for that key -- mapped honestly (own zone stripped) or by a broken
/// filter (last label stripped whatever it is) -- plus NS/SOA at those names.
fn query_grid(key: usize) -> Vec<(String, &'static str)> {
    let mut set: BTreeSet<(String, &'static str)> = BTreeSet::new();
    for own in 0..NKEYS {
        for c in 0..NCONTENT {
            for r in content(c, own) {
                let lower = r.name.to_ascii_lowercase();
                let mut rels: Vec<String> = Vec::new();
                if let Some(rel) = under_zone(&lower, key) {
                    rels.push(rel);
                }
                match lower.rsplit_once('.') {
                    Some((rest, _last)) => rels.push(rest.to_string()),
                    None => rels.push(String::new()),
                }
                for rel in rels {
                    set.insert((rel.clone(), r.data.type_name()));
                    set.insert((rel.clone(), "NS"));
                    set.insert((rel, "SOA"));
                }
            }
        }
    }
    set.into_iter().collect()
}
const ORIGINS: [&str; 2] = [ORIGIN, "."];

fn full_name(rel: &str, key: usize, origin: &str) -> String {
    let mut s = String::new();
    if !rel.is_empty() {
        s.push_str(rel);
        s.push('.');
    }
    s.push_str(&z32(key));
    s.push('.');
    s.push_str(origin.trim_start_matches('.'));
    s
}

/// Reference model, from the statement.
#[derive(Default, Clone)]
struct Model {
    /// per key: every (relative owner name lower-case, data) that an accepted packet signed by that key
    /// placed under that key's zone with a type other than SOA/NS
    allowed: BTreeMap<usize, BTreeSet<(String, Data)>>,
    /// per key: relay payloads of accepted publishes (pkarr GET must return one of them)
    payloads: BTreeMap<usize, Vec<Vec<u8>>>,
    /// per key: the servable records of the last accepted packet (informative classification only)
    latest: BTreeMap<usize, BTreeSet<(String, Data)>>,
}

fn under_zone(name: &str, key: usize) -> Option<String> {
    let z = z32(key);
    let n = name.to_ascii_lowercase();
    if n == z {
        return Some(String::new());
    }
    n.strip_suffix(&format!(".{z}")).map(|s| s.to_string())
}

type Observation = BTreeMap<String, String>;

async fn observe(ctx: &Ctx, app: &App, model: &Model) -> Result<(BTreeMap<usize, Observation>, u64, u64), String> {
    let mut per_key: BTreeMap<usize, Observation> = BTreeMap::new();
    let (mut answered, mut empty) = (0u64, 0u64);
    for key in 0..NKEYS {
        let obs = per_key.entry(key).or_default();
        let g = http_get(app, &z32(key)).await;
        obs.insert("GET".into(), format!("{} {}", g.status, hex(&g.body)));
        match g.status {
            200 => {
                if !model.payloads.get(&key).map(|v| v.contains(&g.body)).unwrap_or(false) {
                    return Err(format!("GET /pkarr/<key{key}> returns a payload that no accepted publish signed by key{key} carried"));
                }
            }
            404 => {}
            s => return Err(format!("GET /pkarr/<key{key}> status {s}")),
        }
        let grid = query_grid(key);
        let mut served: BTreeSet<(String, Data)> = BTreeSet::new();
        for (oi, origin) in ORIGINS.iter().enumerate() {
            for (rel, ty) in &grid {
                let (rel, ty) = (rel.as_str(), *ty);
                if oi == 1 && !matches!(ty, "TXT" | "A") {
                    continue;
                }
                let qname = full_name(rel, key, origin);
                let a = if oi == 0 { doh_query(app, &qname, ty).await } else { udp_query(app, &qname, ty).await };
                if a.rcode >= 900 || a.http_status != 200 {
                    return Err(format!("query {qname} {ty}: transport failure http={} rcode={}", a.http_status, a.rcode));
                }
                let apex = origin.trim_matches('.').to_string();
                let mut client_records = 0;
                for rec in &a.answers {
                    let owner = rec.name.trim_end_matches('.');
                    // static records of the server's own origin apex are not client data
                    if owner == apex && matches!(rec.data, Data::Soa(ref m) if m.trim_end_matches('.') == "irohdns.example") {
                        continue;
                    }
                    let in_origin = if apex.is_empty() { Some(owner.to_string()) } else { owner.strip_suffix(&format!(".{apex}")).map(|s| s.to_string()) };
                    let relname = in_origin.as_deref().and_then(|n| under_zone(n, key));
                    let ok = match (&relname, &rec.data) {
                        (_, Data::Soa(_)) | (_, Data::Ns(_)) => false,
                        (Some(r), d) => model.allowed.get(&key).map(|s| s.contains(&(r.clone(), d.clone()))).unwrap_or(false),
                        (None, _) => false,
                    };
                    if !ok {
                        return Err(format!(
                            "answer to {qname} {ty} contains {rec:?}, which no accepted packet signed by key{key} published under its zone as a non-SOA/NS record"
                        ));
                    }
                    client_records += 1;
                    if oi == 0 {
                        served.insert((relname.clone().unwrap(), rec.data.clone()));
                    }
                }
                if client_records == 0 {
                    empty += 1;
                } else {
                    answered += 1;
                }
                obs.insert(format!("dns{oi} {rel} {ty}"), format!("{} {:?}", a.rcode, a.answers));
            }
        }
        // informative: what is served vs. the servable records of the last accepted packet of this key
        let latest = model.latest.get(&key).cloned().unwrap_or_default();
        let outcome = if served == latest {
            if latest.is_empty() { "nothing-servable, nothing served".to_string() } else { "exactly the latest packet's servable records".to_string() }
        } else if served.is_subset(&latest) {
            format!("subset of latest: not served {:?}", latest.difference(&served).map(|(n, d)| format!("{}:{}", n.split('.').next().unwrap_or(""), d.type_name())).collect::<Vec<_>>())
        } else {
            "records of an older accepted packet".to_string()
        };
        ctx.eval_n("served-vs-latest", &outcome, 1);
        // the zone as the zone handler reads it (ZoneStore::resolve): same containment rule
        for (rel, ty) in &grid {
            let recs = store_resolve(app, &secret(key).public(), rel, ty).await.map_err(|e| format!("ZoneStore::resolve key{key} {rel} {ty}: {e}"))?;
            for rec in &recs {
                let relname = rec.name.trim_end_matches('.').to_string();
                let ok = !matches!(rec.data, Data::Soa(_) | Data::Ns(_)) && model.allowed.get(&key).map(|s| s.contains(&(relname.clone(), rec.data.clone()))).unwrap_or(false);
                if !ok {
                    return Err(format!("zone of key{key} holds {rec:?} at ({rel}, {ty}), which no accepted packet signed by key{key} published under its zone as a non-SOA/NS record"));
                }
            }
            obs.insert(format!("zone {rel} {ty}"), format!("{recs:?}"));
        }
    }
    Ok((per_key, answered, empty))
}

fn build_body(op: &Publish, ts: u64) -> (String, Vec<u8>, Vec<Rec>) {
    let signer = secret(op.signer);
    let path_pk = secret(op.path_key).public();
    let mut recs = content(op.content, op.path_key);
    if op.integrity == Integrity::Oversize {
        let me = z32(op.path_key);
        for i in 0..5 {
            recs.push(Rec { name: format!("big{i}.{me}"), data: Data::Txt("x".repeat(250)) });
        }
    }
    let dns = dns_payload(&recs);
    let full = packet_bytes(&signer, &path_pk, ts, &dns);
    let mut body = full[32..].to_vec();
    match op.integrity {
        Integrity::Ok | Integrity::Oversize | Integrity::BadPathKey => {}
        Integrity::SigFlip => body[5] ^= 0x04,
        Integrity::PayloadTamper => {
            // change the last byte of the dns part (inside the last record's data) or, for an empty packet, the header id
            let n = body.len();
            body[n - 1] ^= 0x01;
        }
        Integrity::TsTamper => body[64 + 7] ^= 0x01,
        Integrity::Truncated => body.truncate(71),
    }
    let mut key = z32(op.path_key);
    if op.integrity == Integrity::BadPathKey {
        // same length, last character replaced by one outside the alphabet
        key.pop();
        key.push('l');
    }
    (key, body, recs)
}

fn run_case(ctx: &Ctx, stats: &Stats, case: &Case) {
    let r = quiet_catch(|| block_on(run_case_inner(ctx, stats, case)));
    match r {
        Ok(Ok(())) => {}
        Ok(Err(msg)) if msg.starts_with("machinery:") => machinery_error(&msg),
        Ok(Err(msg)) => ctx.discrepancy(None, &msg, case),
        Err(p) => ctx.discrepancy(None, &format!("panic: {p}"), case),
    }
}

struct Stats {
    states: Mutex<BTreeSet<String>>,
    answered: std::sync::atomic::AtomicU64,
    empty: std::sync::atomic::AtomicU64,
}

async fn run_case_inner(ctx: &Ctx, stats: &Stats, case: &Case) -> Result<(), String> {
    use std::sync::atomic::Ordering::Relaxed;
    let app = App::in_memory(timeless_options(), ORIGINS.iter().map(|s| s.to_string()).collect()).map_err(|e| format!("machinery: app: {e}"))?;
    // second instance: same publishes without the intermediate observations (cold answer cache at every publish)
    let cold = App::in_memory(timeless_options(), ORIGINS.iter().map(|s| s.to_string()).collect()).map_err(|e| format!("machinery: app: {e}"))?;
    ctx.add_traces(2);
    let mut model = Model::default();
    let (mut prev, a, e) = observe(ctx, &app, &model).await.map_err(|m| format!("before any publish: {m}"))?;
    stats.answered.fetch_add(a, Relaxed);
    stats.empty.fetch_add(e, Relaxed);
    if a != 0 {
        return Err("answers before any publish".into());
    }
    let mut trace = String::new();
    for (i, op) in case.ops.iter().enumerate() {
        let ts = 1_000_000 + i as u64;
        let (path, body, recs) = build_body(op, ts);
        // statement: accepted only if the signature verifies for the key in the request
        let sig_valid = op.signer == op.path_key && matches!(op.integrity, Integrity::Ok | Integrity::Oversize);
        let must_reject = !sig_valid || op.integrity == Integrity::BadPathKey || op.integrity == Integrity::Truncated;
        // an oversize but validly signed body: the statement leaves acceptance open
        let may_either = op.integrity == Integrity::Oversize && sig_valid;
        let r = http_put(&app, &path, body.clone()).await;
        let r2 = http_put(&cold, &path, body.clone()).await;
        if r.status != r2.status {
            return Err(format!("step {i}: PUT status {} with warm cache, {} with cold cache", r.status, r2.status));
        }
        ctx.add_transitions(2);
        let accepted = (200..300).contains(&r.status);
        let class = format!(
            "{:?}/{}/content{}",
            op.integrity,
            if op.signer == op.path_key { "own-signer" } else { "foreign-signer" },
            op.content
        );
        ctx.eval(&class, &format!("status {}", r.status));
        if must_reject && accepted {
            return Err(format!("step {i}: publish {op:?} whose signature does not verify for the request key was accepted with {}", r.status));
        }
        if must_reject && !(400..500).contains(&r.status) {
            return Err(format!("step {i}: invalid publish {op:?} answered {} (expected a 4xx rejection)", r.status));
        }
        if !must_reject && !may_either && !accepted {
            return Err(format!("step {i}: honest publish {op:?} rejected with {}", r.status));
        }
        if accepted {
            let k = op.path_key;
            let set = model.allowed.entry(k).or_default();
            for rec in &recs {
                if matches!(rec.data, Data::Soa(_) | Data::Ns(_)) {
                    continue;
                }
                if let Some(rel) = under_zone(&rec.name, k) {
                    set.insert((rel, rec.data.clone()));
                }
            }
            model.payloads.entry(k).or_default().push(body.clone());
            let mut latest = BTreeSet::new();
            for rec in &recs {
                if !matches!(rec.data, Data::Soa(_) | Data::Ns(_)) {
                    if let Some(rel) = under_zone(&rec.name, k) {
                        latest.insert((rel, rec.data.clone()));
                    }
                }
            }
            model.latest.insert(k, latest);
        }
        trace.push_str(&format!("{}:{}:{};", op.path_key, op.content, accepted));
        let (now, a, e) = observe(ctx, &app, &model).await.map_err(|m| format!("after step {i} ({op:?}): {m}"))?;
        stats.answered.fetch_add(a, Relaxed);
        stats.empty.fetch_add(e, Relaxed);
        for key in 0..NKEYS {
            let unchanged = now[&key] == prev[&key];
            if !accepted && !unchanged {
                let d = diff(&prev[&key], &now[&key]);
                return Err(format!("step {i}: rejected publish {op:?} changed what is served for key{key}: {d}"));
            }
            if accepted && key != op.path_key && !unchanged {
                let d = diff(&prev[&key], &now[&key]);
                return Err(format!("step {i}: publish under key{} changed what is served for key{key}: {d}", op.path_key));
            }
        }
        prev = now;
        stats.states.lock().unwrap().insert(trace.clone());
    }
    // cold instance: observed only now; must serve exactly what the continuously observed instance serves
    let (cold_obs, _, _) = observe(ctx, &cold, &model).await.map_err(|m| format!("cold-cache instance at the end: {m}"))?;
    if cold_obs != prev {
        let k = (0..NKEYS).find(|k| cold_obs[k] != prev[k]).unwrap();
        return Err(format!("instance queried only at the end serves differently for key{k}: {}", diff(&prev[&k], &cold_obs[&k])));
    }
    Ok(())
}

fn diff(a: &Observation, b: &Observation) -> String {
    for (k, v) in a {
        if b.get(k) != Some(v) {
            return format!("[{k}] {v} -> {}", b.get(k).cloned().unwrap_or_default());
        }
    }
    "?".into()
}

fn main() {
    let ctx = Ctx::from_args("C36", Level::ModelChecking);
    ctx.set_rule("every publish history up to the depth bound over the alphabet path key x signer x content template x integrity (honest, signature bit flip, payload tampered, timestamp tampered, truncated, oversize, invalid path key), timestamps increasing; after every publish the full query grid (per key every (relative name, type) any content template could map to, honestly or through a broken filter, + NS/SOA there; DoH route under the first origin, UDP-handler path under the root origin, and ZoneStore::resolve) and pkarr GET of both keys are checked by containment against the reference model and compared with the observation before the publish; a second instance receives the same publishes with no intermediate queries (cold cache) and is compared at the end; states = distinct (path key, content, accepted) histories");
    ctx.assume("real clock runtime, eviction disabled, batches by count only; rate limiting disabled in the router; oversize-but-validly-signed bodies may be accepted or rejected (statement silent)");
    ctx.min_outcomes(20);
    let stats = Stats { states: Mutex::new(BTreeSet::new()), answered: 0.into(), empty: 0.into() };
    if let Some(c) = ctx.replay_case::<Case>() {
        run_case(&ctx, &stats, &c);
        ctx.finish();
    }
    // alphabet
    let mut alphabet: Vec<Publish> = Vec::new();
    for path_key in 0..NKEYS {
        for signer in 0..NKEYS {
            for content in 0..NCONTENT {
                for integrity in [Integrity::Ok, Integrity::SigFlip, Integrity::PayloadTamper, Integrity::TsTamper] {
                    alphabet.push(Publish { path_key, signer, content, integrity });
                }
            }
            for integrity in [Integrity::Truncated, Integrity::Oversize, Integrity::BadPathKey] {
                alphabet.push(Publish { path_key, signer, content: 0, integrity });
            }
        }
    }
    // reduced alphabet for the deeper level: every honest content, foreign signers, one of each tamper / malformed class
    let reduced: Vec<Publish> = alphabet
        .iter()
        .filter(|p| match p.integrity {
            Integrity::Ok => p.signer == p.path_key || matches!(p.content, 0 | 2),
            Integrity::SigFlip | Integrity::PayloadTamper | Integrity::TsTamper => p.signer == p.path_key && p.path_key == 0 && p.content == 0,
            _ => p.signer == p.path_key && p.path_key == 0,
        })
        .cloned()
        .collect();
    let mut cases: Vec<Case> = Vec::new();
    let (depth_full, depth_reduced) = ctx.pick((1, 2), (2, 3));
    for ops in sequences_up_to(&alphabet, depth_full).into_iter().filter(|s| s.len() == depth_full) {
        cases.push(Case { ops });
    }
    for ops in sequences_up_to(&reduced, depth_reduced).into_iter().filter(|s| s.len() == depth_reduced) {
        cases.push(Case { ops });
    }
    ctx.bound("alphabet_full", alphabet.len());
    ctx.bound("depth_full_alphabet", depth_full);
    ctx.bound("alphabet_reduced", reduced.len());
    ctx.bound("depth_reduced_alphabet", depth_reduced);
    ctx.bound("cases", cases.len());
    for c in cases.iter().step_by((cases.len() / 8).max(1)) {
        ctx.sample(&format!("{:?}", c.ops.iter().map(|o| (o.path_key, o.signer, o.content, o.integrity)).collect::<Vec<_>>()), c);
    }
    par_for_each(&cases, |c| run_case(&ctx, &stats, c));
    ctx.add_states(stats.states.lock().unwrap().len() as u64);
    use std::sync::atomic::Ordering::Relaxed;
    ctx.extra("queries_with_answers", stats.answered.load(Relaxed));
    ctx.extra("queries_without_answers", stats.empty.load(Relaxed));
    if stats.answered.load(Relaxed) == 0 && ctx.replay.is_none() {
        machinery_error("vacuous: no query was ever answered with records");
    }
    ctx.finish();
}
