//! Shared helpers of the dns-server drivers (C36..C39): deterministic keys, pkarr packets signed in the
//! harness with chosen timestamps, DNS payloads built and answers parsed with `simple_dns` (the server
//! uses hickory), and in-process HTTP calls against the real axum router.
use std::net::SocketAddr;
use std::time::Duration;

use axum::body::Body;
use axum::extract::ConnectInfo;
use http_body_util::BodyExt;
use iroh_base::{PublicKey, SecretKey};
use iroh_dns_server::verif::c37::{App, StoreOptions};
use serde::{Deserialize, Serialize};
use simple_dns::rdata::{self, RData};
use simple_dns::{CLASS, Name, Packet, QCLASS, QTYPE, Question, ResourceRecord, TYPE};
use tower::ServiceExt;

pub const ORIGIN: &str = "irohdns.example.";

/// Deterministic secret keys.
pub fn secret(i: usize) -> SecretKey {
    SecretKey::from_bytes(&[(i as u8).wrapping_mul(41).wrapping_add(7); 32])
}
pub fn z32(i: usize) -> String {
    secret(i).public().to_z32()
}

/// Store options under which nothing depends on the wall clock: batches end by count only
/// (`max_batch_time` one hour), eviction horizon saturates to timestamp 0 (nothing is older), the
/// eviction task takes its first snapshot and then sleeps an hour.
pub fn timeless_options() -> StoreOptions {
    StoreOptions {
        max_batch_size: 1 << 30,
        max_batch_time: Duration::from_secs(3600),
        eviction: Duration::from_micros(u64::MAX),
        eviction_interval: Duration::from_secs(3600),
        cache_capacity: 64,
    }
}

/// Abstract resource record as the reference models see it. `name` is the full owner name written
/// into the packet (no trailing dot), lower case.
#[derive(Serialize, Deserialize, Clone, Debug, PartialEq, Eq, PartialOrd, Ord, Hash)]
pub struct Rec {
    pub name: String,
    pub data: Data,
}
#[derive(Serialize, Deserialize, Clone, Debug, PartialEq, Eq, PartialOrd, Ord, Hash)]
pub enum Data {
    Txt(String),
    A([u8; 4]),
    Cname(String),
    Ns(String),
    Soa(String),
}
impl Data {
    pub fn type_name(&self) -> &'static str {
        match self {
            Data::Txt(_) => "TXT",
            Data::A(_) => "A",
            Data::Cname(_) => "CNAME",
            Data::Ns(_) => "NS",
            Data::Soa(_) => "SOA",
        }
    }
}

fn to_rr(r: &Rec, ttl: u32) -> ResourceRecord<'static> {
    let name = Name::new_unchecked(&r.name).into_owned();
    let rdata = match &r.data {
        Data::Txt(s) => {
            let mut t = rdata::TXT::new();
            t.add_string(s).expect("txt");
            RData::TXT(t.into_owned())
        }
        Data::A(b) => RData::A(rdata::A { address: u32::from_be_bytes(*b) }),
        Data::Cname(n) => RData::CNAME(rdata::CNAME(Name::new_unchecked(n).into_owned())),
        Data::Ns(n) => RData::NS(rdata::NS(Name::new_unchecked(n).into_owned())),
        Data::Soa(n) => RData::SOA(rdata::SOA {
            mname: Name::new_unchecked(n).into_owned(),
            rname: Name::new_unchecked(n).into_owned(),
            serial: 7,
            refresh: 1,
            retry: 1,
            expire: 1,
            minimum: 1,
        }),
    };
    ResourceRecord::new(name, CLASS::IN, ttl, rdata)
}

/// Encode the DNS payload of a pkarr packet.
pub fn dns_payload(records: &[Rec]) -> Vec<u8> {
    let mut p = Packet::new_reply(0);
    for r in records {
        p.answers.push(to_rr(r, 30));
    }
    p.build_bytes_vec_compressed().expect("encode dns payload")
}

/// BEP44 signable (written from the pkarr specification).
fn signable(ts: u64, v: &[u8]) -> Vec<u8> {
    let mut s = format!("3:seqi{}e1:v{}:", ts, v.len()).into_bytes();
    s.extend_from_slice(v);
    s
}

/// Full pkarr packet bytes `<32 key><64 sig><8 ts BE><dns>` signed by `signer` but carrying `key_in_packet`.
pub fn packet_bytes(signer: &SecretKey, key_in_packet: &PublicKey, ts: u64, dns: &[u8]) -> Vec<u8> {
    let sig = signer.sign(&signable(ts, dns));
    let mut raw = Vec::with_capacity(104 + dns.len());
    raw.extend_from_slice(key_in_packet.as_bytes());
    raw.extend_from_slice(&sig.to_bytes());
    raw.extend_from_slice(&ts.to_be_bytes());
    raw.extend_from_slice(dns);
    raw
}
/// Honest packet of key `signer`.
pub fn honest_packet(signer: &SecretKey, ts: u64, dns: &[u8]) -> Vec<u8> {
    packet_bytes(signer, &signer.public(), ts, dns)
}

pub fn runtime() -> tokio::runtime::Runtime {
    tokio::runtime::Builder::new_current_thread().enable_all().build().expect("runtime")
}

thread_local! {
    static RT: tokio::runtime::Runtime = runtime();
}
/// Run one case on this worker thread's (real-clock, current-thread) runtime. Every case builds and drops
/// its own `App`; dropping joins the store's two io threads, so nothing of a case survives in the runtime.
pub fn block_on<F: std::future::Future>(f: F) -> F::Output {
    RT.with(|rt| rt.block_on(f))
}

fn with_conn_info(mut req: http::Request<Body>) -> http::Request<Body> {
    req.extensions_mut().insert(ConnectInfo(SocketAddr::from(([127, 0, 0, 1], 4444))));
    req
}

pub struct HttpResp {
    pub status: u16,
    pub body: Vec<u8>,
}

async fn call(app: &App, req: http::Request<Body>) -> HttpResp {
    let resp = app.router().oneshot(with_conn_info(req)).await.expect("router is infallible");
    let status = resp.status().as_u16();
    let body = resp.into_body().collect().await.expect("body").to_bytes().to_vec();
    HttpResp { status, body }
}

/// `PUT /pkarr/<key>` with the relay payload (signature + timestamp + dns).
pub async fn http_put(app: &App, key_z32: &str, payload: Vec<u8>) -> HttpResp {
    let req = http::Request::builder().method("PUT").uri(format!("/pkarr/{key_z32}")).body(Body::from(payload)).unwrap();
    call(app, req).await
}
/// `GET /pkarr/<key>`: the relay payload.
pub async fn http_get(app: &App, key_z32: &str) -> HttpResp {
    let req = http::Request::builder().method("GET").uri(format!("/pkarr/{key_z32}")).body(Body::empty()).unwrap();
    call(app, req).await
}

/// Parsed DNS answer (via simple_dns).
#[derive(Debug, Clone, PartialEq, Eq)]
pub struct DnsAnswer {
    pub http_status: u16,
    /// numeric rcode; 0 = NoError, 3 = NXDomain, 5 = Refused; 999 = unparsable
    pub rcode: u16,
    /// (owner name lower case no trailing dot, data)
    pub answers: Vec<Rec>,
}

pub fn qtype(t: &str) -> TYPE {
    match t {
        "TXT" => TYPE::TXT,
        "A" => TYPE::A,
        "CNAME" => TYPE::CNAME,
        "NS" => TYPE::NS,
        "SOA" => TYPE::SOA,
        "AAAA" => TYPE::AAAA,
        other => panic!("qtype {other}"),
    }
}

fn parse_answer(http_status: u16, body: &[u8]) -> DnsAnswer {
    let Ok(p) = Packet::parse(body) else {
        return DnsAnswer { http_status, rcode: 999, answers: vec![] };
    };
    let mut answers = Vec::new();
    for rr in &p.answers {
        let name = rr.name.to_string().to_ascii_lowercase();
        let data = match &rr.rdata {
            RData::TXT(t) => Data::Txt(String::try_from(t.clone()).unwrap_or_else(|_| "<non-utf8>".into())),
            RData::A(a) => Data::A(a.address.to_be_bytes()),
            RData::CNAME(c) => Data::Cname(c.0.to_string().to_ascii_lowercase()),
            RData::NS(n) => Data::Ns(n.0.to_string().to_ascii_lowercase()),
            RData::SOA(s) => Data::Soa(s.mname.to_string().to_ascii_lowercase()),
            other => Data::Txt(format!("<other {:?}>", other.type_code())),
        };
        answers.push(Rec { name, data });
    }
    answers.sort();
    DnsAnswer { http_status, rcode: p.rcode() as u16, answers }
}

/// DNS query over the DoH POST route of the real router (wire format in, wire format out).
pub async fn doh_query(app: &App, name: &str, ty: &str) -> DnsAnswer {
    let mut q = Packet::new_query(0x1234);
    q.questions.push(Question::new(Name::new_unchecked(name).into_owned(), QTYPE::TYPE(qtype(ty)), QCLASS::CLASS(CLASS::IN), false));
    let wire = q.build_bytes_vec().expect("encode query");
    let req = http::Request::builder()
        .method("POST")
        .uri("/dns-query")
        .header("content-type", "application/dns-message")
        .body(Body::from(wire))
        .unwrap();
    let r = call(app, req).await;
    parse_answer(r.status, &r.body)
}

/// DNS query straight into `DnsHandler::answer_request` as the UDP listener would deliver it.
pub async fn udp_query(app: &App, name: &str, ty: &str) -> DnsAnswer {
    let mut q = Packet::new_query(0x4321);
    q.questions.push(Question::new(Name::new_unchecked(name).into_owned(), QTYPE::TYPE(qtype(ty)), QCLASS::CLASS(CLASS::IN), false));
    let wire = q.build_bytes_vec().expect("encode query");
    let req = match hickory_server::server::Request::from_bytes(wire, SocketAddr::from(([127, 0, 0, 1], 5555)), hickory_server::net::xfer::Protocol::Udp) {
        Ok(r) => r,
        Err(_) => return DnsAnswer { http_status: 0, rcode: 998, answers: vec![] },
    };
    match app.answer_dns(req).await {
        Ok(b) => parse_answer(200, &b),
        Err(_) => DnsAnswer { http_status: 500, rcode: 997, answers: vec![] },
    }
}

/// `ZoneStore::resolve` (what the zone handler reads): records of `rel` (name relative to the key's zone).
pub async fn store_resolve(app: &App, key: &PublicKey, rel: &str, ty: &str) -> Result<Vec<Rec>, String> {
    use hickory_server::proto::rr::{Name as HName, RData as HData, RecordType};
    // built like the zone handler builds it (`Name::from_labels`, which yields an FQDN name)
    let labels: Vec<&[u8]> = if rel.is_empty() { vec![] } else { rel.split('.').map(|l| l.as_bytes()).collect() };
    let name = HName::from_labels(labels).map_err(|e| e.to_string())?;
    let rt = match ty {
        "TXT" => RecordType::TXT,
        "A" => RecordType::A,
        "CNAME" => RecordType::CNAME,
        "NS" => RecordType::NS,
        "SOA" => RecordType::SOA,
        "AAAA" => RecordType::AAAA,
        other => panic!("type {other}"),
    };
    let set = app.resolve(key, &name, rt).await.map_err(|e| e.to_string())?;
    let mut out = Vec::new();
    if let Some(set) = set {
        for r in set.records_without_rrsigs() {
            let data = match &r.data {
                HData::TXT(t) => Data::Txt(t.txt_data.iter().map(|b| String::from_utf8_lossy(b).to_string()).collect::<Vec<_>>().join("")),
                HData::A(a) => Data::A(a.0.octets()),
                HData::CNAME(c) => Data::Cname(c.0.to_utf8().to_ascii_lowercase().trim_end_matches('.').to_string()),
                HData::NS(n) => Data::Ns(n.0.to_utf8().to_ascii_lowercase().trim_end_matches('.').to_string()),
                HData::SOA(s) => Data::Soa(s.mname.to_utf8().to_ascii_lowercase().trim_end_matches('.').to_string()),
                other => Data::Txt(format!("<other {}>", other.record_type())),
            };
            out.push(Rec { name: r.name.to_utf8().to_ascii_lowercase(), data });
        }
    }
    out.sort();
    Ok(out)
}
