//! C07 Access control sees exactly one disconnect per admitted relay connection — fault enumeration
//! on the real accept path (`RelayService::verif_accept` = `Inner::accept`): the connection is cut
//! after every possible number of server bytes / client bytes of the handshake + admission exchange,
//! for every header kind, decision (immediate or delayed past the cut) and protocol version; then
//! every post-registration ending. Oracle on the policy's callback log.
use bytes::Bytes;
use serde::{Deserialize, Serialize};
use std::collections::BTreeSet;
use std::sync::atomic::Ordering::SeqCst;
use std::sync::Mutex;
use std::time::Duration;
use vh_engine::*;
use vh_p_relay::acceptnet::*;

#[derive(Clone, Copy, Serialize, Deserialize, Debug, PartialEq, Eq, Hash, PartialOrd, Ord)]
enum Ending {
    None,
    ClientClose,
    ClientDrop,
    Garbage,
    Displaced,
    DiscSome,
    DiscNone,
    Shutdown,
    WriteTimeout,
}

#[derive(Clone, Serialize, Deserialize, Debug, PartialEq, Eq, Hash, PartialOrd, Ord)]
struct Case {
    v1: bool,
    header: Header,
    decision: Decision,
    delayed: bool,
    cut: Cut,
    ending: Ending,
}

struct Outcome {
    class: String,
    outcome: String,
    problem: Option<String>,
    s2c: u64,
    c2s: u64,
    conn_ids: Vec<String>,
}

fn run_case(case: &Case) -> Outcome {
    let rt = runtime();
    rt.block_on(async {
        let policy = Policy::new(vec![case.decision, Decision::Allow], case.delayed);
        let service = new_service(policy.clone());
        let link = start_link(&service, 0, case.v1, case.header, case.cut);
        settle().await;
        if case.delayed {
            // the decision arrives only now (after a cut, if the cut point was reached)
            policy.delayed.store(false, SeqCst);
            policy.gate.notify_waiters();
            settle().await;
        }
        settle().await;
        let accept_res = if link.accept.is_finished() { Some(link.accept.await.unwrap()) } else { None };
        let (client_res, mut ws) = if link.client.is_finished() { let (r, w) = link.client.await.unwrap(); (Some(r), w) } else { (None, None) };
        let admitted_now: Vec<_> = policy.log.lock().unwrap().iter().filter_map(|e| if let Ev::Connect { conn, allowed: true, id } = e { Some((*id, *conn)) } else { None }).collect();
        let mut problem: Option<String> = None;
        // sanity (non-vacuity): an undisturbed allowed exchange must succeed end to end; a denied one must be reported to the client
        if case.cut == Cut::None && case.header != Header::Garbage {
            match case.decision {
                Decision::Allow => {
                    if accept_res != Some(Ok(())) || client_res != Some(Ok(())) {
                        problem = Some(format!("undisturbed allowed exchange failed: accept={accept_res:?} client={client_res:?}"));
                    }
                }
                _ => {
                    let told = matches!(&client_res, Some(Err(e)) if e.to_lowercase().contains("denied") || e.contains("policy says no") || e.contains("not authorized"));
                    if !told || !matches!(accept_res, Some(Err(_))) {
                        problem = Some(format!("denial not reported: accept={accept_res:?} client={client_res:?}"));
                    }
                    // a denied connection is never registered
                    if service.clients().disconnect(secret(0).public(), None) {
                        problem = Some("denied connection is registered".into());
                    }
                }
            }
        }
        let registered = accept_res == Some(Ok(()));
        let mut extra_links: Vec<Link> = Vec::new();
        let mut extra_ws = Vec::new();
        if registered {
            match case.ending {
                Ending::None => {}
                Ending::ClientClose => {
                    if let Some(w) = ws.as_mut() {
                        let _ = w.close().await;
                    }
                }
                Ending::ClientDrop => {
                    ws = None;
                }
                Ending::Garbage => {
                    if let Some(w) = ws.as_mut() {
                        let _ = w.send_frame(Bytes::from_static(&[0x3f, 1, 2, 3])).await;
                    }
                }
                Ending::Displaced => {
                    let l2 = start_link(&service, 0, false, Header::None, Cut::None);
                    settle().await;
                    ws = None; // first (displaced) connection closes
                    settle().await;
                    extra_links.push(l2);
                }
                Ending::DiscSome => {
                    if let Some((id, conn)) = admitted_now.first() {
                        let found = service.clients().disconnect(*id, Some(*conn));
                        if !found {
                            problem = Some("disconnect(id, Some(conn)) did not find the registered connection".into());
                        }
                    }
                }
                Ending::DiscNone => {
                    let found = service.clients().disconnect(secret(0).public(), None);
                    if !found {
                        problem = Some("disconnect(id, None) did not find the registered connection".into());
                    }
                }
                Ending::Shutdown => {
                    service.shutdown().await;
                }
                Ending::WriteTimeout => {
                    // the victim's outbound path stalls; a second client floods it until the relay's write times out
                    link.stats.stall_s2c.store(true, SeqCst);
                    let l2 = start_link(&service, 1, false, Header::None, Cut::None);
                    settle().await;
                    if l2.client.is_finished() {
                        let (_r, w2) = l2.client.await.unwrap();
                        if let Some(mut w2) = w2 {
                            for i in 0..4u8 {
                                let mut f = vec![4u8];
                                f.extend_from_slice(secret(0).public().as_bytes());
                                f.push(0);
                                f.extend_from_slice(&[i; 200]);
                                let _ = w2.send_frame(Bytes::from(f)).await;
                            }
                            settle().await;
                            extra_ws.push(w2);
                        }
                        extra_links.push(Link { accept: l2.accept, client: tokio::spawn(async { (Ok(()), None) }), pump: l2.pump, stats: l2.stats });
                    } else {
                        extra_links.push(l2);
                    }
                    tokio::time::advance(Duration::from_millis(2500)).await;
                    settle().await;
                }
            }
            settle().await;
        }
        // ---- wind everything down, then judge the callback log ----
        drop(ws);
        for l in extra_links {
            l.accept.abort();
            if l.client.is_finished() {
                let _ = l.client.await;
            } else {
                l.client.abort();
            }
            l.pump.abort();
        }
        drop(extra_ws);
        settle().await;
        link.pump.abort();
        settle().await;
        tokio::time::advance(Duration::from_secs(3)).await;
        settle().await;
        service.shutdown().await;
        settle().await;
        tokio::time::advance(Duration::from_secs(20)).await;
        settle().await;
        let log = policy.log.lock().unwrap().clone();
        let mut conn_ids = Vec::new();
        let mut admitted = 0;
        let mut disconnects_total = 0;
        for e in &log {
            if let Ev::Connect { id, conn, allowed } = e {
                conn_ids.push(format!("{conn}"));
                let n = log.iter().filter(|x| matches!(x, Ev::Disconnect { id: i2, conn: c2 } if c2 == conn && i2 == id)).count();
                let n_any_id = log.iter().filter(|x| matches!(x, Ev::Disconnect { conn: c2, .. } if c2 == conn)).count();
                disconnects_total += n_any_id;
                if *allowed {
                    admitted += 1;
                    if n != 1 || n_any_id != 1 {
                        problem = Some(format!("admitted connection {conn} got {n} matching disconnect notifications ({n_any_id} with any endpoint id); log = {log:?}"));
                    }
                } else if n_any_id != 0 {
                    problem = Some(format!("denied connection {conn} produced {n_any_id} disconnect notifications"));
                }
            }
        }
        // no disconnect for an id that never connected
        for e in &log {
            if let Ev::Disconnect { conn, .. } = e {
                if !log.iter().any(|x| matches!(x, Ev::Connect { conn: c2, .. } if c2 == conn)) {
                    problem = Some(format!("disconnect notification for unknown connection id {conn}"));
                }
            }
        }
        // a disconnect notification must not precede its connect decision
        for (i, e) in log.iter().enumerate() {
            if let Ev::Disconnect { conn, .. } = e {
                if !log[..i].iter().any(|x| matches!(x, Ev::Connect { conn: c2, .. } if c2 == conn)) {
                    problem = Some(format!("disconnect for {conn} reported before its admission"));
                }
            }
        }
        let cutk = match case.cut {
            Cut::None => "nocut",
            Cut::S2C(_) => "cut-s2c",
            Cut::C2S(_) => "cut-c2s",
        };
        Outcome {
            class: format!("{:?}/{:?}/delayed={}/{}/{:?}", case.header, case.decision, case.delayed, cutk, case.ending),
            outcome: format!("accept={} admitted={admitted} disconnects={disconnects_total}", match &accept_res { Some(Ok(())) => "ok", Some(Err(_)) => "err", None => "pending" }),
            problem,
            s2c: link.stats.s2c.load(SeqCst),
            c2s: link.stats.c2s.load(SeqCst),
            conn_ids,
        }
    })
}

fn main() {
    let ctx = Ctx::from_args("C07", Level::FaultEnumeration);
    ctx.set_rule("for every (version, auth-header kind, decision, decision immediate/delayed): the connection is cut after exactly k bytes server->client for every k in 0..=total and after exactly j bytes client->server for every j in 0..=total (totals measured from the undisturbed exchange); plus every post-registration ending {client close, client drop, protocol error, displaced+closed, disconnect by connection id, disconnect by endpoint id, service shutdown, relay write time-out}; oracle on the access policy's callback log after wind-down; distinct = (configuration class, accept result/admitted/disconnect count)");
    ctx.assume("TLS keying material is unavailable on the in-memory stream, so admission always goes through the challenge path (a well-formed but unverifiable key-material header exercises the fallback)");
    ctx.assume("single-thread paused-clock runtime; a cut drops both directions at once");
    ctx.min_outcomes(10);
    if let Some(c) = ctx.replay_case::<Case>() {
        let o = run_case(&c);
        println!("replay: {} => {} (s2c={} c2s={})", o.class, o.outcome, o.s2c, o.c2s);
        if let Some(p) = o.problem {
            ctx.discrepancy(None, &p, &c);
        }
        ctx.finish();
    }
    let mut cases: Vec<Case> = Vec::new();
    let versions: Vec<bool> = vec![false, true]; // both protocol versions in both tiers (cheap)
    let mut totals = Vec::new();
    for &v1 in &versions {
        for header in [Header::None, Header::Garbage, Header::Unverifiable] {
            for decision in [Decision::Allow, Decision::Deny, Decision::DenyReason] {
                for delayed in [false, true] {
                    let base = Case { v1, header, decision, delayed, cut: Cut::None, ending: Ending::None };
                    let o = run_case(&base);
                    totals.push((format!("{header:?}/{decision:?}/{delayed}"), o.s2c, o.c2s));
                    cases.push(base.clone());
                    for k in 0..=o.s2c {
                        cases.push(Case { cut: Cut::S2C(k), ..base.clone() });
                    }
                    for j in 0..=o.c2s {
                        cases.push(Case { cut: Cut::C2S(j), ..base.clone() });
                    }
                }
            }
        }
        for header in [Header::None, Header::Unverifiable] {
            for ending in [Ending::ClientClose, Ending::ClientDrop, Ending::Garbage, Ending::Displaced, Ending::DiscSome, Ending::DiscNone, Ending::Shutdown, Ending::WriteTimeout] {
                cases.push(Case { v1, header, decision: Decision::Allow, delayed: false, cut: Cut::None, ending });
            }
        }
    }
    ctx.bound("exchange_byte_totals(header/decision/delayed, s2c, c2s)", &totals);
    ctx.sample("first-cut", &cases[1]);
    ctx.sample("ending", cases.last().unwrap());
    let all_ids: Mutex<Vec<String>> = Mutex::new(Vec::new());
    par_for_each(&cases, |case| {
        let r = quiet_catch(|| run_case(case));
        match r {
            Err(p) => ctx.discrepancy(None, &format!("panic: {p}"), case),
            Ok(o) => {
                all_ids.lock().unwrap().extend(o.conn_ids);
                if let Some(p) = o.problem {
                    ctx.discrepancy(None, &format!("{p} [{}]", o.class), case);
                } else {
                    ctx.eval(&o.class, &o.outcome);
                }
            }
        }
    });
    // connection ids are never reused (process-wide, across all executions of this run)
    let ids = all_ids.into_inner().unwrap();
    let uniq: BTreeSet<&String> = ids.iter().collect();
    ctx.extra("connection_ids_seen", ids.len());
    if uniq.len() != ids.len() {
        ctx.discrepancy(None, &format!("connection ids reused: {} ids, {} distinct", ids.len(), uniq.len()), &cases[0]);
    }
    ctx.finish();
}
