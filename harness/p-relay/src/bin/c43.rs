//! C43 Relay maps behave as maps and never deadlock — E1 explicit-state search over operation histories of the public
//! `RelayMap`, every history executed on a watched worker thread (E3 blocked-thread detector).
//!
//! Handles: 0 = A, 1 = a clone of A (shares A's map), 2 = B (independent map). Operations: insert / remove / extend
//! (every ordered pair of handles, including a handle with itself and with its clone) / with_auth_token. After every
//! operation every handle is observed (len, is_empty, urls, relays, get, contains, `==` between all pairs, Display) and
//! compared with a `BTreeMap` model in which handles 0 and 1 denote the same map.
use iroh_base::RelayUrl;
use iroh_relay::{RelayConfig, RelayMap, RelayQuicConfig};
use serde::{Deserialize, Serialize};
use std::collections::BTreeMap;
use std::sync::atomic::{AtomicU64, Ordering};
use std::sync::{Arc, Mutex};
use vh_engine::*;

const NURLS: usize = 4;
const HANDLE_OBJ: [usize; 3] = [0, 0, 1];

#[derive(Serialize, Deserialize, Clone, Debug, PartialEq, Eq, Hash)]
enum Op {
    /// variant 0: default QUIC config, 1: no QUIC config
    Insert { h: usize, url: usize, variant: u8 },
    Remove { h: usize, url: usize },
    Extend { dst: usize, src: usize },
    WithToken { h: usize, token: u8 },
}

#[derive(Clone, Debug, PartialEq, Eq, PartialOrd, Ord)]
struct Cfg {
    url: usize,
    quic: bool,
    token: Option<u8>,
}
type MapModel = BTreeMap<usize, Cfg>;

fn url(i: usize) -> RelayUrl {
    // string order = index order, so BTreeMap iteration order of the real map is the model's
    format!("https://r{i}.relay.test./").parse().unwrap()
}
fn tok(t: u8) -> String {
    format!("tok{t}")
}
fn real_cfg(c: &Cfg) -> RelayConfig {
    let r = RelayConfig::new(url(c.url), if c.quic { Some(RelayQuicConfig::default()) } else { None });
    match c.token {
        Some(t) => r.with_auth_token(tok(t)),
        None => r,
    }
}
fn same(real: &RelayConfig, m: &Cfg) -> bool {
    *real == real_cfg(m)
}

fn initial_model() -> [MapModel; 2] {
    let mut b = MapModel::new();
    b.insert(2, Cfg { url: 2, quic: true, token: None });
    b.insert(3, Cfg { url: 3, quic: false, token: None });
    [MapModel::new(), b]
}
fn initial_real() -> Vec<RelayMap> {
    let a = RelayMap::empty();
    let a2 = a.clone();
    let b = RelayMap::from_iter([RelayConfig::from(url(2)), RelayConfig::new(url(3), None)]);
    vec![a, a2, b]
}

#[derive(Default, Clone)]
struct Progress {
    /// operations fully executed and observed
    done: usize,
    /// what the thread is doing right now
    at: String,
    error: Option<String>,
    finished: bool,
    /// classification of the last executed op, for the evidence
    last_class: String,
}

/// Compare everything observable through every handle with the model.
fn observe(real: &[RelayMap], model: &[MapModel; 2], p: &Arc<Mutex<Progress>>) -> Result<(), String> {
    for (h, m) in real.iter().enumerate() {
        let want = &model[HANDLE_OBJ[h]];
        p.lock().unwrap().at = format!("observing handle {h}");
        if m.len() != want.len() || m.is_empty() != want.is_empty() {
            return Err(format!("handle {h}: len {} / is_empty {}, model has {} entries", m.len(), m.is_empty(), want.len()));
        }
        let urls: Vec<RelayUrl> = m.urls();
        let want_urls: Vec<RelayUrl> = want.keys().map(|u| url(*u)).collect();
        if urls != want_urls {
            return Err(format!("handle {h}: urls {urls:?}, model {want_urls:?}"));
        }
        let relays: Vec<Arc<RelayConfig>> = m.relays();
        if relays.len() != want.len() || !relays.iter().zip(want.values()).all(|(r, w)| same(r, w)) {
            return Err(format!("handle {h}: relays {relays:?}, model {want:?}"));
        }
        for u in 0..NURLS {
            let got = m.get(&url(u));
            let ok = match (&got, want.get(&u)) {
                (None, None) => true,
                (Some(r), Some(w)) => same(r, w),
                _ => false,
            };
            if !ok || m.contains(&url(u)) != want.contains_key(&u) {
                return Err(format!("handle {h}: get(url {u}) = {got:?}, model {:?}", want.get(&u)));
            }
        }
        let _ = format!("{m}");
    }
    for i in 0..real.len() {
        for j in 0..real.len() {
            p.lock().unwrap().at = format!("comparing handle {i} == handle {j}");
            let want = model[HANDLE_OBJ[i]] == model[HANDLE_OBJ[j]];
            if (real[i] == real[j]) != want {
                return Err(format!("handle {i} == handle {j} is {}, model says {want}", !want));
            }
        }
    }
    Ok(())
}

fn classify(op: &Op, model: &[MapModel; 2]) -> String {
    match op {
        Op::Insert { h, url, .. } => format!("insert:{}{}", if model[HANDLE_OBJ[*h]].contains_key(url) { "replace" } else { "new" }, if *h == 1 { " via-clone" } else { "" }),
        Op::Remove { h, url } => format!("remove:{}{}", if model[HANDLE_OBJ[*h]].contains_key(url) { "present" } else { "absent" }, if *h == 1 { " via-clone" } else { "" }),
        Op::Extend { dst, src } => format!(
            "extend:{}",
            if dst == src {
                "same-handle"
            } else if HANDLE_OBJ[*dst] == HANDLE_OBJ[*src] {
                "clone-of-receiver"
            } else if model[HANDLE_OBJ[*src]].keys().any(|k| model[HANDLE_OBJ[*dst]].contains_key(k)) {
                "independent-overlapping"
            } else {
                "independent-disjoint"
            }
        ),
        Op::WithToken { h, .. } => format!("with_auth_token:{}", if model[HANDLE_OBJ[*h]].is_empty() { "empty" } else { "non-empty" }),
    }
}

/// Body run on the watched thread: replay the history on fresh real maps and the model.
fn replay(history: Vec<Op>, p: Arc<Mutex<Progress>>, out_model: Arc<Mutex<Option<([MapModel; 2], String)>>>) {
    let mut real = initial_real();
    let mut model = initial_model();
    let fail = |p: &Arc<Mutex<Progress>>, e: String| {
        let mut g = p.lock().unwrap();
        g.error = Some(e);
        g.finished = true;
    };
    if let Err(e) = observe(&real, &model, &p) {
        return fail(&p, format!("initial state: {e}"));
    }
    for (i, op) in history.iter().enumerate() {
        {
            let mut g = p.lock().unwrap();
            g.at = format!("executing op {i}: {op:?}");
            g.last_class = classify(op, &model);
        }
        match op {
            Op::Insert { h, url: u, variant } => {
                let cfg = Cfg { url: *u, quic: *variant == 0, token: None };
                let got = real[*h].insert(url(*u), Arc::new(real_cfg(&cfg)));
                let want = model[HANDLE_OBJ[*h]].insert(*u, cfg);
                let ok = match (&got, &want) {
                    (None, None) => true,
                    (Some(r), Some(w)) => same(r, w),
                    _ => false,
                };
                if !ok {
                    return fail(&p, format!("op {i} {op:?} returned {got:?}, model {want:?}"));
                }
            }
            Op::Remove { h, url: u } => {
                let got = real[*h].remove(&url(*u));
                let want = model[HANDLE_OBJ[*h]].remove(u);
                let ok = match (&got, &want) {
                    (None, None) => true,
                    (Some(r), Some(w)) => same(r, w),
                    _ => false,
                };
                if !ok {
                    return fail(&p, format!("op {i} {op:?} returned {got:?}, model {want:?}"));
                }
            }
            Op::Extend { dst, src } => {
                real[*dst].extend(&real[*src]);
                let add = model[HANDLE_OBJ[*src]].clone();
                model[HANDLE_OBJ[*dst]].extend(add);
            }
            Op::WithToken { h, token } => {
                let m = std::mem::replace(&mut real[*h], RelayMap::empty());
                real[*h] = m.with_auth_token(tok(*token));
                for c in model[HANDLE_OBJ[*h]].values_mut() {
                    c.token = Some(*token);
                }
            }
        }
        if let Err(e) = observe(&real, &model, &p) {
            return fail(&p, format!("after op {i} {op:?}: {e}"));
        }
        p.lock().unwrap().done = i + 1;
    }
    p.lock().unwrap().at = "taking the implementation-state fingerprint (Debug of every handle, probe insert/remove through every handle)".into();
    let fp = real_fingerprint(&real);
    *out_model.lock().unwrap() = Some((model, fp));
    p.lock().unwrap().finished = true;
}

/// Fingerprint of the REAL handles, used only in the de-duplication key (never compared with the model).
/// The contents of every map are compared with the model after every operation, so what the model key cannot see is
/// (1) anything else the maps carry (lock poisoning; whatever a future field would add) — taken from the derived `Debug` of every
/// handle — and (2) which handles share one map: an operation that silently un-shares a clone (or shares two independent maps)
/// leaves all contents model-equal and shows only when a later write through one handle is (not) seen through the other.
/// Histories are re-executed from scratch, so the sharing relation is probed destructively after the last operation: a probe
/// URL is inserted through each handle in turn, the handles that see it are recorded, and it is removed again.
fn real_fingerprint(real: &[RelayMap]) -> String {
    let probe: RelayUrl = "https://probe.relay.test./".parse().unwrap();
    let mut fp = String::new();
    for (h, m) in real.iter().enumerate() {
        fp.push_str(&format!("h{h}={m:?};"));
    }
    for (h, m) in real.iter().enumerate() {
        m.insert(probe.clone(), Arc::new(RelayConfig::new(probe.clone(), None)));
        let seen_by: Vec<usize> = (0..real.len()).filter(|&j| real[j].contains(&probe)).collect();
        m.remove(&probe);
        let left_in: Vec<usize> = (0..real.len()).filter(|&j| real[j].contains(&probe)).collect();
        fp.push_str(&format!("write-through-h{h}-seen-by{seen_by:?}-left-in{left_in:?};"));
    }
    fp
}

static DEADLOCKS: AtomicU64 = AtomicU64::new(0);
const MAX_ABANDONED: u64 = 64;

enum Outcome {
    Completed([MapModel; 2], String),
    Wrong(String),
    Blocked { op_index: usize, at: String },
    Panicked(String),
}

fn run_watched(history: &[Op]) -> (Outcome, String) {
    let p = Arc::new(Mutex::new(Progress::default()));
    let out = Arc::new(Mutex::new(None));
    let (h2, p2, o2) = (history.to_vec(), p.clone(), out.clone());
    let x = thrsched::run(vec![Box::new(move || replay(h2, p2, o2))], &[]);
    let class = p.lock().unwrap().last_class.clone();
    if let Some((_, msg)) = x.panics.first() {
        let at = p.lock().unwrap().at.clone();
        return (Outcome::Panicked(format!("{msg} (while {at})")), class);
    }
    if x.deadlock {
        // confirmation 1: a thread that was merely slow would finish by now
        std::thread::sleep(std::time::Duration::from_millis(30));
        let g = p.lock().unwrap().clone();
        if !g.finished {
            return (Outcome::Blocked { op_index: g.done, at: g.at }, class);
        }
    }
    let g = p.lock().unwrap().clone();
    if let Some(e) = g.error {
        return (Outcome::Wrong(e), class);
    }
    if !g.finished {
        return (Outcome::Wrong("worker neither finished nor blocked".into()), class);
    }
    let (m, fp) = out.lock().unwrap().take().expect("model");
    (Outcome::Completed(m, fp), class)
}

fn state_key(m: &[MapModel; 2], real_fp: &str) -> String {
    format!("{m:?} || {real_fp}")
}

fn exec(ctx: &Ctx, history: &[Op]) -> Option<Step<String>> {
    if DEADLOCKS.load(Ordering::SeqCst) >= MAX_ABANDONED {
        return None;
    }
    let (o, class) = run_watched(history);
    match o {
        Outcome::Completed(m, fp) => {
            if !history.is_empty() {
                ctx.eval(&class, "ok");
            }
            Some(Step { key: state_key(&m, &fp), expand: true })
        }
        Outcome::Wrong(e) => {
            ctx.discrepancy(None, &e, history);
            None
        }
        Outcome::Panicked(e) => {
            ctx.discrepancy(None, &format!("operation panicked: {e}"), history);
            None
        }
        Outcome::Blocked { op_index, at } => {
            DEADLOCKS.fetch_add(1, Ordering::SeqCst);
            // confirmation 2: a second execution must block at the same operation
            let (o2, _) = run_watched(history);
            match o2 {
                Outcome::Blocked { op_index: i2, .. } if i2 == op_index => {
                    DEADLOCKS.fetch_add(1, Ordering::SeqCst);
                }
                _ => machinery_error(&format!("blocked-thread verdict not reproducible for {history:?}")),
            }
            // named deviation: exactly `x.extend(&y)` with x and y sharing one map blocks, everything before it agreed with the model
            let key = match history.get(op_index) {
                Some(Op::Extend { dst, src }) if HANDLE_OBJ[*dst] == HANDLE_OBJ[*src] && at.starts_with("executing") => Some("extend-with-shared-clone-deadlocks"),
                _ => None,
            };
            ctx.discrepancy(key, &format!("thread blocked forever in a lock wait while {at} (write lock taken, then read lock on the same RwLock)"), history);
            ctx.eval(&class, "blocked forever");
            None
        }
    }
}

fn menu(_h: &[Op]) -> Vec<Op> {
    let mut v = Vec::new();
    for h in [0usize, 2] {
        for url in 0..NURLS {
            for variant in 0..2u8 {
                v.push(Op::Insert { h, url, variant });
            }
            v.push(Op::Remove { h, url });
        }
        for token in 1..=2u8 {
            v.push(Op::WithToken { h, token });
        }
    }
    // through the clone: one representative of each mutating operation (same object as handle 0)
    v.push(Op::Insert { h: 1, url: 1, variant: 1 });
    v.push(Op::Remove { h: 1, url: 1 });
    v.push(Op::WithToken { h: 1, token: 2 });
    for dst in 0..3 {
        for src in 0..3 {
            v.push(Op::Extend { dst, src });
        }
    }
    v
}

fn main() {
    let ctx = Ctx::from_args("C43", Level::ModelChecking);
    ctx.set_rule("BFS over operation histories of 3 handles (A, clone of A, independent B = {url2, url3}) with re-execution from scratch; menu of 40 operations (insert 4 urls x 2 configs and remove 4 urls on A and B, with_auth_token 2 tokens on A and B, one insert/remove/token through the clone, extend for all 9 ordered handle pairs); after every operation all handles are observed; states de-duplicated by the model contents of the two maps AND a fingerprint of the real handles (Debug output of every handle — contents, lock poison flag — and the sharing relation between the handles, probed after the last operation by inserting and removing a probe URL through each handle and recording which handles see it), so two histories are merged only if the implementation is in the same state too; Arc identities of the stored configs are not part of the key (no operation of RelayMap can act on them); distinct = (operation class) x (ok | blocked)");
    ctx.assume("a worker thread asleep in a futex wait outside the scheduler's gates for > 1 ms, still not finished 30 ms later, and blocking at the same operation in a second execution, is blocked forever (single thread, no other lock holder exists)");
    let depth = ctx.pick(3, 4);
    ctx.bound("max_depth", depth);
    ctx.bound("urls", NURLS);
    ctx.bound("menu", menu(&[]).len());
    ctx.min_outcomes(12);
    if let Some(c) = ctx.replay_case::<Vec<Op>>() {
        let _ = exec(&ctx, &c);
        ctx.add_traces(1);
        ctx.finish();
    }
    ctx.sample("history", vec![Op::Insert { h: 0, url: 1, variant: 0 }, Op::Extend { dst: 2, src: 1 }, Op::WithToken { h: 2, token: 1 }]);
    let (states, d) = bfs_histories(&ctx, &menu, &|h| exec(&ctx, h), depth, 2_000_000);
    ctx.extra("distinct_states", states);
    ctx.extra("depth_completed", d);
    if DEADLOCKS.load(Ordering::SeqCst) >= MAX_ABANDONED {
        ctx.cap_hit(&format!("{MAX_ABANDONED} blocked instances abandoned; exploration below blocked states stopped"));
    }
    ctx.finish();
}
