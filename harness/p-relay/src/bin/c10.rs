//! C10 Relay frames encode and decode exactly, and decoding is total — E0 exhaustive input enumeration.
//!
//! Four families of cases, all against the real codec (`iroh_relay::verif::c10` re-exports the crate-private
//! `to_bytes / encoded_len / from_bytes` and builds an in-memory websocket pair out of the real client `Conn`
//! and the real server `RelayedStream`):
//!   Msg     — a message of either direction: reference encoding = real encoding, `encoded_len` = real length,
//!             decode under every protocol version = itself / rejected per version gating
//!   Tag     — frame-type varints in every width
//!   Decode  — arbitrary byte strings through all three decoders: no panic, version gating by tag, every accepted
//!             value is a fixed point of encode/decode
//!   Sink    — a message offered to the real sending sink; if the sink accepts it the real receiving stream must
//!             yield exactly that message
use bytes::Bytes;
use iroh_base::{PublicKey, SecretKey};
use iroh_relay::{
    KeyCache,
    http::ProtocolVersion,
    protos::{
        common::FrameType,
        relay::{ClientToRelayMsg, Datagrams, RelayToClientMsg, Status},
    },
    verif::c10 as hk,
};
use noq_proto::EcnCodepoint;
use serde::{Deserialize, Serialize};
use std::num::NonZeroU16;
use std::time::Duration;
use vh_engine::*;

const MAX_PACKET_SIZE: usize = 64 * 1024; // statement-level constant ("the wire format's" packet limit), not imported

#[derive(Serialize, Deserialize, Clone, Debug, PartialEq)]
enum Msg {
    Datagrams { key: usize, ecn: u8, ss: Option<u16>, len: usize },
    EndpointGone { key: usize },
    Ping(u8),
    Pong(u8),
    /// `unknown` selects `Status::Unknown(code)`; otherwise code 0,1,2 are the named variants
    Status { unknown: bool, code: u8 },
    Restarting { reconnect_ms: u64, try_ms: u64, extra_nanos: u32 },
    /// `width` = UTF-8 width of the repeated character (1..=4); `len` in bytes, multiple of width
    Health { len: usize, width: u8 },
}

#[derive(Serialize, Deserialize, Clone, Copy, Debug, PartialEq)]
enum Dir {
    RelayToClient,
    ClientToRelay,
}

#[derive(Serialize, Deserialize, Clone, Debug)]
enum Case {
    Msg { dir: Dir, msg: Msg },
    Tag { tag: u64, width: u8, cut: usize },
    Decode { hex: String },
    Sink { dir: Dir, msg: Msg, v1: bool },
}

fn keys() -> Vec<PublicKey> {
    (1u8..=3).map(|i| SecretKey::from_bytes(&[i.wrapping_mul(41); 32]).public()).collect()
}
fn payload(len: usize) -> Vec<u8> {
    (0..len).map(|i| (i as u8).wrapping_mul(31).wrapping_add(7)).collect()
}
fn eight(fill: u8) -> [u8; 8] {
    let mut d = [fill; 8];
    if fill == 1 {
        d = [1, 2, 3, 4, 5, 6, 7, 8];
    }
    d
}
fn health_text(len: usize, width: u8) -> String {
    let c = match width {
        1 => 'h',
        2 => 'é',
        3 => '€',
        _ => '😀',
    };
    std::iter::repeat(c).take(len / c.len_utf8()).collect()
}
fn ecn_of(bits: u8) -> Option<EcnCodepoint> {
    EcnCodepoint::from_bits(bits)
}
fn datagrams(ecn: u8, ss: Option<u16>, len: usize) -> Datagrams {
    Datagrams { ecn: ecn_of(ecn), segment_size: ss.and_then(NonZeroU16::new), contents: Bytes::from(payload(len)) }
}
fn status_of(unknown: bool, code: u8) -> Status {
    if unknown {
        Status::Unknown(code)
    } else {
        match code {
            0 => Status::Healthy,
            1 => Status::SameEndpointIdConnected,
            _ => Status::RateLimited,
        }
    }
}

fn build_r2c(m: &Msg) -> Option<RelayToClientMsg> {
    let k = keys();
    Some(match m {
        Msg::Datagrams { key, ecn, ss, len } => RelayToClientMsg::Datagrams { remote_endpoint_id: k[*key], datagrams: datagrams(*ecn, *ss, *len) },
        Msg::EndpointGone { key } => RelayToClientMsg::EndpointGone(k[*key]),
        Msg::Ping(f) => RelayToClientMsg::Ping(eight(*f)),
        Msg::Pong(f) => RelayToClientMsg::Pong(eight(*f)),
        Msg::Status { unknown, code } => RelayToClientMsg::Status(status_of(*unknown, *code)),
        Msg::Restarting { reconnect_ms, try_ms, extra_nanos } => RelayToClientMsg::Restarting {
            reconnect_in: Duration::from_millis(*reconnect_ms) + Duration::from_nanos(*extra_nanos as u64),
            try_for: Duration::from_millis(*try_ms),
        },
        Msg::Health { len, width } => RelayToClientMsg::Health { problem: health_text(*len, *width) },
    })
}
fn build_c2r(m: &Msg) -> Option<ClientToRelayMsg> {
    let k = keys();
    match m {
        Msg::Datagrams { key, ecn, ss, len } => Some(ClientToRelayMsg::Datagrams { dst_endpoint_id: k[*key], datagrams: datagrams(*ecn, *ss, *len) }),
        Msg::Ping(f) => Some(ClientToRelayMsg::Ping(eight(*f))),
        Msg::Pong(f) => Some(ClientToRelayMsg::Pong(eight(*f))),
        _ => None,
    }
}

// ---------------- reference wire format (written from the FrameType documentation) ----------------
// tag (QUIC varint) then: 4/5 client->relay datagram / batch, 6/7 relay->client datagram / batch:
// 32B key + ECN byte + [u16 BE segment size, batch only] + contents; 8: 32B key; 9/10: 8 bytes; 11: UTF-8 text (v1 only);
// 12: two BE u32 milliseconds; 13: one status byte (v2 only).
fn ref_encode(dir: Dir, m: &Msg) -> Vec<u8> {
    let k = keys();
    let mut out = Vec::new();
    match m {
        Msg::Datagrams { key, ecn, ss, len } => {
            let batch = ss.is_some_and(|s| s != 0);
            let base = if dir == Dir::ClientToRelay { 4 } else { 6 };
            out.push(base + u8::from(batch));
            out.extend_from_slice(k[*key].as_bytes());
            out.push(*ecn);
            if batch {
                out.extend_from_slice(&ss.unwrap().to_be_bytes());
            }
            out.extend_from_slice(&payload(*len));
        }
        Msg::EndpointGone { key } => {
            out.push(8);
            out.extend_from_slice(k[*key].as_bytes());
        }
        Msg::Ping(f) => {
            out.push(9);
            out.extend_from_slice(&eight(*f));
        }
        Msg::Pong(f) => {
            out.push(10);
            out.extend_from_slice(&eight(*f));
        }
        Msg::Health { len, width } => {
            out.push(11);
            out.extend_from_slice(health_text(*len, *width).as_bytes());
        }
        Msg::Restarting { reconnect_ms, try_ms, .. } => {
            out.push(12);
            out.extend_from_slice(&(*reconnect_ms as u32).to_be_bytes());
            out.extend_from_slice(&(*try_ms as u32).to_be_bytes());
        }
        Msg::Status { code, .. } => {
            out.push(13);
            out.push(*code);
        }
    }
    out
}
/// fields within the wire format's ranges?
fn in_range(m: &Msg) -> bool {
    match m {
        Msg::Restarting { reconnect_ms, try_ms, extra_nanos } => *reconnect_ms <= u32::MAX as u64 && *try_ms <= u32::MAX as u64 && *extra_nanos == 0,
        // Unknown(0..=2) is not a value of the format: those bytes *are* the named variants
        Msg::Status { unknown, code } => !(*unknown && *code <= 2),
        _ => true,
    }
}
fn allowed_in(m: &Msg, v: ProtocolVersion) -> bool {
    match m {
        Msg::Health { .. } => v == ProtocolVersion::V1,
        Msg::Status { .. } => v == ProtocolVersion::V2,
        _ => true,
    }
}
/// QUIC varint: 2-bit length prefix; returns (value, width) or None if truncated
fn ref_varint(b: &[u8]) -> Option<(u64, usize)> {
    let first = *b.first()?;
    let w = 1usize << (first >> 6);
    if b.len() < w {
        return None;
    }
    let mut v = (first & 0x3f) as u64;
    for x in &b[1..w] {
        v = (v << 8) | *x as u64;
    }
    Some((v, w))
}
fn enc_varint(v: u64, width: u8) -> Option<Vec<u8>> {
    let (w, prefix, max) = match width {
        1 => (1, 0u8, 1u64 << 6),
        2 => (2, 0x40, 1 << 14),
        4 => (4, 0x80, 1 << 30),
        _ => (8, 0xc0, 1 << 62),
    };
    if v >= max {
        return None;
    }
    let mut b = v.to_be_bytes()[8 - w..].to_vec();
    b[0] |= prefix;
    Some(b)
}
fn tag_name(tag: u64) -> &'static str {
    match tag {
        0..=3 => "handshake",
        4 => "c2r-datagram",
        5 => "c2r-batch",
        6 => "r2c-datagram",
        7 => "r2c-batch",
        8 => "endpoint-gone",
        9 => "ping",
        10 => "pong",
        11 => "health",
        12 => "restarting",
        13 => "status",
        _ => "unknown-tag",
    }
}
fn len_class(total: usize) -> &'static str {
    if total <= MAX_PACKET_SIZE {
        "frame<=64KiB"
    } else if total == MAX_PACKET_SIZE + 1 {
        "frame=64KiB+1"
    } else {
        "frame>64KiB+1"
    }
}

const VERSIONS: [ProtocolVersion; 2] = [ProtocolVersion::V1, ProtocolVersion::V2];

type Verdict = Result<(String, String), String>;

// ---------------- Msg ----------------
fn run_msg(dir: Dir, m: &Msg) -> Verdict {
    let want = ref_encode(dir, m);
    let inr = in_range(m);
    let kind = tag_name(want[0] as u64);
    let class = format!("msg {kind} {} {}", if inr { "in-range" } else { "out-of-range" }, len_class(want.len()));
    // a cache that is disabled, and an enabled one that is hit on the second decode
    let caches = [KeyCache::new(0), KeyCache::new(1), KeyCache::new(1)];
    match dir {
        Dir::RelayToClient => {
            let msg = build_r2c(m).ok_or("not a relay->client message")?;
            let got = hk::r2c_to_bytes(&msg);
            let elen = hk::r2c_encoded_len(&msg);
            if elen != got.len() {
                return Err(format!("encoded_len {elen} != actual {}", got.len()));
            }
            if inr && got[..] != want[..] {
                return Err(format!("encoding differs from the documented wire format (first bytes {} vs {})", hex(&got[..got.len().min(40)]), hex(&want[..want.len().min(40)])));
            }
            let mut outcome = Vec::new();
            for v in VERSIONS {
                let mut res = Vec::new();
                for (i, c) in caches.iter().enumerate() {
                    if i == 2 {
                        // warm this cache with the same frame first (second decode hits the cache)
                        let _ = hk::r2c_from_bytes(got.clone().freeze(), c, v);
                    }
                    res.push(hk::r2c_from_bytes(got.clone().freeze(), c, v));
                }
                for r in &res {
                    let o = check_decoded(m, inr, want.len(), allowed_in(m, v), r.as_ref().map_err(|e| e.to_string()), &msg, v)?;
                    if outcome.last() != Some(&o) {
                        outcome.push(o);
                    }
                }
            }
            Ok((class, outcome.join(" / ")))
        }
        Dir::ClientToRelay => {
            let msg = build_c2r(m).ok_or("not a client->relay message")?;
            let got = hk::c2r_to_bytes(&msg);
            let elen = hk::c2r_encoded_len(&msg);
            if elen != got.len() {
                return Err(format!("encoded_len {elen} != actual {}", got.len()));
            }
            if inr && got[..] != want[..] {
                return Err("encoding differs from the documented wire format".into());
            }
            let mut outcome = Vec::new();
            for (i, c) in caches.iter().enumerate() {
                if i == 2 {
                    let _ = hk::c2r_from_bytes(got.clone().freeze(), c);
                }
                let r = hk::c2r_from_bytes(got.clone().freeze(), c);
                let o = check_decoded(m, inr, want.len(), true, r.as_ref().map_err(|e| e.to_string()), &msg, ProtocolVersion::V2)?;
                if outcome.last() != Some(&o) {
                    outcome.push(o);
                }
            }
            Ok((class, outcome.join(" / ")))
        }
    }
}

/// The statement's demand on decode(encode(m)) for one version.
fn check_decoded<M: PartialEq + std::fmt::Debug>(m: &Msg, inr: bool, total: usize, allowed: bool, r: Result<&M, String>, orig: &M, v: ProtocolVersion) -> Result<String, String> {
    if !allowed {
        return match r {
            Err(_) => Ok(format!("{v:?}:rejected(version)")),
            Ok(d) => Err(format!("frame not valid in {v:?} was accepted as {}", short(d))),
        };
    }
    match r {
        Ok(d) if d == orig => Ok(format!("{v:?}:roundtrip")),
        Ok(d) => {
            if inr {
                Err(format!("{v:?}: decodes to a different message: {} -> {}", short(orig), short(d)))
            } else {
                // out-of-range field values: only totality is demanded; the canonical value comes back
                let _ = m;
                Ok(format!("{v:?}:canonicalised"))
            }
        }
        Err(e) => {
            // A frame no sender may emit (longer than MAX_PACKET_SIZE) may be refused; anything a sender's size check
            // admits must decode.
            if total <= MAX_PACKET_SIZE {
                Err(format!("{v:?}: in-range message of {total} bytes rejected: {e}"))
            } else {
                Ok(format!("{v:?}:rejected(oversize)"))
            }
        }
    }
}
fn short<T: std::fmt::Debug>(t: &T) -> String {
    let s = format!("{t:?}");
    s.chars().take(160).collect()
}

// ---------------- Tag ----------------
fn run_tag(tag: u64, width: u8, cut: usize) -> Verdict {
    let enc = enc_varint(tag, width).ok_or("tag does not fit width")?;
    let minimal = [1u8, 2, 4, 8].into_iter().find(|w| enc_varint(tag, *w).is_some()).unwrap() == width;
    let mut bytes = enc.clone();
    bytes.extend_from_slice(&[0xAA, 0xBB, 0xCC]);
    let keep = bytes.len() - cut.min(bytes.len());
    bytes.truncate(keep);
    let truncated = keep < enc.len();
    let mut buf = Bytes::from(bytes.clone());
    let r = hk::frame_type_from_bytes(&mut buf);
    let known = tag <= 13;
    let class = format!("tag {} width{} {}", if known { "known" } else { "unknown" }, width, if truncated { "truncated" } else if minimal { "minimal" } else { "non-minimal" });
    if truncated {
        return match r {
            Err(_) => Ok((class, "rejected".into())),
            Ok(ft) => Err(format!("truncated varint {} decoded as {ft:?}", hex(&bytes))),
        };
    }
    match r {
        Ok(ft) => {
            if !known {
                return Err(format!("unknown tag {tag} decoded as {ft:?}"));
            }
            if u32::from(ft) as u64 != tag {
                return Err(format!("tag {tag} decoded as {ft:?}"));
            }
            if bytes.len() - buf.len() != enc.len() {
                return Err(format!("decoder consumed {} bytes of a {}-byte varint", bytes.len() - buf.len(), enc.len()));
            }
            // encoder side: minimal form, predicted length
            let w = hk::frame_type_write(ft);
            let min_enc = enc_varint(tag, 1).unwrap();
            if w != min_enc || hk::frame_type_encoded_len(ft) != w.len() {
                return Err(format!("frame type {ft:?} written as {} (encoded_len {})", hex(&w), hk::frame_type_encoded_len(ft)));
            }
            Ok((class, "decoded".into()))
        }
        Err(_) => {
            if known && minimal {
                return Err(format!("known tag {tag} in minimal form rejected"));
            }
            // a non-minimal varint of a known tag may be refused (the statement does not say)
            Ok((class, "rejected".into()))
        }
    }
}

// ---------------- Decode ----------------
fn run_decode(bytes: &[u8]) -> Verdict {
    let tag = ref_varint(bytes);
    let (tname, plen) = match tag {
        None => ("no-tag", 0),
        Some((t, w)) => (tag_name(t), bytes.len() - w),
    };
    let class = format!(
        "bytes {tname} payload:{}",
        match plen {
            0 => "0",
            1..=7 => "1-7",
            8 => "8",
            9..=31 => "9-31",
            32 => "32",
            33..=35 => "33-35",
            _ => ">35",
        }
    );
    let cache = KeyCache::new(0);
    let b = Bytes::copy_from_slice(bytes);
    let mut outcome = Vec::new();
    for v in VERSIONS {
        let r = quiet_catch(|| hk::r2c_from_bytes(b.clone(), &cache, v)).map_err(|p| format!("relay->client decoder ({v:?}) panicked on {}: {p}", hex(bytes)))?;
        match r {
            Ok(m) => {
                if let Some((t, _)) = tag {
                    if (t == 11 && v != ProtocolVersion::V1) || (t == 13 && v == ProtocolVersion::V1) {
                        return Err(format!("frame with tag {t} accepted in {v:?}: {}", short(&m)));
                    }
                }
                // accepted values are fixed points of encode/decode, with a correct predicted length
                let re = hk::r2c_to_bytes(&m);
                if hk::r2c_encoded_len(&m) != re.len() {
                    return Err(format!("encoded_len of decoded {} is wrong", short(&m)));
                }
                match hk::r2c_from_bytes(re.freeze(), &cache, v) {
                    Ok(m2) if m2 == m => {}
                    other => return Err(format!("decoded message {} does not survive re-encoding: {}", short(&m), short(&other))),
                }
                outcome.push(format!("{v:?}:accepted"));
            }
            Err(_) => outcome.push(format!("{v:?}:rejected")),
        }
    }
    let r = quiet_catch(|| hk::c2r_from_bytes(b.clone(), &cache)).map_err(|p| format!("client->relay decoder panicked on {}: {p}", hex(bytes)))?;
    match r {
        Ok(m) => {
            let re = hk::c2r_to_bytes(&m);
            if hk::c2r_encoded_len(&m) != re.len() {
                return Err(format!("encoded_len of decoded {} is wrong", short(&m)));
            }
            match hk::c2r_from_bytes(re.freeze(), &cache) {
                Ok(m2) if m2 == m => {}
                other => return Err(format!("decoded message {} does not survive re-encoding: {}", short(&m), short(&other))),
            }
            outcome.push("c2r:accepted".into());
        }
        Err(_) => outcome.push("c2r:rejected".into()),
    }
    Ok((class, outcome.join(" ")))
}

// ---------------- Sink ----------------
fn run_sink(dir: Dir, m: &Msg, v1: bool) -> Verdict {
    let version = if v1 { ProtocolVersion::V1 } else { ProtocolVersion::V2 };
    let want = ref_encode(dir, m);
    let kind = tag_name(want[0] as u64);
    let empty = matches!(m, Msg::Datagrams { len: 0, .. });
    let class = format!("sink {dir:?} {kind} {}{}", len_class(want.len()), if empty { " empty" } else { "" });
    let rt = tokio::runtime::Builder::new_current_thread().enable_all().start_paused(true).build().map_err(|e| e.to_string())?;
    rt.block_on(async move {
        let mut pair = hk::Pair::new(version, 4 << 20);
        let wait = Duration::from_secs(5); // virtual: fires only when nothing is runnable
        match dir {
            Dir::ClientToRelay => {
                let msg = build_c2r(m).ok_or("not a client->relay message")?;
                match pair.client_send(msg.clone()).await {
                    Err(e) => Ok((class, format!("sender refused: {}", short_err(&e.to_string())))),
                    Ok(()) => match tokio::time::timeout(wait, pair.server_recv()).await {
                        Ok(Some(Ok(got))) if got == msg => Ok((class, "sent and received".into())),
                        Ok(Some(Ok(got))) => Err(format!("receiver decoded a different message: {} -> {}", short(&msg), short(&got))),
                        Ok(Some(Err(e))) => Err(format!("client sink accepted a {}-byte frame ({}) that the server's receiving stream rejects: {e}", want.len(), short(&msg))),
                        Ok(None) => Err("server stream ended instead of yielding the accepted message".into()),
                        Err(_) => Err("server stream yielded nothing for an accepted message".into()),
                    },
                }
            }
            Dir::RelayToClient => {
                let msg = build_r2c(m).ok_or("not a relay->client message")?;
                let allowed = allowed_in(m, version);
                match pair.server_send(msg.clone()).await {
                    Err(e) => Ok((class, format!("sender refused: {}", short_err(&e.to_string())))),
                    Ok(()) => match tokio::time::timeout(wait, pair.client_recv()).await {
                        Ok(Some(Ok(got))) if !allowed => Err(format!("client on {version:?} accepted {}", short(&got))),
                        Ok(Some(Err(_))) if !allowed => Ok((class, format!("{version:?}: sent, receiver rejected (version)"))),
                        Ok(Some(Ok(got))) if got == msg || !in_range(m) => Ok((class, "sent and received".into())),
                        Ok(Some(Ok(got))) => Err(format!("receiver decoded a different message: {} -> {}", short(&msg), short(&got))),
                        Ok(Some(Err(e))) => Err(format!("server sink accepted a {}-byte frame ({}) that the client's receiving stream rejects: {e}", want.len(), short(&msg))),
                        Ok(None) => Err("client stream ended instead of yielding the accepted message".into()),
                        Err(_) => Err("client stream yielded nothing for an accepted message".into()),
                    },
                }
            }
        }
    })
}
fn short_err(s: &str) -> String {
    // keep the error kind, drop the numbers
    s.chars().filter(|c| !c.is_ascii_digit()).take(40).collect()
}

fn run_case(ctx: &Ctx, case: &Case) {
    let r = quiet_catch(|| match case {
        Case::Msg { dir, msg } => run_msg(*dir, msg),
        Case::Tag { tag, width, cut } => run_tag(*tag, *width, *cut),
        Case::Decode { hex } => run_decode(&unhex(hex)),
        Case::Sink { dir, msg, v1 } => run_sink(*dir, msg, *v1),
    });
    match r {
        Ok(Ok((class, outcome))) => {
            if !class.starts_with("bytes") {
                *OUTCOMES.lock().unwrap().entry(format!("{class} => {outcome}")).or_insert(0) += 1;
            }
            ctx.eval(&class, &outcome)
        }
        Ok(Err(msg)) => ctx.discrepancy(None, &msg, case),
        Err(p) => ctx.discrepancy(None, &format!("panic: {p}"), case),
    }
}
/// every (class, outcome) pair of the message / tag / sink families with its count (the engine's histogram keeps the top 40 only)
static OUTCOMES: std::sync::Mutex<std::collections::BTreeMap<String, u64>> = std::sync::Mutex::new(std::collections::BTreeMap::new());

// ---------------- enumeration ----------------
fn datagram_lens(ctx: &Ctx) -> Vec<usize> {
    // limits: MAX_PACKET_SIZE (65536) minus header sizes 34 (tag+key+ecn) and 36 (+segment size), and the same
    // without the tag byte (33 / 35); 65535 / 65536 themselves
    let mut v: Vec<usize> = vec![0, 1, 2, 3, 1199, 1200, 1201];
    let (lo, hi) = ctx.pick((65494, 65540), (65440, 65600));
    v.extend(lo..=hi);
    if ctx.thorough() {
        v.extend(4..=64);
        v.extend([131071, 131072, (1 << 20) - 36, 1 << 20]);
    }
    v
}

fn msgs(ctx: &Ctx) -> Vec<Msg> {
    let mut out = Vec::new();
    let nkeys = ctx.pick(1, 3);
    for len in datagram_lens(ctx) {
        for ecn in 0..4u8 {
            let mut sizes = vec![None, Some(0), Some(1), Some(1200), Some(65535)];
            if let Ok(l) = u16::try_from(len) {
                sizes.push(Some(l));
                sizes.push(Some(l.saturating_add(1)));
            }
            sizes.dedup();
            for ss in sizes {
                for key in 0..nkeys {
                    out.push(Msg::Datagrams { key, ecn, ss, len });
                }
            }
        }
    }
    for key in 0..3 {
        out.push(Msg::EndpointGone { key });
    }
    for f in [0u8, 1, 0x2a, 0xff] {
        out.push(Msg::Ping(f));
        out.push(Msg::Pong(f));
    }
    for code in 0..=255u8 {
        out.push(Msg::Status { unknown: true, code });
        if code <= 2 {
            out.push(Msg::Status { unknown: false, code });
        }
    }
    let ms = [0u64, 1, 999, 1000, 65535, 65536, u32::MAX as u64 - 1, u32::MAX as u64, u32::MAX as u64 + 1, 1 << 40, u64::MAX / 1_000_000];
    for &a in &ms {
        for &b in &ms {
            out.push(Msg::Restarting { reconnect_ms: a, try_ms: b, extra_nanos: 0 });
        }
        out.push(Msg::Restarting { reconnect_ms: a, try_ms: 5, extra_nanos: 999_999 });
    }
    let (lo, hi) = ctx.pick((65524usize, 65544usize), (65472, 65600));
    for width in 1..=4u8 {
        for len in (0..=8).chain(lo..=hi) {
            if len % width as usize == 0 {
                out.push(Msg::Health { len, width });
            }
        }
    }
    out
}

fn corpus() -> Vec<Vec<u8>> {
    let mut c = Vec::new();
    for dir in [Dir::ClientToRelay, Dir::RelayToClient] {
        for (ecn, ss, len) in [(0u8, None, 0usize), (1, None, 1), (2, None, 12), (3, Some(4u16), 12), (0, Some(5), 12), (2, Some(12), 3), (1, Some(1), 2), (3, Some(65535), 0)] {
            c.push(ref_encode(dir, &Msg::Datagrams { key: (len % 3), ecn, ss, len }));
        }
    }
    c.push(ref_encode(Dir::RelayToClient, &Msg::EndpointGone { key: 0 }));
    c.push(ref_encode(Dir::RelayToClient, &Msg::EndpointGone { key: 2 }));
    for f in [1u8, 0xff] {
        c.push(ref_encode(Dir::RelayToClient, &Msg::Ping(f)));
        c.push(ref_encode(Dir::RelayToClient, &Msg::Pong(f)));
    }
    for (len, width) in [(0usize, 1u8), (5, 1), (6, 2), (6, 3), (8, 4)] {
        c.push(ref_encode(Dir::RelayToClient, &Msg::Health { len, width }));
    }
    c.push(ref_encode(Dir::RelayToClient, &Msg::Restarting { reconnect_ms: 0, try_ms: 0, extra_nanos: 0 }));
    c.push(ref_encode(Dir::RelayToClient, &Msg::Restarting { reconnect_ms: 0x01020304, try_ms: u32::MAX as u64, extra_nanos: 0 }));
    for code in [0u8, 1, 2, 3, 0xff] {
        c.push(ref_encode(Dir::RelayToClient, &Msg::Status { unknown: code > 2, code }));
    }
    // handshake-only tags with plausible bodies
    for t in 0u8..=3 {
        let mut b = vec![t];
        b.extend_from_slice(&[7u8; 16]);
        c.push(b);
    }
    // non-minimal (2-byte) frame-type varint in front of otherwise valid bodies
    for base in [
        ref_encode(Dir::RelayToClient, &Msg::Ping(1)),
        ref_encode(Dir::ClientToRelay, &Msg::Datagrams { key: 0, ecn: 0, ss: None, len: 4 }),
        ref_encode(Dir::RelayToClient, &Msg::Status { unknown: false, code: 1 }),
    ] {
        let mut b = vec![0x40, base[0]];
        b.extend_from_slice(&base[1..]);
        c.push(b);
    }
    c
}

fn gen_cases(ctx: &Ctx) -> Vec<Case> {
    let mut cases = Vec::new();
    // ---- messages ----
    let all = msgs(ctx);
    for m in &all {
        cases.push(Case::Msg { dir: Dir::RelayToClient, msg: m.clone() });
        if build_c2r(m).is_some() {
            cases.push(Case::Msg { dir: Dir::ClientToRelay, msg: m.clone() });
        }
    }
    ctx.bound("messages", cases.len());
    // ---- frame-type varints ----
    let mut tags: Vec<u64> = (0..=63).collect();
    tags.extend([64, 255, 256, 16383, 16384, (1 << 30) - 1, 1 << 30, u32::MAX as u64, 1 << 32, (1 << 32) + 4, (1 << 62) - 1]);
    let n0 = cases.len();
    for &tag in &tags {
        for width in [1u8, 2, 4, 8] {
            if enc_varint(tag, width).is_some() {
                for cut in 0..=(width as usize + 3) {
                    cases.push(Case::Tag { tag, width, cut });
                }
            }
        }
    }
    ctx.bound("frame_type_cases", cases.len() - n0);
    // ---- arbitrary bytes ----
    let n0 = cases.len();
    cases.push(Case::Decode { hex: String::new() });
    for a in 0..=255u8 {
        cases.push(Case::Decode { hex: hex(&[a]) });
        for b in 0..=255u8 {
            cases.push(Case::Decode { hex: hex(&[a, b]) });
        }
    }
    let corpus = corpus();
    ctx.bound("corpus_frames", corpus.len());
    let vals: Vec<u8> = if ctx.thorough() {
        (0..=255).collect()
    } else {
        vec![0, 1, 2, 3, 4, 5, 6, 7, 8, 9, 10, 11, 12, 13, 14, 0x3f, 0x40, 0x4b, 0x7f, 0x80, 0xbf, 0xc0, 0xc2, 0xe2, 0xf0, 0xfe, 0xff]
    };
    for f in &corpus {
        cases.push(Case::Decode { hex: hex(f) });
        for pos in 0..f.len() {
            cases.push(Case::Decode { hex: hex(&f[..pos]) }); // every truncation
            for &v in &vals {
                if f[pos] != v {
                    let mut g = f.clone();
                    g[pos] = v;
                    cases.push(Case::Decode { hex: hex(&g) });
                }
            }
            // single-bit flips as well
            for bit in 0..8 {
                let mut g = f.clone();
                g[pos] ^= 1 << bit;
                cases.push(Case::Decode { hex: hex(&g) });
            }
        }
        // one byte appended
        for v in [0u8, 0xff] {
            let mut g = f.clone();
            g.push(v);
            cases.push(Case::Decode { hex: hex(&g) });
        }
    }
    ctx.bound("decode_cases", cases.len() - n0);
    // ---- real sinks ----
    let n0 = cases.len();
    let (lo, hi) = ctx.pick((65496usize, 65506usize), (65480, 65540));
    let mut sink_msgs: Vec<Msg> = Vec::new();
    for len in [0usize, 1, 2, 1200].into_iter().chain(lo..=hi).chain([65535, 65536, 65537, 131072]) {
        for (ecn, ss) in [(0u8, None), (3, Some(1u16)), (2, Some(1200)), (1, Some(65535))] {
            sink_msgs.push(Msg::Datagrams { key: 0, ecn, ss, len });
        }
    }
    sink_msgs.push(Msg::Ping(1));
    sink_msgs.push(Msg::Pong(0xff));
    sink_msgs.push(Msg::EndpointGone { key: 1 });
    for (unknown, code) in [(false, 0u8), (false, 1), (false, 2), (true, 3), (true, 255)] {
        sink_msgs.push(Msg::Status { unknown, code });
    }
    sink_msgs.push(Msg::Restarting { reconnect_ms: 10, try_ms: u32::MAX as u64, extra_nanos: 0 });
    for len in [0usize, 1, 65533, 65534, 65535, 65536, 65537] {
        sink_msgs.push(Msg::Health { len, width: 1 });
    }
    for m in &sink_msgs {
        for v1 in [false, true] {
            cases.push(Case::Sink { dir: Dir::RelayToClient, msg: m.clone(), v1 });
        }
        if build_c2r(m).is_some() {
            cases.push(Case::Sink { dir: Dir::ClientToRelay, msg: m.clone(), v1: false });
        }
    }
    ctx.bound("sink_cases", cases.len() - n0);
    cases
}

fn main() {
    let ctx = Ctx::from_args("C10", Level::Exploration);
    ctx.set_rule("union of four exhaustive products: (1) every message type x payload lengths {0..3,1199..1201} u a contiguous window around every length limit (MAX_PACKET_SIZE minus 33/34/35/36 header bytes, 65535, 65536) x 4 ECN x segment sizes {None,0,1,1200,len,len+1,65535} x both directions, all 256 status bytes, restart durations at/around u32 ms, health texts of 1..4-byte characters around the limit, each under both protocol versions and with key cache off/cold/warm; (2) frame-type varints: tags 0..=63 + large ones x widths 1/2/4/8 x every truncation; (3) all byte strings of length <= 2 and every truncation, single-byte substitution (27 values quick / 256 thorough), bit flip and 1-byte extension of a corpus of encoded frames, through all three decoders; (4) boundary messages through the real client Conn sink / server RelayedStream sink over an in-memory websocket pair; distinct = (kind, range class, length class) x outcome");
    ctx.assume("wire format reference written from the FrameType documentation; a frame longer than MAX_PACKET_SIZE (which no sink admits) may be refused by a decoder");
    ctx.assume("Status::Unknown(0..=2), restart durations beyond u32 milliseconds or with sub-millisecond parts are outside the wire format's ranges (only totality and encoded_len are demanded for them)");
    ctx.assume("a non-minimal frame-type varint may be accepted or refused (not stated)");
    ctx.min_outcomes(40);
    if let Some(c) = ctx.replay_case::<Case>() {
        run_case(&ctx, &c);
        ctx.finish();
    }
    let cases = gen_cases(&ctx);
    let mut kinds = std::collections::BTreeSet::new();
    for c in &cases {
        let kind = match c {
            Case::Msg { dir, msg } => format!("msg-{dir:?}-{}", tag_name(ref_encode(*dir, msg)[0] as u64)),
            Case::Tag { width, .. } => format!("tag-w{width}"),
            Case::Decode { hex } => format!("decode-len{}", (hex.len() / 2).min(3)),
            Case::Sink { dir, .. } => format!("sink-{dir:?}"),
        };
        if kinds.insert(kind.clone()) {
            ctx.sample(&kind, c);
        }
    }
    par_for_each(&cases, |c| run_case(&ctx, c));
    ctx.extra("message_tag_sink_outcomes", &*OUTCOMES.lock().unwrap());
    ctx.finish();
}
