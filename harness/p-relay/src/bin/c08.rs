//! C08 A revoked relay connection does not stay connected — E2 with a gate between admission and
//! registration in the real accept path. Every order of {gate release, disconnect request(s)} is
//! executed; once both have happened (and the relay is quiescent) the revoked connection must not be
//! served any more, and a bystander endpoint must be unaffected.
use bytes::Bytes;
use serde::{Deserialize, Serialize};
use vh_engine::*;
use vh_p_relay::acceptnet::*;

const GATE: &str = "relay.accept.after_admission";

#[derive(Clone, Copy, Serialize, Deserialize, Debug, PartialEq, Eq, Hash)]
enum Ev {
    /// let the admitted connection proceed to registration
    Release,
    /// run the relay to quiescence
    Settle,
    /// Clients::disconnect(id, Some(connection id reported at admission))
    DiscConn,
    /// Clients::disconnect(id, None)
    DiscId,
}

#[derive(Clone, Serialize, Deserialize, Debug)]
struct Case {
    bystander: bool,
    /// an older connection of the SAME endpoint is already registered when the gated one is admitted
    #[serde(default)]
    dup: bool,
    /// every disconnect request is issued (from its own OS thread) while another OS thread holds the registry's write
    /// lock for the endpoint's shard -- what a concurrent register/unregister of any endpoint in that shard holds; the
    /// lock is released once the request has returned or has been blocked for a while (seeded change C08-seed81:
    /// a non-blocking lookup that reads "locked" as "not registered")
    #[serde(default)]
    contended: bool,
    events: Vec<Ev>,
}

/// `Clients::disconnect` under contention: forced schedule lock-held -> request issued -> lock released.
fn contended_disconnect(clients: &iroh_relay::server::clients::Clients, id: iroh_base::EndpointId, conn: Option<iroh_relay::server::ConnectionId>) -> bool {
    use std::sync::atomic::{AtomicBool, Ordering::SeqCst};
    use std::sync::{Arc, mpsc};
    let (tx_locked, rx_locked) = mpsc::channel::<()>();
    let (tx_release, rx_release) = mpsc::channel::<()>();
    let c1 = clients.clone();
    let holder = std::thread::spawn(move || {
        c1.verif_with_entry_locked(id, || {
            tx_locked.send(()).unwrap();
            let _ = rx_release.recv();
        })
    });
    rx_locked.recv().unwrap();
    let started = Arc::new(AtomicBool::new(false));
    let (c2, st) = (clients.clone(), started.clone());
    let req = std::thread::spawn(move || {
        st.store(true, SeqCst);
        c2.disconnect(id, conn)
    });
    let t0 = std::time::Instant::now();
    while !started.load(SeqCst) && t0.elapsed() < std::time::Duration::from_secs(5) {
        std::thread::sleep(std::time::Duration::from_millis(1));
    }
    let t1 = std::time::Instant::now();
    while !req.is_finished() && t1.elapsed() < std::time::Duration::from_millis(25) {
        std::thread::sleep(std::time::Duration::from_millis(1));
    }
    tx_release.send(()).unwrap();
    holder.join().unwrap();
    req.join().unwrap()
}

struct Out {
    outcome: String,
    problem: Option<(Option<&'static str>, String)>,
}

fn run_case(case: &Case) -> Out {
    let rt = runtime();
    seams::reset_local();
    let r = rt.block_on(async {
        let policy = Policy::new(vec![Decision::Allow], false);
        let service = new_service(policy.clone());
        // bystander endpoint (key 1) connects undisturbed first
        let mut by_ws = None;
        if case.bystander {
            let l = start_link(&service, 1, false, Header::None, Cut::None);
            settle().await;
            let (r, w) = l.client.await.unwrap();
            if r.is_err() || w.is_none() {
                machinery_error(&format!("bystander could not connect: {r:?}"));
            }
            by_ws = Some((w.unwrap(), l.pump, l.accept));
        }
        // optional older connection of the revoked endpoint itself (registered, undisturbed)
        let mut old_ws = None;
        if case.dup {
            let l = start_link(&service, 0, false, Header::None, Cut::None);
            settle().await;
            let (r, w) = l.client.await.unwrap();
            if r.is_err() || w.is_none() {
                machinery_error(&format!("older duplicate could not connect: {r:?}"));
            }
            old_ws = Some((DrainedClient::new(w.unwrap()), l.pump, l.accept));
        }
        let admitted_before = policy.log.lock().unwrap().len();
        seams::arm(GATE);
        let link = start_link(&service, 0, false, Header::None, Cut::None);
        settle().await;
        if seams::waiting(GATE) != 1 {
            machinery_error("accept did not park at the admission gate");
        }
        let (id, conn) = policy
            .log
            .lock()
            .unwrap()
            .iter()
            .skip(admitted_before)
            .find_map(|e| if let vh_p_relay::acceptnet::Ev::Connect { id, conn, allowed: true } = e { if *id == secret(0).public() { Some((*id, *conn)) } else { None } } else { None })
            .unwrap_or_else(|| machinery_error("no admission logged"));
        let mut released = false;
        let mut all_requests_before_registration = true;
        let mut request_results = Vec::new();
        let mut by_id_requests = 0;
        let mut registered_quiescent = false;
        for ev in &case.events {
            match ev {
                Ev::Release => {
                    seams::release(GATE);
                    released = true;
                }
                Ev::Settle => {
                    settle().await;
                    if released {
                        registered_quiescent = true;
                    }
                }
                Ev::DiscConn | Ev::DiscId => {
                    let sel = if *ev == Ev::DiscConn { Some(conn) } else { None };
                    let found = if case.contended { contended_disconnect(service.clients(), id, sel) } else { service.clients().disconnect(id, sel) };
                    request_results.push(found);
                    if *ev == Ev::DiscId {
                        by_id_requests += 1;
                    }
                    if registered_quiescent {
                        all_requests_before_registration = false;
                    }
                }
            }
        }
        if !released {
            seams::release(GATE);
        }
        settle().await;
        settle().await;
        // ---- is the revoked connection still served? ----
        let mut served = Vec::new();
        let accept_ok = link.accept.is_finished() && matches!(link.accept.await, Ok(Ok(())));
        let (cres, ws) = link.client.await.unwrap();
        let mut ws = ws;
        if cres.is_ok() {
            if let Some(w) = ws.as_mut() {
                // ping -> pong
                let mut f = vec![9u8];
                f.extend_from_slice(&[0x77; 8]);
                let sent = w.send_frame(Bytes::from(f)).await.is_ok();
                settle().await;
                if sent {
                    // poll for a frame without blocking forever
                    match tokio::time::timeout(std::time::Duration::from_millis(5), w.recv_frame()).await {
                        Ok(Some(Ok(b))) if b.first() == Some(&10) => served.push("ping-answered"),
                        Ok(Some(Ok(_))) => served.push("other-frame"),
                        _ => {}
                    }
                }
            }
        }
        // still registered? (a further disconnect request finds it)
        if service.clients().disconnect(id, Some(conn)) {
            served.push("still-registered");
            settle().await;
        }
        let disconnect_seen = policy.log.lock().unwrap().iter().any(|e| matches!(e, vh_p_relay::acceptnet::Ev::Disconnect { conn: c, .. } if *c == conn));
        // ---- bystander unaffected ----
        let mut bystander_problem = None;
        if let Some((w, _p, _a)) = by_ws.as_mut() {
            let mut f = vec![9u8];
            f.extend_from_slice(&[0x55; 8]);
            let ok = w.send_frame(Bytes::from(f)).await.is_ok();
            settle().await;
            let pong = matches!(tokio::time::timeout(std::time::Duration::from_millis(5), w.recv_frame()).await, Ok(Some(Ok(b))) if b.first() == Some(&10));
            if !ok || !pong {
                bystander_problem = Some("bystander endpoint is no longer served after the revocation".to_string());
            }
            if policy.log.lock().unwrap().iter().any(|e| matches!(e, vh_p_relay::acceptnet::Ev::Disconnect { id: i, .. } if *i == secret(1).public())) {
                bystander_problem = Some("bystander endpoint was disconnected".to_string());
            }
        }
        // ---- the older connection of the same endpoint: revoked with the endpoint, untouched by a per-connection request ----
        let mut old_problem = None;
        if let Some((w, _p, _a)) = old_ws.as_mut() {
            let mut f = vec![9u8];
            f.extend_from_slice(&[0x33; 8]);
            w.send(Bytes::from(f));
            settle().await;
            settle().await;
            let pong = w.got(10, &[0x33; 8]);
            if by_id_requests > 0 && pong {
                old_problem = Some(format!("the endpoint was revoked by id ({by_id_requests} request(s)) but its older connection is still served"));
            }
            if by_id_requests == 0 && !pong {
                old_problem = Some("only the new connection was revoked (by connection id) but the endpoint's older connection is no longer served".to_string());
            }
        }
        let any_request = !request_results.is_empty();
        let outcome = format!(
            "accept_ok={accept_ok} requests={request_results:?} served={served:?} disconnect_notified={disconnect_seen}"
        );
        let mut problem = None;
        if let Some(p) = bystander_problem {
            problem = Some((None, p));
        } else if let Some(p) = old_problem {
            problem = Some((None, format!("{p} ({outcome}) after events {:?}", case.events)));
        } else if any_request && (served.iter().any(|s| *s == "ping-answered" || *s == "still-registered")) {
            // named deviation: a request made while the connection is admitted but not yet registered finds
            // nothing (returns false) and is forgotten; the connection registers afterwards and is served
            let key = if all_requests_before_registration && (case.dup || request_results.iter().all(|r| !*r)) { Some("revocation-before-registration-is-lost") } else { None };
            problem = Some((key, format!("revoked connection is still served ({outcome}) after events {:?}", case.events)));
        } else if any_request && !disconnect_seen {
            problem = Some((None, format!("revoked connection not served but its disconnect was never reported ({outcome})")));
        }
        drop(ws);
        drop(by_ws);
        drop(old_ws);
        settle().await;
        Out { outcome, problem }
    });
    seams::clear_local();
    r
}

fn main() {
    vh_hooks::install();
    let ctx = Ctx::from_args("C08", Level::ModelChecking);
    ctx.set_rule("every sequence of {release admission gate, settle (run relay to quiescence), disconnect by connection id, disconnect by endpoint id} with exactly one release, <=2 requests and <=2 settles, with and without a bystander endpoint, with and without an older connection of the same endpoint, and with every request issued either directly or (forced schedule) while another OS thread holds the registry shard's write lock; after the sequence the gate is released if it was not, the relay is settled and the revoked connection is probed (ping/pong, still registered?, disconnect reported?); distinct = (event order class, outcome)");
    ctx.assume("gate = cfg-guarded pause_async point between authorize_with and Clients::register in Inner::accept; single-thread paused-clock runtime");
    ctx.min_outcomes(4);
    if let Some(c) = ctx.replay_case::<Case>() {
        let o = run_case(&c);
        println!("replay: {}", o.outcome);
        if let Some((k, p)) = o.problem {
            ctx.discrepancy(k, &p, &c);
        }
        ctx.finish();
    }
    let max_len = ctx.pick(4, 5);
    let alphabet = [Ev::Release, Ev::Settle, Ev::DiscConn, Ev::DiscId];
    let mut cases = Vec::new();
    for seq in sequences_up_to(&alphabet, max_len) {
        let rel = seq.iter().filter(|e| **e == Ev::Release).count();
        let req = seq.iter().filter(|e| matches!(e, Ev::DiscConn | Ev::DiscId)).count();
        let set = seq.iter().filter(|e| **e == Ev::Settle).count();
        if rel > 1 || req == 0 || req > 2 || set > 2 {
            continue;
        }
        for bystander in [false, true] {
            for dup in [false, true] {
                for contended in [false, true] {
                    cases.push(Case { bystander, dup, contended, events: seq.clone() });
                }
            }
        }
    }
    ctx.bound("max_sequence_length", max_len);
    ctx.sample("first", &cases[0]);
    ctx.sample("last", cases.last().unwrap());
    par_for_each(&cases, |case| {
        let r = quiet_catch(|| run_case(case));
        ctx.add_states(1);
        ctx.add_transitions(case.events.len() as u64 + 1);
        ctx.add_traces(1);
        match r {
            Err(p) => ctx.discrepancy(None, &format!("panic: {p}"), case),
            Ok(o) => {
                let first_req = case.events.iter().position(|e| matches!(e, Ev::DiscConn | Ev::DiscId)).unwrap();
                let rel = case.events.iter().position(|e| *e == Ev::Release);
                let class = match rel {
                    None => "request-before-release",
                    Some(r) if first_req < r => "request-before-release",
                    Some(r) if case.events[r..first_req].contains(&Ev::Settle) => "request-after-registration",
                    Some(_) => "request-races-registration",
                };
                match o.problem {
                    Some((k, p)) => ctx.discrepancy(k, &p, case),
                    None => ctx.eval(class, &o.outcome),
                }
            }
        }
    });
    ctx.finish();
}
