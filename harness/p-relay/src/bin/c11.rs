//! C11 Relay protocol version negotiation picks the best common version.
//!
//! * Server, in memory (E0): every offered `Sec-WebSocket-Protocol` header of the alphabet is sent as a
//!   raw HTTP/1.1 upgrade request over a tokio duplex into the public `RelayServiceWithNotify`
//!   (hyper http1 `serve_connection`), the status line and the echoed header are the observation.
//! * Server, end to end (E5-lite, loopback, real time): for a reduced header set a raw WebSocket client
//!   completes the relay handshake against `RelayService::handle_connection`; the version the server
//!   *uses* is observed through `AccessControl::on_connect` and through the version-specific frame the
//!   server sends when the same endpoint connects a second time (Health in v1, Status in v2).
//! * Client (E5-lite): the real `ClientBuilder::connect` dials a harness relay on loopback that answers
//!   the upgrade with each answer of the menu, finishes the handshake and sends one v1-only (Health) or
//!   one v2-only (Status) frame; observation = connect result and what the client decodes.
use bytes::Bytes;
use futures_util::{SinkExt, StreamExt};
use iroh_base::SecretKey;
use iroh_relay::{
    KeyCache,
    client::ClientBuilder,
    http::ProtocolVersion,
    protos::relay::RelayToClientMsg,
    server::{
        Access, AccessControl, ClientRequest, Metrics,
        http_server::{Handlers, RelayService, RelayServiceWithNotify},
    },
};
use serde::{Deserialize, Serialize};
use std::sync::{Arc, Mutex};
use std::time::Duration;
use tokio::io::{AsyncReadExt, AsyncWriteExt};
use vh_engine::*;

const V1: &str = "iroh-relay-v1";
const V2: &str = "iroh-relay-v2";
const WS_KEY: &str = "dGhlIHNhbXBsZSBub25jZQ==";
const WAIT: Duration = Duration::from_secs(30);

#[derive(Serialize, Deserialize, Clone, Copy, Debug, PartialEq, Eq, PartialOrd, Ord)]
enum Ver {
    V1,
    V2,
}
impl Ver {
    fn name(self) -> &'static str {
        if self == Ver::V1 { V1 } else { V2 }
    }
}

#[derive(Serialize, Deserialize, Clone, Copy, Debug, PartialEq, Eq)]
enum Probe {
    Health,
    Status,
}

#[derive(Serialize, Deserialize, Clone, Debug)]
enum Case {
    /// header lines (each one `Sec-WebSocket-Protocol: <value>`; values as hex of the raw bytes)
    Server { lines: Vec<String> },
    /// same, against the full server over loopback, relay handshake completed
    ServerFull { lines: Vec<String> },
    /// the harness relay answers the real client's upgrade with this header value (None: no header)
    Client { answer: Option<String>, probe: Probe },
}

// ---------------- reference model ----------------
#[derive(Clone, Copy, Debug, PartialEq, Eq, PartialOrd, Ord)]
enum Out {
    Reject,
    Use(Ver),
}
/// Set of outcomes the statement allows for the offered header lines.
fn ref_server(lines: &[Vec<u8>]) -> (Vec<Out>, &'static str) {
    let mut strict: Option<Ver> = None;
    let mut relaxed: Option<Ver> = None;
    let mut non_ascii = false;
    // RFC 6455: several header lines are the same as one line with all values
    for l in lines {
        if l.iter().any(|b| !b.is_ascii()) {
            non_ascii = true;
        }
        for tok in l.split(|&b| b == b',') {
            let mut t = tok;
            while let [b' ' | b'\t', rest @ ..] = t {
                t = rest;
            }
            while let [rest @ .., b' ' | b'\t'] = t {
                t = rest;
            }
            for v in [Ver::V1, Ver::V2] {
                if t == v.name().as_bytes() {
                    strict = strict.max(Some(v));
                }
                if t.eq_ignore_ascii_case(v.name().as_bytes()) {
                    relaxed = relaxed.max(Some(v));
                }
            }
        }
    }
    let to = |o: Option<Ver>| o.map(Out::Use).unwrap_or(Out::Reject);
    let mut allowed = vec![to(strict)];
    let mut class = if strict.is_some() { "offers a supported version" } else { "offers no supported version" };
    if relaxed != strict {
        // sub-protocol names differing only in case: the statement does not say whether they match
        allowed.push(to(relaxed));
        class = "supported only up to letter case (statement-neutral)";
    }
    if non_ascii {
        // header values outside ASCII: refusing the request as malformed is acceptable
        allowed.push(Out::Reject);
        class = "non-ASCII header value (statement-neutral)";
    }
    if lines.is_empty() {
        class = "header absent";
    } else if lines.len() > 1 && class == "offers a supported version" {
        class = "offers a supported version over several header lines";
    }
    allowed.sort();
    allowed.dedup();
    (allowed, class)
}

// ---------------- Part S1: in-memory server ----------------
fn relay_service(access: Arc<dyn iroh_relay::server::DynAccessControl>) -> RelayService {
    RelayService::new(Handlers::default(), http::HeaderMap::new(), None, KeyCache::new(64), access, Arc::new(Metrics::default()))
}

fn request_bytes(lines: &[Vec<u8>]) -> Vec<u8> {
    let mut req = format!("GET /relay HTTP/1.1\r\nHost: relay.test\r\nConnection: Upgrade\r\nUpgrade: websocket\r\nSec-WebSocket-Version: 13\r\nSec-WebSocket-Key: {WS_KEY}\r\n").into_bytes();
    for l in lines {
        req.extend_from_slice(b"Sec-WebSocket-Protocol: ");
        req.extend_from_slice(l);
        req.extend_from_slice(b"\r\n");
    }
    req.extend_from_slice(b"\r\n");
    req
}

/// (status, values of all Sec-WebSocket-Protocol response headers)
fn parse_response(head: &[u8]) -> Result<(u16, Vec<String>), String> {
    let text = String::from_utf8_lossy(head);
    let mut it = text.split("\r\n");
    let status_line = it.next().ok_or("empty response")?;
    let status: u16 = status_line.split(' ').nth(1).and_then(|s| s.parse().ok()).ok_or_else(|| format!("bad status line {status_line:?}"))?;
    let mut protos = Vec::new();
    for l in it {
        if let Some((k, v)) = l.split_once(':') {
            if k.eq_ignore_ascii_case("sec-websocket-protocol") {
                protos.push(v.trim().to_string());
            }
        }
    }
    Ok((status, protos))
}

async fn read_head<R: tokio::io::AsyncRead + Unpin>(r: &mut R) -> Result<Vec<u8>, String> {
    let mut buf = Vec::new();
    let mut b = [0u8; 1];
    loop {
        match tokio::time::timeout(WAIT, r.read(&mut b)).await {
            Err(_) => return Err("timeout waiting for the HTTP response head".into()),
            Ok(Err(e)) => return Err(format!("read error: {e}")),
            Ok(Ok(0)) => return Err(format!("connection closed after {} bytes of response", buf.len())),
            Ok(Ok(_)) => {
                buf.push(b[0]);
                if buf.ends_with(b"\r\n\r\n") {
                    return Ok(buf);
                }
            }
        }
    }
}

fn observe_out(status: u16, protos: &[String]) -> Result<Out, String> {
    match status {
        101 => match protos {
            [p] if p == V1 => Ok(Out::Use(Ver::V1)),
            [p] if p == V2 => Ok(Out::Use(Ver::V2)),
            other => Err(format!("101 with Sec-WebSocket-Protocol values {other:?} (exactly one supported version expected)")),
        },
        400 => Ok(Out::Reject),
        s => Err(format!("unexpected status {s}")),
    }
}

fn run_server_mem(ctx: &Ctx, case: &Case, lines: &[Vec<u8>]) {
    let (allowed, class) = ref_server(lines);
    let res = quiet_catch(|| {
        let rt = tokio::runtime::Builder::new_current_thread().enable_all().start_paused(true).build().unwrap();
        rt.block_on(async {
            let svc = RelayServiceWithNotify::new(relay_service(Arc::new(iroh_relay::server::AllowAll)), Arc::new(tokio::sync::Notify::new()));
            let (mut client, server) = tokio::io::duplex(16 * 1024);
            let conn = tokio::spawn(async move {
                let _ = hyper::server::conn::http1::Builder::new().serve_connection(hyper_util::rt::TokioIo::new(server), svc).with_upgrades().await;
            });
            client.write_all(&request_bytes(lines)).await.map_err(|e| e.to_string())?;
            let head = read_head(&mut client).await?;
            drop(client);
            conn.abort();
            parse_response(&head)
        })
    });
    match res {
        Err(p) => ctx.discrepancy(None, &format!("panic: {p}"), case),
        Ok(Err(e)) => ctx.discrepancy(None, &format!("no HTTP response: {e}"), case),
        Ok(Ok((status, protos))) => match observe_out(status, &protos) {
            Err(e) => ctx.discrepancy(None, &e, case),
            Ok(out) => {
                if !allowed.contains(&out) {
                    let key = multi_line_deviation(lines, out);
                    ctx.discrepancy(key, &format!("offered {:?}: server answered {out:?}, the statement allows {allowed:?}", lines.iter().map(|l| String::from_utf8_lossy(l).to_string()).collect::<Vec<_>>()), case);
                    if key.is_none() {
                        return;
                    }
                }
                ctx.eval(&format!("server:{class}"), &format!("{out:?}"));
            }
        },
    }
}

/// Named deviation "only the first Sec-WebSocket-Protocol header line is considered": the observed
/// outcome equals the reference outcome computed from the first line alone.
fn multi_line_deviation(lines: &[Vec<u8>], out: Out) -> Option<&'static str> {
    if lines.len() > 1 && ref_server(&lines[..1]).0.contains(&out) {
        Some("subprotocol-only-first-header-line")
    } else {
        None
    }
}

// ---------------- websocket plumbing for the loopback parts ----------------
fn sha1(data: &[u8]) -> [u8; 20] {
    let mut h: [u32; 5] = [0x67452301, 0xEFCDAB89, 0x98BADCFE, 0x10325476, 0xC3D2E1F0];
    let mut msg = data.to_vec();
    let bitlen = (data.len() as u64) * 8;
    msg.push(0x80);
    while msg.len() % 64 != 56 {
        msg.push(0);
    }
    msg.extend_from_slice(&bitlen.to_be_bytes());
    for chunk in msg.chunks(64) {
        let mut w = [0u32; 80];
        for i in 0..16 {
            w[i] = u32::from_be_bytes(chunk[4 * i..4 * i + 4].try_into().unwrap());
        }
        for i in 16..80 {
            w[i] = (w[i - 3] ^ w[i - 8] ^ w[i - 14] ^ w[i - 16]).rotate_left(1);
        }
        let (mut a, mut b, mut c, mut d, mut e) = (h[0], h[1], h[2], h[3], h[4]);
        for (i, wi) in w.iter().enumerate() {
            let (f, k) = match i {
                0..=19 => ((b & c) | (!b & d), 0x5A827999u32),
                20..=39 => (b ^ c ^ d, 0x6ED9EBA1),
                40..=59 => ((b & c) | (b & d) | (c & d), 0x8F1BBCDC),
                _ => (b ^ c ^ d, 0xCA62C1D6),
            };
            let t = a.rotate_left(5).wrapping_add(f).wrapping_add(e).wrapping_add(k).wrapping_add(*wi);
            e = d;
            d = c;
            c = b.rotate_left(30);
            b = a;
            a = t;
        }
        h[0] = h[0].wrapping_add(a);
        h[1] = h[1].wrapping_add(b);
        h[2] = h[2].wrapping_add(c);
        h[3] = h[3].wrapping_add(d);
        h[4] = h[4].wrapping_add(e);
    }
    let mut out = [0u8; 20];
    for i in 0..5 {
        out[4 * i..4 * i + 4].copy_from_slice(&h[i].to_be_bytes());
    }
    out
}
fn accept_key(key: &str) -> String {
    data_encoding::BASE64.encode(&sha1(format!("{key}258EAFA5-E914-47DA-95CA-C5AB0DC85B11").as_bytes()))
}

type Ws = tokio_websockets::WebSocketStream<tokio::net::TcpStream>;
async fn ws_recv(ws: &mut Ws) -> Result<Bytes, String> {
    loop {
        match tokio::time::timeout(WAIT, ws.next()).await {
            Err(_) => return Err("timeout waiting for a websocket message".into()),
            Ok(None) => return Err("websocket closed".into()),
            Ok(Some(Err(e))) => return Err(format!("websocket error: {e}")),
            Ok(Some(Ok(m))) => {
                if m.is_binary() {
                    return Ok(Bytes::from(m.into_payload()));
                }
                if m.is_close() {
                    return Err("websocket close frame".into());
                }
            }
        }
    }
}
async fn ws_send(ws: &mut Ws, data: Vec<u8>) -> Result<(), String> {
    ws.send(tokio_websockets::Message::binary(Bytes::from(data))).await.map_err(|e| format!("websocket send: {e}"))
}

/// Raw relay client: HTTP upgrade with the given protocol header lines, then the challenge handshake.
async fn raw_client(addr: std::net::SocketAddr, lines: &[Vec<u8>], key: &SecretKey) -> Result<Result<(Ws, Out), Out>, String> {
    let mut tcp = tokio::net::TcpStream::connect(addr).await.map_err(|e| e.to_string())?;
    tcp.write_all(&request_bytes(lines)).await.map_err(|e| e.to_string())?;
    let head = read_head(&mut tcp).await?;
    let (status, protos) = parse_response(&head)?;
    let out = observe_out(status, &protos)?;
    if out == Out::Reject {
        return Ok(Err(out));
    }
    let mut ws = tokio_websockets::ClientBuilder::new().take_over(tcp);
    // relay handshake, challenge path (no TLS => no keying material)
    let ch = ws_recv(&mut ws).await?;
    if ch.len() != 17 || ch[0] != 0 {
        return Err(format!("expected a ServerChallenge frame, got {} bytes tag {:?}", ch.len(), ch.first()));
    }
    let msg = blake3::derive_key("iroh-relay handshake v1 challenge signature", &ch[1..]);
    let mut auth = vec![1u8];
    auth.extend_from_slice(key.public().as_bytes());
    auth.push(64);
    auth.extend_from_slice(&key.sign(&msg).to_bytes());
    ws_send(&mut ws, auth).await?;
    let conf = ws_recv(&mut ws).await?;
    if conf.as_ref() != [2u8] {
        return Err(format!("expected ServerConfirmsAuth, got {conf:?}"));
    }
    Ok(Ok((ws, out)))
}

#[derive(Debug, Default)]
struct Recorder(Mutex<Vec<ProtocolVersion>>);
impl AccessControl for Recorder {
    async fn on_connect(&self, request: &ClientRequest) -> Access {
        self.0.lock().unwrap().push(request.protocol_version());
        Access::Allow
    }
}

fn run_server_full(ctx: &Ctx, case: &Case, lines: &[Vec<u8>]) {
    let (allowed, class) = ref_server(lines);
    let res = quiet_catch(|| {
        let rt = tokio::runtime::Builder::new_current_thread().enable_all().build().unwrap();
        rt.block_on(async {
            let rec = Arc::new(Recorder::default());
            let service = relay_service(rec.clone());
            let listener = tokio::net::TcpListener::bind("127.0.0.1:0").await.map_err(|e| e.to_string())?;
            let addr = listener.local_addr().unwrap();
            let svc = service.clone();
            let acceptor = tokio::spawn(async move {
                while let Ok((stream, _)) = listener.accept().await {
                    tokio::spawn(svc.clone().handle_connection(stream, None, Duration::from_secs(60)));
                }
            });
            let key = SecretKey::from_bytes(&[7u8; 32]);
            let first = raw_client(addr, lines, &key).await?;
            let r = match first {
                Err(out) => Ok((out, None, None)),
                Ok((mut ws1, out)) => {
                    let used = rec.0.lock().unwrap().first().copied();
                    // the same endpoint connects again: the first connection is told so in its own protocol version
                    let second = raw_client(addr, &[V2.as_bytes().to_vec()], &key).await?;
                    if second.is_err() {
                        return Err("second connection (offering v2) was refused".to_string());
                    }
                    let frame = ws_recv(&mut ws1).await?;
                    Ok((out, used, Some(frame)))
                }
            };
            acceptor.abort();
            service.shutdown().await;
            r
        })
    });
    match res {
        Err(p) => ctx.discrepancy(None, &format!("panic: {p}"), case),
        Ok(Err(e)) => ctx.discrepancy(None, &format!("machinery/transport: {e}"), case),
        Ok(Ok((out, used, frame))) => {
            if !allowed.contains(&out) {
                let key = multi_line_deviation(lines, out);
                ctx.discrepancy(key, &format!("full server answered {out:?}, the statement allows {allowed:?}"), case);
                if key.is_none() {
                    return;
                }
            }
            if let Out::Use(v) = out {
                let want = if v == Ver::V1 { ProtocolVersion::V1 } else { ProtocolVersion::V2 };
                if used != Some(want) {
                    return ctx.discrepancy(None, &format!("server answered {v:?} but runs the connection as {used:?}"), case);
                }
                let f = frame.unwrap_or_default();
                // v1 speaks Health (tag 11, text), v2 speaks Status (tag 13, one byte; 1 = same endpoint connected)
                let speaks = match f.first() {
                    Some(11) => Some(Ver::V1),
                    Some(13) if f.len() == 2 && f[1] == 1 => Some(Ver::V2),
                    _ => None,
                };
                if speaks != Some(v) {
                    return ctx.discrepancy(None, &format!("negotiated {v:?} but the server's next frame is {:?}", f), case);
                }
                ctx.eval(&format!("server-full:{class}"), &format!("{out:?}, on_connect sees it, server speaks it"));
            } else {
                ctx.eval(&format!("server-full:{class}"), "Reject");
            }
        }
    }
}

// ---------------- Part C: real client against a harness relay ----------------
#[derive(Debug, Clone)]
struct NoDns;
impl iroh_dns::dns::Resolver for NoDns {
    fn lookup_ipv4(&self, _h: String) -> n0_future::boxed::BoxFuture<Result<iroh_dns::dns::BoxIter<std::net::Ipv4Addr>, iroh_dns::dns::DnsError>> {
        Box::pin(async { Ok(Box::new(std::iter::empty()) as iroh_dns::dns::BoxIter<_>) })
    }
    fn lookup_ipv6(&self, _h: String) -> n0_future::boxed::BoxFuture<Result<iroh_dns::dns::BoxIter<std::net::Ipv6Addr>, iroh_dns::dns::DnsError>> {
        Box::pin(async { Ok(Box::new(std::iter::empty()) as iroh_dns::dns::BoxIter<_>) })
    }
    fn lookup_txt(&self, _h: String) -> n0_future::boxed::BoxFuture<Result<iroh_dns::dns::BoxIter<iroh_dns::dns::TxtRecordData>, iroh_dns::dns::DnsError>> {
        Box::pin(async { Ok(Box::new(std::iter::empty()) as iroh_dns::dns::BoxIter<_>) })
    }
    fn clear_cache(&self) {}
    fn reset(&self) -> Box<dyn iroh_dns::dns::Resolver> {
        Box::new(NoDns)
    }
}

/// One connection of the harness relay: answer the upgrade, run the handshake, send the probe frame.
async fn fake_relay(mut tcp: tokio::net::TcpStream, answer: Option<String>, probe: Probe) -> Result<String, String> {
    let head = read_head(&mut tcp).await?;
    let text = String::from_utf8_lossy(&head).to_string();
    let hdr = |name: &str| text.split("\r\n").find_map(|l| l.split_once(':').filter(|(k, _)| k.eq_ignore_ascii_case(name)).map(|(_, v)| v.trim().to_string()));
    let key = hdr("sec-websocket-key").ok_or("client sent no Sec-WebSocket-Key")?;
    let offered = hdr("sec-websocket-protocol").unwrap_or_default();
    let mut resp = format!("HTTP/1.1 101 Switching Protocols\r\nUpgrade: websocket\r\nConnection: upgrade\r\nSec-WebSocket-Accept: {}\r\n", accept_key(&key));
    if let Some(a) = &answer {
        resp.push_str(&format!("Sec-WebSocket-Protocol: {a}\r\n"));
    }
    resp.push_str("\r\n");
    tcp.write_all(resp.as_bytes()).await.map_err(|e| e.to_string())?;
    let mut ws = tokio_websockets::ServerBuilder::new().serve(tcp);
    // relay handshake, server side: challenge, any ClientAuth is confirmed
    let mut challenge = vec![0u8];
    challenge.extend_from_slice(&[0xC3; 16]);
    ws_send(&mut ws, challenge).await?;
    let auth = ws_recv(&mut ws).await?;
    if auth.first() != Some(&1) {
        return Err("client did not answer the challenge with ClientAuth".into());
    }
    ws_send(&mut ws, vec![2]).await?;
    match probe {
        Probe::Health => ws_send(&mut ws, [&[11u8][..], b"sick"].concat()).await?,
        Probe::Status => ws_send(&mut ws, vec![13, 1]).await?,
    }
    // keep the connection open until the client has read the probe
    let _ = tokio::time::timeout(Duration::from_secs(5), ws.next()).await;
    Ok(offered)
}

fn run_client(ctx: &Ctx, case: &Case, answer: &Option<String>, probe: Probe) {
    // reference: accepted iff the answer is exactly one supported version name
    let strict = match answer.as_deref().map(str::trim) {
        Some(a) if a == V1 => Some(Ver::V1),
        Some(a) if a == V2 => Some(Ver::V2),
        _ => None,
    };
    // statement-neutral answers: names a supported version but not exactly one name
    let neutral = strict.is_none() && answer.as_deref().is_some_and(|a| a.to_ascii_lowercase().contains("iroh-relay-v1") || a.to_ascii_lowercase().contains("iroh-relay-v2"));
    let res = quiet_catch(|| {
        let rt = tokio::runtime::Builder::new_current_thread().enable_all().build().unwrap();
        rt.block_on(async {
            let listener = tokio::net::TcpListener::bind("127.0.0.1:0").await.map_err(|e| e.to_string())?;
            let addr = listener.local_addr().unwrap();
            let ans = answer.clone();
            let server = tokio::spawn(async move {
                let (tcp, _) = listener.accept().await.map_err(|e| e.to_string())?;
                fake_relay(tcp, ans, probe).await
            });
            let url: url::Url = format!("http://{addr}").parse().unwrap();
            let builder = ClientBuilder::new(iroh_base::RelayUrl::from(url), SecretKey::from_bytes(&[9u8; 32]), iroh_dns::dns::DnsResolver::custom(NoDns)).tls_client_config(iroh_relay::tls::make_dangerous_client_config());
            let conn = tokio::time::timeout(WAIT, builder.connect()).await.map_err(|_| "client connect timed out".to_string())?;
            let decoded = match conn {
                Err(e) => Err(format!("{e:#}")),
                Ok(mut client) => {
                    let item = tokio::time::timeout(WAIT, client.next()).await.map_err(|_| "client saw no frame".to_string())?;
                    Ok(match item {
                        Some(Ok(RelayToClientMsg::Health { .. })) => "health",
                        Some(Ok(RelayToClientMsg::Status(_))) => "status",
                        Some(Ok(_)) => "other",
                        Some(Err(_)) => "error",
                        None => "closed",
                    })
                }
            };
            let offered = match tokio::time::timeout(Duration::from_secs(10), server).await {
                Ok(Ok(Ok(o))) => o,
                _ => String::new(),
            };
            Ok::<_, String>((decoded, offered))
        })
    });
    match res {
        Err(p) => ctx.discrepancy(None, &format!("panic: {p}"), case),
        Ok(Err(e)) => ctx.discrepancy(None, &format!("machinery/transport: {e}"), case),
        Ok(Ok((decoded, offered))) => {
            // the client must offer what it supports (both versions, newest first is not required)
            let toks: Vec<&str> = offered.split(',').map(str::trim).collect();
            if !(toks.contains(&V1) && toks.contains(&V2)) && decoded.is_ok() {
                return ctx.discrepancy(None, &format!("client offered {offered:?}, expected both supported versions"), case);
            }
            let class = match (strict, neutral) {
                (Some(Ver::V1), _) => "answer v1",
                (Some(Ver::V2), _) => "answer v2",
                (None, true) => "answer names a supported version inexactly (statement-neutral)",
                (None, false) => "answer names no supported version",
            };
            match (&decoded, strict) {
                (Err(_), None) => ctx.eval(&format!("client:{class}"), "refused"),
                (Err(e), Some(v)) => ctx.discrepancy(None, &format!("relay answered {v:?}, client refused: {e}"), case),
                (Ok(d), None) if neutral => ctx.eval(&format!("client:{class}"), &format!("accepted, probe {probe:?} -> {d}")),
                (Ok(_), None) => ctx.discrepancy(None, &format!("client accepted the answer {answer:?} which names no version it supports"), case),
                (Ok(d), Some(v)) => {
                    let want = match (v, probe) {
                        (Ver::V1, Probe::Health) => "health",
                        (Ver::V2, Probe::Status) => "status",
                        _ => "error",
                    };
                    if *d != want {
                        return ctx.discrepancy(None, &format!("negotiated {v:?}; {probe:?} frame decoded as {d}, expected {want}"), case);
                    }
                    ctx.eval(&format!("client:{class}"), &format!("accepted, probe {probe:?} -> {d}"));
                }
            }
        }
    }
}

fn unhex_lines(lines: &[String]) -> Vec<Vec<u8>> {
    lines.iter().map(|l| unhex(l)).collect()
}

fn run_case(ctx: &Ctx, case: &Case) {
    match case {
        Case::Server { lines } => run_server_mem(ctx, case, &unhex_lines(lines)),
        Case::ServerFull { lines } => run_server_full(ctx, case, &unhex_lines(lines)),
        Case::Client { answer, probe } => run_client(ctx, case, answer, *probe),
    }
}

fn main() {
    let ctx = Ctx::from_args("C11", Level::Exploration);
    ctx.set_rule("server: every Sec-WebSocket-Protocol header made of <=3 tokens from the token menu (v1, v2, v3, empty, space/tab padded v2 and v1, upper-case v2, v1 with a suffix) joined by ',' or ', ', the header absent, non-ASCII values, and every split of 2-token offers over two header lines; a reduced set again end-to-end over loopback with the relay handshake completed; client: every answer of the answer menu x {v1-only, v2-only probe frame}. Cases are distinct when the raw header bytes (or answer, probe) differ.");
    ctx.assume("HTTP/1.1 parsing by hyper is trusted; RFC 6455: several Sec-WebSocket-Protocol lines are equivalent to one comma-joined line");
    ctx.min_outcomes(9);
    if let Some(c) = ctx.replay_case::<Case>() {
        run_case(&ctx, &c);
        ctx.finish();
    }
    let v3 = "iroh-relay-v3";
    // near-miss tokens that merely *contain* a supported name (prefix, suffix, longer version number) are in
    // both tiers: a substring-matching negotiation (seeded change C11-seed13) is only visible through them
    let mut tokens: Vec<String> = vec![V1.into(), V2.into(), v3.into(), "".into(), format!(" {V2} "), "IROH-RELAY-V2".into(), "iroh-relay-v10".into(), "iroh-relay-v20".into(), "x-iroh-relay-v2".into()];
    if ctx.thorough() {
        tokens.extend([format!("\t{V1}\t"), format!("{V1}x"), "iroh-relay-v".into(), "Iroh-Relay-V1".into()]);
    }
    let mut headers: Vec<Vec<u8>> = Vec::new();
    for seq in sequences_up_to(&tokens, 3) {
        if seq.is_empty() {
            continue;
        }
        let nsep = seq.len() - 1;
        for mask in 0..(1u32 << nsep) {
            let mut h = String::new();
            for (i, t) in seq.iter().enumerate() {
                if i > 0 {
                    h.push_str(if mask >> (i - 1) & 1 == 1 { ", " } else { "," });
                }
                h.push_str(t);
            }
            headers.push(h.into_bytes());
        }
    }
    headers.sort();
    headers.dedup();
    let mut cases: Vec<Case> = Vec::new();
    cases.push(Case::Server { lines: vec![] });
    for h in &headers {
        cases.push(Case::Server { lines: vec![hex(h)] });
    }
    for h in [&b"iroh-relay-v2, \xe9"[..], b"\xe9", b"iroh-relay-v1\xa0", b"\xc3\xa9,iroh-relay-v1"] {
        cases.push(Case::Server { lines: vec![hex(h)] });
    }
    // the same offer spread over two header lines
    for a in &tokens {
        for b in &tokens {
            cases.push(Case::Server { lines: vec![hex(a.as_bytes()), hex(b.as_bytes())] });
        }
    }
    let n_mem = cases.len();
    ctx.bound("server_in_memory_headers", n_mem);
    for h in [V1, V2, "iroh-relay-v1,iroh-relay-v2", "iroh-relay-v2, iroh-relay-v1", "iroh-relay-v3, iroh-relay-v1", " iroh-relay-v1 ", "iroh-relay-v3", "", "iroh-relay-v1,iroh-relay-v1", ",iroh-relay-v2,"] {
        cases.push(Case::ServerFull { lines: vec![hex(h.as_bytes())] });
    }
    cases.push(Case::ServerFull { lines: vec![hex(V1.as_bytes()), hex(V2.as_bytes())] });
    cases.push(Case::ServerFull { lines: vec![] });
    ctx.bound("server_end_to_end_headers", cases.len() - n_mem);
    let answers: Vec<Option<String>> = vec![
        Some(V1.into()),
        Some(V2.into()),
        None,
        Some("".into()),
        Some(v3.into()),
        Some("iroh-relay-v2, iroh-relay-v1".into()),
        Some("IROH-RELAY-V2".into()),
        Some("iroh-relay-v1,".into()),
        Some("relay".into()),
        Some("iroh-relay-v22".into()),
    ];
    ctx.bound("client_answers", answers.len());
    for a in &answers {
        for probe in [Probe::Health, Probe::Status] {
            cases.push(Case::Client { answer: a.clone(), probe });
        }
    }
    for c in cases.iter().step_by((cases.len() / 8).max(1)) {
        ctx.sample(&format!("{c:?}").chars().take(60).collect::<String>(), c);
    }
    par_for_each(&cases, |c| run_case(&ctx, c));
    ctx.finish();
}
