//! C16 Splitting a relay datagram batch partitions it exactly — E0 exhaustive input enumeration of the
//! public `Datagrams::take_segments`.
//!
//! Reference model (from the statement): a batch with segment size `s` holds the datagrams
//! `contents.chunks(s)`; a batch without a segment size holds exactly one datagram (its contents).
//! "Repeatedly taking at most n segments" must hand out these datagrams in order, between 1 and n per
//! take, with unchanged boundaries, until nothing is left.
use bytes::Bytes;
use iroh_relay::protos::relay::Datagrams;
use noq_proto::EcnCodepoint;
use serde::{Deserialize, Serialize};
use std::num::NonZeroU16;
use vh_engine::*;

#[derive(Serialize, Deserialize, Clone, Debug)]
struct Case {
    /// contents length
    len: usize,
    /// segment size (None = single datagram)
    ss: Option<u16>,
    /// `num_segments` argument (usize as u64)
    n: u64,
    /// ECN bits 0..=3 (0 = none)
    ecn: u8,
}

fn ecn_of(b: u8) -> Option<EcnCodepoint> {
    match b {
        1 => Some(EcnCodepoint::Ect1),
        2 => Some(EcnCodepoint::Ect0),
        3 => Some(EcnCodepoint::Ce),
        _ => None,
    }
}

/// The datagrams a batch holds, according to the statement's reading of the three public fields.
fn datagrams_of(d: &Datagrams) -> Vec<Vec<u8>> {
    match d.segment_size {
        None => vec![d.contents.to_vec()],
        Some(s) => d.contents.chunks(u16::from(s) as usize).map(|c| c.to_vec()).collect(),
    }
}

fn run_case(ctx: &Ctx, case: &Case) {
    match quiet_catch(|| run_inner(case)) {
        Ok(Ok((class, outcome))) => ctx.eval(&class, &outcome),
        Ok(Err(msg)) => ctx.discrepancy(None, &msg, case),
        Err(p) => ctx.discrepancy(None, &format!("take_segments panicked: {p}"), case),
    }
}

fn run_inner(case: &Case) -> Result<(String, String), String> {
    let n = usize::try_from(case.n).map_err(|_| "n does not fit usize".to_string())?;
    if n == 0 {
        return Err("case outside the statement (n = 0)".into());
    }
    // all bytes distinct for len <= 255 so that loss / duplication / reordering is visible
    let original: Vec<u8> = (0..case.len).map(|i| (i % 255) as u8 + 1).collect();
    let ecn = ecn_of(case.ecn);
    let ss = match case.ss {
        None => None,
        Some(s) => Some(NonZeroU16::new(s).ok_or("segment size 0 is not representable")?),
    };
    let mut d = Datagrams { ecn, segment_size: ss, contents: Bytes::from(original.clone()) };

    // reference: the datagrams still to be handed out
    let mut rem: Vec<Vec<u8>> = if original.is_empty() { vec![] } else { datagrams_of(&d) };
    let total = rem.len();
    let class = format!(
        "ss:{} n:{}",
        match case.ss {
            None => "none",
            Some(s) if s as usize >= case.len.max(1) => "covers-all",
            Some(s) if case.len % s as usize == 0 => "divides",
            Some(_) => "ragged-tail",
        },
        if n == 1 {
            "1"
        } else if n < total {
            "lt-count"
        } else if n <= 64 {
            "ge-count"
        } else {
            "huge"
        }
    );

    if original.is_empty() {
        // taking from an empty batch: nothing may appear, ECN kept, no segment size (it holds <= 1 datagram)
        let t = d.take_segments(n);
        if !t.contents.is_empty() || !d.contents.is_empty() {
            return Err("bytes appeared when taking from an empty batch".into());
        }
        if t.segment_size.is_some() {
            return Err("taken batch of an empty source carries a segment size".into());
        }
        if t.ecn != ecn {
            return Err(format!("ECN changed: {:?} -> {:?}", ecn, t.ecn));
        }
        return Ok((class, "empty".into()));
    }

    let mut takes = 0usize;
    let mut greedy = true;
    let mut out: Vec<u8> = Vec::new();
    while !d.contents.is_empty() {
        // every take must hand out >= 1 datagram, so `total` takes always suffice
        if takes >= total {
            return Err(format!("source not empty after {takes} takes of a batch of {total} datagrams (no termination)"));
        }
        let before_len = d.contents.len();
        let t = d.take_segments(n);
        takes += 1;
        if t.ecn != ecn {
            return Err(format!("take {takes}: ECN changed: {:?} -> {:?}", ecn, t.ecn));
        }
        if t.contents.is_empty() && d.contents.len() == before_len {
            return Err(format!("take {takes}: zero progress (nothing taken, {before_len} bytes remain): repeated taking never terminates"));
        }
        if t.contents.len() + d.contents.len() != before_len {
            return Err(format!("take {takes}: {} taken + {} left != {before_len} before", t.contents.len(), d.contents.len()));
        }
        let got = datagrams_of(&t);
        let k = got.len();
        if t.segment_size.is_some() && k <= 1 {
            return Err(format!("take {takes}: taken batch carries a segment size but holds {k} datagram(s)"));
        }
        if k > n {
            return Err(format!("take {takes}: taken batch holds {k} datagrams, more than n"));
        }
        if k == 0 || k > rem.len() || got[..] != rem[..k] {
            return Err(format!(
                "take {takes}: taken datagrams (lens {:?}, segment_size {:?}) are not the next datagrams of the batch (lens {:?})",
                got.iter().map(|g| g.len()).collect::<Vec<_>>(),
                t.segment_size,
                rem.iter().take(k.max(1) + 1).map(|g| g.len()).collect::<Vec<_>>()
            ));
        }
        if k != n.min(rem.len()) {
            greedy = false; // allowed by the statement ("at most n"); reported as an outcome class only
        }
        out.extend_from_slice(&t.contents);
        rem.drain(..k);
    }
    if !rem.is_empty() {
        return Err(format!("source empty but {} datagrams were never handed out", rem.len()));
    }
    if out != original {
        return Err("concatenation of the taken batches differs from the original bytes".into());
    }
    let outcome = format!("{}{}", if takes == 1 { "one-take" } else { "multi-take" }, if greedy { "" } else { " (fewer than n while more remained)" });
    Ok((class, outcome))
}

fn gen_cases(ctx: &Ctx) -> Vec<Case> {
    let max_len: usize = ctx.pick(40, 100);
    let mut sizes: Vec<Option<u16>> = vec![None];
    sizes.extend((1..=(max_len as u16 + 5)).map(Some));
    sizes.extend([255u16, 256, 1200, 32768, 65535].map(Some));
    let mut ns: Vec<u64> = (1..=ctx.pick(8, 12)).collect();
    ns.extend([64, 65535, 65536, 1 << 31, 1 << 32, 1 << 48, 1 << 49, 1 << 62, 1 << 63, (1 << 63) + 1, u64::MAX / 2, u64::MAX - 1, u64::MAX]);
    ctx.bound("contents_len", format!("0..={max_len}"));
    ctx.bound("segment_sizes", format!("None, 1..={}, 255, 256, 1200, 32768, 65535", max_len + 5));
    ctx.bound("num_segments", &ns);
    ctx.bound("ecn", "all 4 values");
    let mut cases = Vec::new();
    for len in 0..=max_len {
        for &ss in &sizes {
            for &n in &ns {
                for ecn in 0..4u8 {
                    cases.push(Case { len, ss, n, ecn });
                }
            }
        }
    }
    cases
}

fn main() {
    let ctx = Ctx::from_args("C16", Level::Exploration);
    ctx.set_rule("full product contents length x segment size x num_segments x ECN; every case drives the real Datagrams::take_segments in a `while !contents.is_empty()` loop (iteration cap = number of datagrams) and compares every taken batch with the chunk list of the original; distinct = (segment-size class, n class) x (one/multi take)");
    ctx.assume("a batch with segment_size s holds contents.chunks(s); without one it holds one datagram; the statement's 'at most n' allows fewer than n per take as long as >= 1");
    ctx.assume("n >= 1 (n = 0 is outside the statement)");
    ctx.min_outcomes(10);
    if let Some(c) = ctx.replay_case::<Case>() {
        run_case(&ctx, &c);
        ctx.finish();
    }
    let cases = gen_cases(&ctx);
    for c in cases.iter().step_by((cases.len() / 11).max(1)) {
        ctx.sample(&format!("len{}-ss{:?}-n{}", c.len, c.ss, c.n), c);
    }
    par_for_each(&cases, |c| run_case(&ctx, c));
    ctx.finish();
}
