//! C14 Relay keep-alive pings: only the latest ping counts — E1 explicit-state search over operation histories of the
//! public `PingTracker` under tokio's paused clock.
//!
//! Operations: new_ping · new_ping_with_timeout(300 ms) · pong(latest | newest older | oldest older | forged) ·
//! advance(Δ) · poll `timeout()` once · await `timeout()` (virtual time runs to the next timer; 100 s guard).
//! Reference model (from the statement): only the most recent ping has a deadline; a pong matching it records
//! rtt = now − sent_at and clears it; any other pong changes nothing; `timeout()` completes exactly when the most recent,
//! still unanswered ping is past its deadline; the timeout of the next ping is clamp(3·rtt, 500 ms, max_timeout), or
//! max_timeout while no round trip has been measured.
use futures_util::FutureExt;
use iroh_relay::PingTracker;
use serde::{Deserialize, Serialize};
use std::time::Duration;
use vh_engine::*;

const FLOOR_MS: u64 = 500; // documented lower bound of an RTT-based ping timeout
const CUSTOM_MS: u64 = 300;
const GUARD_MS: u64 = 100_000;

#[derive(Serialize, Deserialize, Clone, Debug, PartialEq, Eq, Hash)]
enum Op {
    NewPing,
    NewPingCustom,
    PongLatest,
    /// 0 = the newest ping that is not the latest, 1 = the oldest one
    PongOlder(u8),
    PongForged,
    AdvanceMs(u64),
    Poll,
    Await,
}

#[derive(Serialize, Deserialize, Clone, Debug)]
struct Case {
    max_timeout_ms: u64,
    ops: Vec<Op>,
}

#[derive(Clone, Debug)]
struct Latest {
    id: usize,
    sent_at: u64,
    deadline: u64,
}
#[derive(Clone, Debug)]
struct Model {
    max: u64,
    now: u64,
    issued: usize,
    latest: Option<Latest>,
    last_rtt: Option<u64>,
}
impl Model {
    fn new(max: u64) -> Self {
        Model { max, now: 0, issued: 0, latest: None, last_rtt: None }
    }
    fn ping_timeout(&self) -> u64 {
        match self.last_rtt {
            None => self.max,
            Some(r) => (3 * r).max(FLOOR_MS).min(self.max),
        }
    }
    fn older(&self, which: u8) -> Option<usize> {
        let ids: Vec<usize> = (0..self.issued).filter(|i| self.latest.as_ref().map(|l| l.id) != Some(*i)).collect();
        match which {
            0 => ids.last().copied(),
            _ => {
                if ids.len() >= 2 {
                    ids.first().copied()
                } else {
                    None
                }
            }
        }
    }
    fn enabled(&self, op: &Op) -> bool {
        match op {
            Op::PongLatest => self.latest.is_some(),
            Op::PongOlder(w) => self.older(*w).is_some(),
            _ => true,
        }
    }
    /// canonical form: everything that can influence the future
    fn key(&self) -> String {
        let latest = self.latest.as_ref().map(|l| ((self.now - l.sent_at).min(self.max.max(CUSTOM_MS)), l.deadline - l.sent_at));
        let olders = (self.issued - usize::from(self.latest.is_some())).min(2);
        format!("{} {:?} {} {}", self.max, latest, self.ping_timeout(), olders)
    }
}

fn menu_all() -> Vec<Op> {
    let mut v = vec![Op::NewPing, Op::NewPingCustom, Op::PongLatest, Op::PongOlder(0), Op::PongOlder(1), Op::PongForged];
    for ms in [100, 500, 1000, 5000, 20000] {
        v.push(Op::AdvanceMs(ms));
    }
    v.push(Op::Poll);
    v.push(Op::Await);
    v
}

/// Simulate the model only (no real code): used for the menu.
fn model_after(max: u64, ops: &[Op]) -> Model {
    let mut m = Model::new(max);
    for op in ops {
        step_model(&mut m, op, None);
    }
    m
}

/// Advance the model by `op`. `poll_fired` resolves the one open choice (poll exactly at the deadline).
/// Returns the expectation for the observation of this op.
enum Expect {
    Nothing,
    /// poll: must fire / must not / either
    Poll(Option<bool>),
    /// await: fires after exactly this many ms / does not fire within the guard
    Await(Option<u64>),
}
fn step_model(m: &mut Model, op: &Op, poll_fired: Option<bool>) -> Expect {
    match op {
        Op::NewPing | Op::NewPingCustom => {
            let t = if *op == Op::NewPing { m.ping_timeout() } else { CUSTOM_MS };
            m.latest = Some(Latest { id: m.issued, sent_at: m.now, deadline: m.now + t });
            m.issued += 1;
            Expect::Nothing
        }
        Op::PongLatest => {
            if let Some(l) = m.latest.take() {
                m.last_rtt = Some(m.now - l.sent_at);
            }
            Expect::Nothing
        }
        Op::PongOlder(_) | Op::PongForged => Expect::Nothing,
        Op::AdvanceMs(ms) => {
            m.now += ms;
            Expect::Nothing
        }
        Op::Poll => {
            let e = match &m.latest {
                None => Some(false),
                Some(l) if m.now > l.deadline => Some(true),
                Some(l) if m.now == l.deadline => None,
                Some(_) => Some(false),
            };
            let fired = e.or(poll_fired).unwrap_or(true);
            if fired {
                m.latest = None;
            }
            Expect::Poll(e)
        }
        Op::Await => match m.latest.take() {
            Some(l) => {
                let wait = l.deadline.saturating_sub(m.now);
                m.now += wait;
                Expect::Await(Some(wait))
            }
            None => {
                m.now += GUARD_MS;
                Expect::Await(None)
            }
        },
    }
}

fn classify(m: &Model, op: &Op) -> String {
    match op {
        Op::NewPing => match m.last_rtt {
            None => "new_ping:no-rtt-yet".into(),
            Some(r) if 3 * r < FLOOR_MS => "new_ping:3rtt-below-floor".into(),
            Some(r) if 3 * r > m.max => "new_ping:3rtt-above-max".into(),
            Some(_) => "new_ping:3rtt-in-bounds".into(),
        },
        Op::NewPingCustom => "new_ping_with_timeout".into(),
        Op::PongLatest => {
            let r = m.latest.as_ref().map(|l| m.now - l.sent_at).unwrap_or(0);
            format!("pong:latest 3rtt-{}", if 3 * r < FLOOR_MS { "below-floor" } else if 3 * r > m.max { "above-max" } else { "in-bounds" })
        }
        Op::PongOlder(_) => format!("pong:older{}", if m.latest.is_some() { "-while-ping-pending" } else { "-no-ping-pending" }),
        Op::PongForged => format!("pong:forged{}", if m.latest.is_some() { "-while-ping-pending" } else { "-no-ping-pending" }),
        Op::AdvanceMs(_) => "advance".into(),
        Op::Poll | Op::Await => format!(
            "{}:{}",
            if *op == Op::Poll { "poll" } else { "await" },
            match &m.latest {
                None => "no-ping-pending",
                Some(l) if m.now > l.deadline => "past-deadline",
                Some(l) if m.now == l.deadline => "at-deadline",
                Some(_) => "before-deadline",
            }
        ),
    }
}


// ---------------- fingerprint of the REAL tracker (used only in the de-duplication key) ----------------
//
// The reference-model key alone is not enough: a stale or forged pong is a no-op in the model, so `h·pong(stale)` has the model
// key of `h` and would never be expanded — an implementation in which such a pong silently changes the tracker (drops the pending
// ping, moves its deadline, ...) would only be observable one or two operations later, in histories that are never run. The key
// therefore also carries the implementation's own state, read from the only view the type offers, its derived `Debug`:
// `PingTracker { inner: Some(PingInner { data: [..8 bytes..], deadline: Instant {..}, sent_at: Instant {..} }), max_timeout: 1s,
// last_rtt: Some(100ms) }`, canonicalised so that correct, model-equal states still coincide: instants relative to now (time left to
// the deadline, "past" once elapsed; time since sending capped like the model's), the random payload replaced by its role (latest /
// stale / unknown), last_rtt capped at the same cap. Never compared with the model; an unexpected `Debug` layout is a machinery error.

fn fp_fail(what: &str, dbg: &str) -> ! {
    machinery_error(&format!("C14 fingerprint: {what} in Debug output `{dbg}`"))
}
/// parses `Instant { tv_sec: S, tv_nsec: N }` at the start of `s`; returns (nanoseconds, bytes consumed)
fn parse_instant(s: &str) -> Option<(i128, usize)> {
    let a = "Instant { tv_sec: ";
    let rest = s.strip_prefix(a)?;
    let e1 = rest.find(", tv_nsec: ")?;
    let sec: i128 = rest[..e1].parse().ok()?;
    let rest2 = &rest[e1 + ", tv_nsec: ".len()..];
    let e2 = rest2.find(" }")?;
    let ns: i128 = rest2[..e2].parse().ok()?;
    Some((sec * 1_000_000_000 + ns, a.len() + e1 + ", tv_nsec: ".len() + e2 + 2))
}
/// parses the `Debug` form of a `Duration` ("300ms", "1s", "1.5s", "0ns") into whole milliseconds
fn parse_duration_ms(s: &str) -> Option<u64> {
    let (num, scale_ns) = if let Some(n) = s.strip_suffix("ns") {
        (n, 1f64)
    } else if let Some(n) = s.strip_suffix("µs") {
        (n, 1e3)
    } else if let Some(n) = s.strip_suffix("ms") {
        (n, 1e6)
    } else if let Some(n) = s.strip_suffix('s') {
        (n, 1e9)
    } else {
        return None;
    };
    let v: f64 = num.parse().ok()?;
    Some((v * scale_ns / 1e6).round() as u64)
}
fn real_fingerprint(real: &PingTracker, data: &[[u8; 8]], m: &Model) -> String {
    let dbg = format!("{real:?}");
    let (now_ns, _) = parse_instant(&format!("{:?}", tokio::time::Instant::now())).unwrap_or_else(|| fp_fail("cannot parse the current Instant", &dbg));
    let cap = m.max.max(CUSTOM_MS) as i128;
    let mut out = String::new();
    let mut rest: &str = &dbg;
    let mut instants = 0;
    loop {
        // next token of interest
        let cands = [("Instant { tv_sec: ", 0u8), ("data: [", 1), ("last_rtt: Some(", 2)];
        let next = cands.iter().filter_map(|(pat, k)| rest.find(pat).map(|i| (i, *k, *pat))).min();
        let Some((i, kind, pat)) = next else {
            out.push_str(rest);
            break;
        };
        match kind {
            0 => {
                out.push_str(&rest[..i]);
                let (ns, used) = parse_instant(&rest[i..]).unwrap_or_else(|| fp_fail("cannot parse an Instant", &dbg));
                let field = if out.ends_with("deadline: ") {
                    let left_ms = (ns - now_ns).div_euclid(1_000_000);
                    if ns < now_ns { "past".to_string() } else { format!("in {left_ms}ms") }
                } else if out.ends_with("sent_at: ") {
                    let ago_ms = (now_ns - ns).div_euclid(1_000_000);
                    format!("{}ms ago", ago_ms.min(cap))
                } else {
                    fp_fail("an Instant in an unknown field", &dbg)
                };
                out.push_str(&field);
                instants += 1;
                rest = &rest[i + used..];
            }
            1 => {
                out.push_str(&rest[..i + pat.len()]);
                let body = &rest[i + pat.len()..];
                let end = body.find(']').unwrap_or_else(|| fp_fail("unterminated payload", &dbg));
                let bytes: Vec<u8> = body[..end].split(", ").map(|b| b.parse().unwrap_or_else(|_| fp_fail("payload byte", &dbg))).collect();
                let role = match data.iter().position(|d| d[..] == bytes[..]) {
                    Some(id) if m.latest.as_ref().map(|l| l.id) == Some(id) => "payload of the model's latest ping",
                    Some(id) if id + 1 == data.len() => "payload of the newest ping (not pending in the model)",
                    Some(_) => "payload of a stale ping",
                    None => "payload never handed out",
                };
                out.push_str(role);
                rest = &body[end..];
            }
            _ => {
                out.push_str(&rest[..i + pat.len()]);
                let body = &rest[i + pat.len()..];
                let end = body.find(')').unwrap_or_else(|| fp_fail("unterminated last_rtt", &dbg));
                let ms = parse_duration_ms(&body[..end]).unwrap_or_else(|| fp_fail("cannot parse last_rtt", &dbg));
                out.push_str(&format!("{}ms", (ms as i128).min(cap)));
                rest = &body[end..];
            }
        }
    }
    let pending = dbg.contains("inner: Some(");
    if instants != if pending { 2 } else { 0 } || !dbg.contains("last_rtt: ") {
        fp_fail("unexpected layout", &dbg);
    }
    out
}

/// Replay a history on a fresh real tracker + model; Err = discrepancy. Ok = (model state, fingerprint of the real tracker).
fn replay(ctx: &Ctx, case: &Case) -> Result<(Model, String), String> {
    let rt = tokio::runtime::Builder::new_current_thread().enable_all().start_paused(true).build().map_err(|e| e.to_string())?;
    rt.block_on(async {
        let t0 = tokio::time::Instant::now();
        let mut real = PingTracker::new(Duration::from_millis(case.max_timeout_ms));
        let mut m = Model::new(case.max_timeout_ms);
        let mut data: Vec<[u8; 8]> = Vec::new(); // id -> ping payload handed out by the real tracker
        let n = case.ops.len();
        for (i, op) in case.ops.iter().enumerate() {
            if !m.enabled(op) {
                return Err(format!("MACHINERY: op {i} {op:?} not enabled"));
            }
            let class = classify(&m, op);
            let mut outcome = "ok".to_string();
            match op {
                Op::NewPing | Op::NewPingCustom => {
                    let d = if *op == Op::NewPing { real.new_ping() } else { real.new_ping_with_timeout(Duration::from_millis(CUSTOM_MS)) };
                    if data.contains(&d) {
                        machinery_error("random ping payload collision");
                    }
                    data.push(d);
                    step_model(&mut m, op, None);
                }
                Op::PongLatest => {
                    let id = m.latest.as_ref().unwrap().id;
                    real.pong_received(data[id]);
                    step_model(&mut m, op, None);
                }
                Op::PongOlder(w) => {
                    let id = m.older(*w).unwrap();
                    real.pong_received(data[id]);
                    step_model(&mut m, op, None);
                }
                Op::PongForged => {
                    let mut d = m.latest.as_ref().map(|l| data[l.id]).unwrap_or([0x5a; 8]);
                    d[7] ^= 1;
                    if data.contains(&d) {
                        d[0] ^= 0x80;
                    }
                    real.pong_received(d);
                    step_model(&mut m, op, None);
                }
                Op::AdvanceMs(ms) => {
                    tokio::time::advance(Duration::from_millis(*ms)).await;
                    step_model(&mut m, op, None);
                }
                Op::Poll => {
                    let fired = real.timeout().now_or_never().is_some();
                    match step_model(&mut m, op, Some(fired)) {
                        Expect::Poll(Some(want)) if want != fired => {
                            return Err(format!(
                                "op {i} poll of timeout(): {} but the most recent ping {}",
                                if fired { "completed (connection declared dead)" } else { "pending" },
                                if want { "is past its deadline" } else { "is not past its deadline / was answered / does not exist" }
                            ));
                        }
                        _ => {}
                    }
                    outcome = if fired { "fires" } else { "pending" }.into();
                }
                Op::Await => {
                    let before = tokio::time::Instant::now();
                    let fired = tokio::time::timeout(Duration::from_millis(GUARD_MS), real.timeout()).await.is_ok();
                    let waited = before.elapsed().as_millis() as u64;
                    match step_model(&mut m, op, None) {
                        Expect::Await(Some(want)) => {
                            if !fired {
                                return Err(format!("op {i}: timeout() did not complete within {GUARD_MS} ms although the latest ping's deadline is {want} ms away"));
                            }
                            if waited != want {
                                return Err(format!("op {i}: timeout() completed after {waited} ms, the latest ping's deadline was {want} ms away"));
                            }
                            outcome = "fires at the deadline".into();
                        }
                        Expect::Await(None) => {
                            if fired {
                                return Err(format!("op {i}: timeout() completed after {waited} ms although no ping is pending"));
                            }
                            outcome = "never fires".into();
                        }
                        _ => unreachable!(),
                    }
                }
            }
            // observations after every op
            let pt = real.ping_timeout().as_millis() as u64;
            if pt != m.ping_timeout() {
                return Err(format!("after op {i} {op:?}: ping_timeout() = {pt} ms, model {} ms (last rtt {:?} ms, bounds {FLOOR_MS}..{} ms)", m.ping_timeout(), m.last_rtt, m.max));
            }
            if real.max_timeout().as_millis() as u64 != m.max {
                return Err("max_timeout changed".into());
            }
            let clock = t0.elapsed().as_millis() as u64;
            if clock != m.now {
                return Err(format!("MACHINERY: virtual clock {clock} ms, model {} ms after op {i}", m.now));
            }
            if i + 1 == n {
                ctx.eval(&class, &outcome);
            }
        }
        let fp = real_fingerprint(&real, &data, &m);
        Ok((m, fp))
    })
}

fn exec(ctx: &Ctx, max: u64, ops: &[Op]) -> Option<Step<String>> {
    let case = Case { max_timeout_ms: max, ops: ops.to_vec() };
    match quiet_catch(|| replay(ctx, &case)) {
        Ok(Ok((m, fp))) => Some(Step { key: format!("{} || {fp}", m.key()), expand: true }),
        Ok(Err(e)) => {
            if e.starts_with("MACHINERY") {
                machinery_error(&e);
            }
            ctx.discrepancy(None, &e, &case);
            None
        }
        Err(p) => {
            ctx.discrepancy(None, &format!("panic: {p}"), &case);
            None
        }
    }
}

fn main() {
    let ctx = Ctx::from_args("C14", Level::ModelChecking);
    ctx.set_rule("BFS over operation histories with re-execution from scratch on a paused-clock runtime, one search per max_timeout (quick {500,1000,5000} ms, thorough {500,600,1000,1500,3000,5000,10000} ms), each run until the frontier is empty (closure of the canonical state space); menu: new_ping, new_ping_with_timeout(300ms), pong(latest / newest older / oldest older / forged), advance {0.1, 0.5, 1, 5, 20} s, poll timeout() once, await timeout(); states de-duplicated by (max_timeout, time since the latest ping was sent capped at max_timeout, its timeout, current ping_timeout(), number of older pings capped at 2) AND a canonical fingerprint of the real tracker's own state taken from its Debug output (pending ping: role of its payload, time left to its deadline or 'past', time since sending capped the same way; last_rtt capped the same way), so a history is merged with an earlier one only if the implementation is in the same state too — anything beyond the caps cannot change a future observation (3*rtt >= max clamps to max; an elapsed deadline stays elapsed); distinct = (op class) x outcome");
    ctx.assume("lower clamp bound = 500 ms (MIN_HEALTH_CHECK_TIMEOUT, documented constant); at exactly the deadline a poll may report either result; random ping payloads are read back, never predicted");
    let depth = 40; // the canonical state space is finite: the search runs until the frontier is empty
    ctx.bound("max_depth", depth);
    let configs: Vec<u64> = ctx.pick(vec![500, 1000, 5000], vec![500, 600, 1000, 1500, 3000, 5000, 10000]);
    ctx.bound("max_timeouts_ms", &configs);
    ctx.min_outcomes(20);
    if let Some(c) = ctx.replay_case::<Case>() {
        let _ = exec(&ctx, c.max_timeout_ms, &c.ops);
        ctx.add_traces(1);
        ctx.finish();
    }
    ctx.sample("history", Case { max_timeout_ms: 1000, ops: vec![Op::NewPing, Op::AdvanceMs(100), Op::PongLatest, Op::NewPing, Op::AdvanceMs(500), Op::Poll] });
    let mut total_states = 0;
    let mut depths = Vec::new();
    for max in configs.iter().copied() {
        let menu = move |h: &[Op]| {
            let m = model_after(max, h);
            menu_all().into_iter().filter(|op| m.enabled(op)).collect::<Vec<_>>()
        };
        let (states, d) = bfs_histories(&ctx, &menu, &|h| exec(&ctx, max, h), depth, 5_000_000);
        total_states += states;
        depths.push(d);
        if ctx.violations() > 0 {
            break;
        }
    }
    ctx.extra("distinct_states_all_configs", total_states);
    if depths.iter().any(|d| *d >= depth) {
        ctx.cap_hit("depth bound reached before the frontier emptied");
    }
    ctx.extra("closure_reached_for_every_config", depths.iter().all(|d| *d < depth));
    ctx.extra("depth_completed_per_config", depths);
    // informational probe, no verdict: a configured maximum below the 500 ms floor makes the clamp bounds contradictory
    let probe = quiet_catch(|| {
        let rt = tokio::runtime::Builder::new_current_thread().enable_all().start_paused(true).build().unwrap();
        rt.block_on(async {
            let mut t = PingTracker::new(Duration::from_millis(100));
            let d = t.new_ping();
            t.pong_received(d);
            t.ping_timeout()
        })
    });
    ctx.extra("probe_max_timeout_100ms_after_a_measured_rtt", format!("{probe:?}"));
    ctx.finish();
}
