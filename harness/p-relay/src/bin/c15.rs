//! C15 Relay dialing tries every resolved address and returns the first success — E2 as a
//! timed-environment enumeration under tokio's paused clock.
//!
//! The real `dial_happy_eyeballs` runs against a scripted `Resolver` (each family answers at a
//! scripted virtual instant) and a scripted connector installed at the TCP connect seam (each
//! attempt is logged, waits its scripted virtual delay and then fails, hangs, or hands over a
//! pre-connected loopback stream). With the paused clock the run is a deterministic function of
//! the environment; the observation (attempt log, result, end time) is checked against the clauses
//! of the statement, leaving exact timer/arrival ties free.
use iroh_dns::dns::{BoxIter, DnsError, DnsResolver, Resolver, TxtRecordData};
use iroh_relay::verif::c15 as seam;
use n0_future::boxed::BoxFuture;
use serde::{Deserialize, Serialize};
use std::collections::{BTreeMap, BTreeSet};
use std::net::{IpAddr, Ipv4Addr, Ipv6Addr, SocketAddr};
use std::sync::{Arc, Mutex, OnceLock};
use std::time::Duration;
use tokio::time::Instant;
use vh_engine::*;

// documented constants of the dialer (defaults::timeouts), written down from the docs
const RESOLUTION_DELAY: u64 = 50;
const ATTEMPT_TIMEOUT: u64 = 1500;
const DNS_TIMEOUT: u64 = 3000;
const HORIZON_MS: u64 = 120_000;

#[derive(Serialize, Deserialize, Clone, Copy, Debug, PartialEq, Eq, PartialOrd, Ord, Hash)]
enum Outcome {
    Ok,
    Fail,
    Hang,
}
#[derive(Serialize, Deserialize, Clone, Copy, Debug, PartialEq, Eq, PartialOrd, Ord, Hash)]
struct Attempt {
    outcome: Outcome,
    after_ms: u64,
}
#[derive(Serialize, Deserialize, Clone, Debug, PartialEq, Eq, PartialOrd, Ord, Hash)]
enum Answer {
    Error,
    /// the lookup never completes (cut by the DNS time-out)
    Never,
    Addrs(Vec<Attempt>),
}
#[derive(Serialize, Deserialize, Clone, Debug, PartialEq, Eq, PartialOrd, Ord, Hash)]
struct Fam {
    at_ms: u64,
    answer: Answer,
}
#[derive(Serialize, Deserialize, Clone, Debug)]
struct Case {
    prefer_v6: bool,
    v4: Fam,
    v6: Fam,
}

fn v4_addr(i: usize) -> IpAddr {
    IpAddr::V4(Ipv4Addr::new(192, 0, 2, i as u8 + 1))
}
fn v6_addr(i: usize) -> IpAddr {
    IpAddr::V6(Ipv6Addr::new(0x2001, 0xdb8, 0, 0, 0, 0, 0, i as u16 + 1))
}

// ---------------- scripted environment ----------------
#[derive(Debug, Clone)]
struct ScriptedResolver {
    v4: Fam,
    v6: Fam,
}
async fn answer_at(f: Fam) -> Result<usize, DnsError> {
    if f.answer == Answer::Never {
        std::future::pending::<()>().await;
    }
    if f.at_ms > 0 {
        tokio::time::sleep(Duration::from_millis(f.at_ms)).await;
    }
    match f.answer {
        Answer::Addrs(a) => Ok(a.len()),
        _ => Err(n0_error::e!(DnsError::NoResponse)),
    }
}
impl Resolver for ScriptedResolver {
    fn lookup_ipv4(&self, _host: String) -> BoxFuture<Result<BoxIter<Ipv4Addr>, DnsError>> {
        let f = self.v4.clone();
        Box::pin(async move {
            let n = answer_at(f).await?;
            Ok(Box::new((0..n).map(|i| match v4_addr(i) {
                IpAddr::V4(a) => a,
                _ => unreachable!(),
            })) as BoxIter<Ipv4Addr>)
        })
    }
    fn lookup_ipv6(&self, _host: String) -> BoxFuture<Result<BoxIter<Ipv6Addr>, DnsError>> {
        let f = self.v6.clone();
        Box::pin(async move {
            let n = answer_at(f).await?;
            Ok(Box::new((0..n).map(|i| match v6_addr(i) {
                IpAddr::V6(a) => a,
                _ => unreachable!(),
            })) as BoxIter<Ipv6Addr>)
        })
    }
    fn lookup_txt(&self, _host: String) -> BoxFuture<Result<BoxIter<TxtRecordData>, DnsError>> {
        Box::pin(async { Ok(Box::new(std::iter::empty()) as BoxIter<TxtRecordData>) })
    }
    fn clear_cache(&self) {}
    fn reset(&self) -> Box<dyn Resolver> {
        Box::new(self.clone())
    }
}

/// A process-wide loopback listener whose only job is to let `connect` succeed synchronously.
fn listener_addr() -> SocketAddr {
    static L: OnceLock<SocketAddr> = OnceLock::new();
    *L.get_or_init(|| {
        let l = std::net::TcpListener::bind("127.0.0.1:0").unwrap_or_else(|e| machinery_error(&format!("loopback listener: {e}")));
        let addr = l.local_addr().unwrap();
        std::thread::spawn(move || {
            let mut keep = std::collections::VecDeque::new();
            for s in l.incoming().flatten() {
                keep.push_back(s);
                if keep.len() > 512 {
                    keep.pop_front();
                }
            }
        });
        addr
    })
}

#[derive(Default)]
struct Obs {
    /// (virtual ms since the dial started, address)
    attempts: Vec<(u64, IpAddr)>,
    /// local socket address of a handed-over stream -> the virtual address it stands for
    handed: BTreeMap<SocketAddr, IpAddr>,
}

struct Run {
    attempts: Vec<(u64, IpAddr)>,
    /// Ok(address whose stream was returned) | Err(debug text)
    result: Result<IpAddr, String>,
    end_ms: u64,
}

fn script_of(case: &Case) -> BTreeMap<IpAddr, Attempt> {
    let mut m = BTreeMap::new();
    if let Answer::Addrs(a) = &case.v4.answer {
        for (i, x) in a.iter().enumerate() {
            m.insert(v4_addr(i), *x);
        }
    }
    if let Answer::Addrs(a) = &case.v6.answer {
        for (i, x) in a.iter().enumerate() {
            m.insert(v6_addr(i), *x);
        }
    }
    m
}

/// One execution of the real dialer in the scripted environment. Err = machinery problem / non-termination text.
fn execute(case: &Case) -> Result<Run, String> {
    let laddr = listener_addr();
    // a fresh paused-clock runtime per execution: virtual time starts at the dial
    let rt = tokio::runtime::Builder::new_current_thread().enable_all().start_paused(true).build().map_err(|e| e.to_string())?;
    let obs = Arc::new(Mutex::new(Obs::default()));
    let script = Arc::new(script_of(case));
    let out = rt.block_on(async {
        let start = Instant::now();
        let o2 = obs.clone();
        let s2 = script.clone();
        let connector: seam::Connector = Arc::new(move |addr: SocketAddr| {
            let obs = o2.clone();
            let script = s2.clone();
            Box::pin(async move {
                let now = Instant::now().duration_since(start).as_millis() as u64;
                obs.lock().unwrap().attempts.push((now, addr.ip()));
                let Some(a) = script.get(&addr.ip()).copied() else {
                    return Err(std::io::Error::other("attempt to an address that was never resolved"));
                };
                if a.outcome == Outcome::Hang {
                    std::future::pending::<()>().await;
                }
                if a.after_ms > 0 {
                    tokio::time::sleep(Duration::from_millis(a.after_ms)).await;
                }
                match a.outcome {
                    Outcome::Fail => Err(std::io::Error::new(std::io::ErrorKind::ConnectionRefused, "scripted refusal")),
                    _ => {
                        // synchronous loopback connect: no virtual time passes
                        let s = std::net::TcpStream::connect(laddr)?;
                        s.set_nonblocking(true)?;
                        let local = s.local_addr()?;
                        obs.lock().unwrap().handed.insert(local, addr.ip());
                        tokio::net::TcpStream::from_std(s)
                    }
                }
            })
        });
        seam::set_thread_connector(Some(connector));
        let resolver = DnsResolver::custom(ScriptedResolver { v4: case.v4.clone(), v6: case.v6.clone() });
        let url: url::Url = "http://relay.test:80".parse().unwrap();
        let r = tokio::time::timeout(Duration::from_millis(HORIZON_MS), seam::dial_happy_eyeballs(&resolver, &url, case.prefer_v6)).await;
        seam::set_thread_connector(None);
        let end_ms = Instant::now().duration_since(start).as_millis() as u64;
        match r {
            Err(_) => Err(format!("dial did not return within {HORIZON_MS} ms of virtual time")),
            Ok(Ok(stream)) => {
                let local = stream.local_addr().map_err(|e| e.to_string())?;
                match obs.lock().unwrap().handed.get(&local) {
                    Some(ip) => Ok((Ok(*ip), end_ms)),
                    None => Err("returned a stream the connector never handed over".to_string()),
                }
            }
            Ok(Err(e)) => Ok((Err(format!("{e:?}").chars().take(120).collect()), end_ms)),
        }
    });
    drop(rt);
    let (result, end_ms) = out?;
    let attempts = obs.lock().unwrap().attempts.clone();
    Ok(Run { attempts, result, end_ms })
}

// ---------------- oracle: the clauses of the statement ----------------
struct Verdict {
    class: String,
    outcome: String,
}

fn check(case: &Case, run: &Run) -> Result<Verdict, String> {
    let script = script_of(case);
    let is6 = |ip: &IpAddr| ip.is_ipv6();
    // when does each family's lookup finish, and with which addresses
    let fin = |f: &Fam| if f.answer == Answer::Never { DNS_TIMEOUT } else { f.at_ms };
    let resolved_at = |ip: &IpAddr| if is6(ip) { case.v6.at_ms } else { case.v4.at_ms };
    let t_res = fin(&case.v4).max(fin(&case.v6));
    let all: Vec<IpAddr> = script.keys().copied().collect();
    let completion = |ip: &IpAddr, start: u64| -> (bool, u64) {
        let a = script[ip];
        match a.outcome {
            Outcome::Hang => (false, start + ATTEMPT_TIMEOUT),
            Outcome::Ok if a.after_ms < ATTEMPT_TIMEOUT => (true, start + a.after_ms),
            Outcome::Fail if a.after_ms < ATTEMPT_TIMEOUT => (false, start + a.after_ms),
            _ => (false, start + ATTEMPT_TIMEOUT),
        }
    };
    // sanity: attempts go to resolved addresses, once each, never before they resolved
    let mut seen = BTreeSet::new();
    let mut last_t = 0;
    for (t, ip) in &run.attempts {
        if !script.contains_key(ip) {
            return Err(format!("attempt to {ip}, which no lookup returned"));
        }
        if !seen.insert(*ip) {
            return Err(format!("{ip} attempted twice"));
        }
        if *t < resolved_at(ip) {
            return Err(format!("{ip} attempted at {t} ms before it resolved at {} ms", resolved_at(ip)));
        }
        if *t < last_t {
            return Err("attempt log not in time order".into());
        }
        last_t = *t;
    }
    let started: BTreeMap<IpAddr, u64> = run.attempts.iter().map(|(t, ip)| (*ip, *t)).collect();
    let successes: Vec<(u64, IpAddr)> = started.iter().filter_map(|(ip, s)| {
        let (ok, c) = completion(ip, *s);
        ok.then_some((c, *ip))
    }).collect();
    // --- result clauses ---
    match &run.result {
        Ok(ip) => {
            let Some(s) = started.get(ip) else { return Err(format!("returned the stream of {ip}, which was never attempted")) };
            let (ok, c) = completion(ip, *s);
            if !ok {
                return Err(format!("returned {ip} whose attempt does not succeed"));
            }
            if run.end_ms != c {
                return Err(format!("attempt to {ip} succeeded at {c} ms but the dial returned at {} ms", run.end_ms));
            }
            if let Some((c2, ip2)) = successes.iter().find(|(c2, _)| *c2 < c) {
                return Err(format!("returned {ip} (success at {c} ms) although the attempt to {ip2} succeeded first at {c2} ms"));
            }
        }
        Err(e) => {
            let t = run.end_ms;
            if t < t_res {
                return Err(format!("dial failed at {t} ms before resolution finished at {t_res} ms ({e})"));
            }
            for ip in &all {
                match started.get(ip) {
                    None => return Err(format!("dial failed at {t} ms but the resolved address {ip} was never attempted ({e})")),
                    Some(s) => {
                        let (ok, c) = completion(ip, *s);
                        if ok && c <= t {
                            return Err(format!("dial failed although the attempt to {ip} succeeded at {c} ms"));
                        }
                        if c > t {
                            return Err(format!("dial failed at {t} ms while the attempt to {ip} was still running (ends at {c} ms)"));
                        }
                    }
                }
            }
        }
    }
    // --- first attempt: preferred family when it resolves within the resolution delay ---
    let fam_has = |v6: bool| all.iter().any(|ip| is6(ip) == v6);
    let pref = case.prefer_v6;
    let t0 = all.iter().map(resolved_at).min();
    let mut first_class = "nothing resolved";
    if let (Some(t0), Some((_, first))) = (t0, run.attempts.first()) {
        first_class = "preferred family absent or late";
        if fam_has(pref) {
            let tp = if pref { case.v6.at_ms } else { case.v4.at_ms };
            if tp < t0 + RESOLUTION_DELAY {
                first_class = "preferred family resolves within the resolution delay";
                if is6(first) != pref {
                    return Err(format!("first attempt went to {first} although a preferred-family address resolved at {tp} ms, within {RESOLUTION_DELAY} ms of the first resolution at {t0} ms"));
                }
            } else if tp == t0 + RESOLUTION_DELAY {
                first_class = "preferred family resolves exactly at the resolution delay (tie, free)";
            }
        }
    } else if t0.is_some() {
        return Err("addresses resolved but nothing was attempted".into());
    }
    // --- later attempts alternate families while both have untried addresses ---
    let mut alternations = 0;
    for i in 1..run.attempts.len() {
        let (t, ip) = run.attempts[i];
        let (_, prev) = run.attempts[i - 1];
        let tried: BTreeSet<IpAddr> = run.attempts[..i].iter().map(|(_, a)| *a).collect();
        // an untried address of the other family that resolved strictly before this attempt (ties free)
        let other_waiting = all.iter().find(|a| is6(a) != is6(&ip) && !tried.contains(a) && resolved_at(a) < t);
        if is6(&ip) == is6(&prev) {
            if let Some(w) = other_waiting {
                return Err(format!("attempts {} and {} both went to the same family ({prev} then {ip} at {t} ms) while {w} of the other family was resolved (at {} ms) and untried", i, i + 1, resolved_at(w)));
            }
        } else if other_waiting.is_some() || all.iter().any(|a| is6(a) == is6(&prev) && !tried.contains(a) && resolved_at(a) < t) {
            alternations += 1;
        }
    }
    let class = format!(
        "{} families with addresses; {}; {}",
        [false, true].iter().filter(|v| fam_has(**v)).count(),
        first_class,
        if successes.is_empty() && !all.iter().any(|ip| script[ip].outcome == Outcome::Ok) { "no address reachable" } else { "some address reachable" }
    );
    let outcome = match &run.result {
        Ok(_) => format!("connected{}", if alternations > 0 { ", alternated" } else { "" }),
        Err(_) => format!("failed after all attempts{}", if alternations > 0 { ", alternated" } else { "" }),
    };
    Ok(Verdict { class, outcome })
}

fn run_case(ctx: &Ctx, case: &Case, seen_traces: &Mutex<BTreeSet<String>>) {
    ctx.add_traces(1);
    let r = quiet_catch(|| execute(case));
    match r {
        Err(p) => ctx.discrepancy(None, &format!("panic: {p}"), case),
        Ok(Err(e)) => ctx.discrepancy(None, &e, case),
        Ok(Ok(run)) => {
            ctx.add_transitions(run.attempts.len() as u64 + 3);
            seen_traces.lock().unwrap().insert(format!("{:?} {:?} {}", run.attempts, run.result.as_ref().ok(), run.end_ms));
            match check(case, &run) {
                Err(e) => ctx.discrepancy(None, &format!("{e} [attempts {:?}, result {:?} at {} ms]", run.attempts, run.result, run.end_ms), case),
                Ok(v) => ctx.eval(&v.class, &v.outcome),
            }
        }
    }
}

fn families(times: &[u64], outcomes: &[Attempt], max_addrs: usize, include_never: bool) -> Vec<Fam> {
    let mut v = Vec::new();
    for &at_ms in times {
        v.push(Fam { at_ms, answer: Answer::Error });
        v.push(Fam { at_ms, answer: Answer::Addrs(vec![]) });
        for n in 1..=max_addrs {
            for seq in sequences_up_to(outcomes, n).into_iter().filter(|s| s.len() == n) {
                v.push(Fam { at_ms, answer: Answer::Addrs(seq) });
            }
        }
    }
    if include_never {
        v.push(Fam { at_ms: 0, answer: Answer::Never });
    }
    v
}

fn main() {
    let ctx = Ctx::from_args("C15", Level::ModelChecking);
    ctx.set_rule("every timed environment of the product: preference {v4, v6} x per family (answer {error, never (DNS time-out), [], [a], [a,b]} at t in {0,10,49,50,51,300} ms) x per address (succeed / fail after d ms, or hang until the 1.5 s attempt time-out); thorough adds more delays around the 250 ms attempt delay and three-address answers on a reduced outcome menu. Each environment is one deterministic execution of the real dial_happy_eyeballs under the paused clock; states = distinct observed traces (attempt log, result, end time).");
    ctx.assume("documented timing constants: resolution delay 50 ms, per-attempt time-out 1.5 s, DNS time-out 3 s; exact ties between a timer and an arrival are left free");
    ctx.assume("a handed-over loopback stream stands for the attempted address (identified by its local socket address)");
    ctx.min_outcomes(10);
    let traces = Mutex::new(BTreeSet::new());
    if let Some(c) = ctx.replay_case::<Case>() {
        run_case(&ctx, &c, &traces);
        ctx.finish();
    }
    let at = |outcome, after_ms| Attempt { outcome, after_ms };
    let times = [0u64, 10, 49, 50, 51, 300];
    let quick_outcomes = vec![at(Outcome::Ok, 0), at(Outcome::Ok, 251), at(Outcome::Fail, 0), at(Outcome::Fail, 100), at(Outcome::Fail, 251), at(Outcome::Hang, 0)];
    let mut cases: Vec<Case> = Vec::new();
    if !ctx.thorough() {
        let fams = families(&times, &quick_outcomes, 2, true);
        ctx.bound("family_scripts", fams.len());
        for prefer_v6 in [false, true] {
            for v4 in &fams {
                for v6 in &fams {
                    cases.push(Case { prefer_v6, v4: v4.clone(), v6: v6.clone() });
                }
            }
        }
    } else {
        let mut wide = quick_outcomes.clone();
        wide.extend([at(Outcome::Ok, 100), at(Outcome::Ok, 249), at(Outcome::Ok, 250), at(Outcome::Fail, 249), at(Outcome::Fail, 250)]);
        let fams = families(&times, &wide, 2, true);
        ctx.bound("family_scripts", fams.len());
        for prefer_v6 in [false, true] {
            for v4 in &fams {
                for v6 in &fams {
                    cases.push(Case { prefer_v6, v4: v4.clone(), v6: v6.clone() });
                }
            }
        }
        // three addresses in one family, reduced outcome menu on both sides
        let small = vec![at(Outcome::Ok, 0), at(Outcome::Fail, 0), at(Outcome::Fail, 251), at(Outcome::Hang, 0)];
        let three: Vec<Fam> = families(&times, &small, 3, false).into_iter().filter(|f| matches!(&f.answer, Answer::Addrs(a) if a.len() == 3)).collect();
        let others = families(&times, &small, 2, false);
        ctx.bound("three_address_family_scripts", three.len());
        for prefer_v6 in [false, true] {
            for a in &three {
                for b in &others {
                    cases.push(Case { prefer_v6, v4: a.clone(), v6: b.clone() });
                    cases.push(Case { prefer_v6, v4: b.clone(), v6: a.clone() });
                }
            }
        }
    }
    ctx.bound("environments", cases.len());
    ctx.bound("resolution_times_ms", times.to_vec());
    for c in cases.iter().step_by((cases.len() / 9).max(1)) {
        ctx.sample(&format!("{c:?}").chars().take(70).collect::<String>(), c);
    }
    par_for_each(&cases, |c| run_case(&ctx, c, &traces));
    ctx.add_states(traces.lock().unwrap().len() as u64);
    ctx.finish();
}
