//! C06: see relaynet_mc.rs (shared E2 exploration of the relay registry).
fn main() {
    vh_p_relay::relaynet_mc::drive("C06");
}
