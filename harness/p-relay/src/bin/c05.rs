//! C05 No client can get another client disconnected from the relay — E2 on the relaynet scenario.
//!
//! Victim B (V1 or V2) and prober C are connected; attacker A sends every decoder-accepted client
//! frame shape (hand-assembled bytes: every length at and around every limit, batch/non-batch, all
//! ECN bytes classes, segment-size field values, connected/unconnected/own destination, pings, pongs)
//! plus undecodable frames, alone and in short sequences. After every attacker frame the relay is run
//! to quiescence and B must still be served: its stream is not dropped, a probe datagram from C reaches
//! it, and its ping is answered.
use bytes::{BufMut, Bytes, BytesMut};
use serde::{Deserialize, Serialize};
use vh_engine::*;
use vh_p_relay::relaynet::*;

#[derive(Clone, Serialize, Deserialize, Debug, PartialEq, Eq)]
enum Frame {
    /// raw datagram frame: dst identity index (0 = attacker itself, 1 = victim B, 2 = unconnected Z, 3 = prober C),
    /// `seg` = Some(raw u16 field) for the batch frame type
    Datagram { dst: usize, seg: Option<u16>, ecn: u8, len: usize },
    Ping,
    Pong,
    /// frame type byte followed by `len` filler bytes
    Raw { typ: u8, len: usize },
}

#[derive(Clone, Serialize, Deserialize, Debug)]
struct Case {
    victim_v1: bool,
    frames: Vec<Frame>,
    /// Some(n): while the victim's outbound path is stalled (for less than the relay's write time-out) the
    /// attacker sends each frame n times (send queue capacity is 16), then the path recovers
    #[serde(default)]
    flood: Option<usize>,
}

fn frame_bytes(f: &Frame) -> Bytes {
    let mut b = BytesMut::new();
    match f {
        Frame::Datagram { dst, seg, ecn, len } => {
            b.put_u8(if seg.is_some() { 5 } else { 4 });
            b.put_slice(id(*dst).as_bytes());
            b.put_u8(*ecn);
            if let Some(s) = seg {
                b.put_u16(*s);
            }
            b.put_bytes(0x5a, *len);
        }
        Frame::Ping => {
            b.put_u8(9);
            b.put_slice(&[7u8; 8]);
        }
        Frame::Pong => {
            b.put_u8(10);
            b.put_slice(&[8u8; 8]);
        }
        Frame::Raw { typ, len } => {
            b.put_u8(*typ);
            b.put_bytes(0x11, *len);
        }
    }
    b.freeze()
}

fn frame_class(f: &Frame) -> String {
    match f {
        Frame::Datagram { dst, seg, len, .. } => {
            let max_fwd = 65536 - 1 - 32 - 1 - if seg.map(|s| s != 0).unwrap_or(false) { 2 } else { 0 };
            let lc = if *len == 0 {
                "empty"
            } else if *len <= max_fwd {
                "forwardable"
            } else {
                "over-forward-limit"
            };
            format!("datagram{}:{}:dst{}", if seg.is_some() { "-batch" } else { "" }, lc, dst)
        }
        Frame::Ping => "ping".into(),
        Frame::Pong => "pong".into(),
        Frame::Raw { typ, .. } => format!("raw-type-{typ}"),
    }
}

const A: usize = 0;
const B: usize = 1;
const C: usize = 3;

/// returns (outcome class, Some(problem)) — problem = the victim was harmed
fn run_case(case: &Case) -> (String, Option<String>) {
    let rt = runtime();
    rt.block_on(async {
        let mut w = World::new(16);
        let a = w.connect(A, false);
        let b = w.connect(B, case.victim_v1);
        let c = w.connect(C, false);
        settle().await;
        let mut outcome = String::new();
        for (i, f) in case.frames.iter().enumerate() {
            let accepted = iroh_relay::verif::c04::client_to_relay_from_bytes(frame_bytes(f), &w.cache).is_ok();
            if let Some(n) = case.flood {
                w.set_credits(b, Some(0));
                for _ in 0..n {
                    w.send_raw(a, frame_bytes(f));
                }
                settle().await;
                w.set_credits(b, None);
                settle().await;
            } else {
                w.send_raw(a, frame_bytes(f));
                settle().await;
            }
            let at_b: Vec<Obs> = w.drain(b);
            let got = at_b.iter().filter(|o| matches!(o, Obs::Datagrams { src: Some(0), .. })).count();
            outcome = format!(
                "decoder-{} {} sender-{}",
                if accepted { "accepts" } else { "rejects" },
                if got > 0 { "forwarded" } else { "not-forwarded" },
                if w.server_dropped(a) { "ended" } else { "alive" }
            );
            // --- the victim must still be served ---
            if w.server_dropped(b) {
                return (outcome, Some(format!("victim's connection was closed by the relay after attacker frame #{i} {f:?}")));
            }
            if w.server_dropped(c) {
                return (outcome, Some(format!("bystander's connection was closed by the relay after attacker frame #{i} {f:?}")));
            }
            w.send_msg(c, &datagram_msg(B, 0, None, &[0xee, i as u8]));
            settle().await;
            let probe_ok = w.drain(b).iter().any(|o| matches!(o, Obs::Datagrams { src: Some(3), contents, .. } if contents == &vec![0xee, i as u8]));
            if !probe_ok {
                return (outcome, Some(format!("victim no longer receives datagrams after attacker frame #{i} {f:?}")));
            }
            w.send_msg(b, &iroh_relay::protos::relay::ClientToRelayMsg::Ping([i as u8; 8]));
            settle().await;
            let pong_ok = w.drain(b).iter().any(|o| matches!(o, Obs::Pong(d) if d == &vec![i as u8; 8]));
            if !pong_ok || w.server_dropped(b) {
                return (outcome, Some(format!("victim's ping is no longer answered after attacker frame #{i} {f:?}")));
            }
            if w.server_dropped(a) {
                break; // the attacker's own connection ended: allowed
            }
        }
        (outcome, None)
    })
}

fn shapes(ctx: &Ctx) -> Vec<Frame> {
    let mut v = Vec::new();
    // decoder limit: bytes after the type byte <= 65536
    let max_plain = 65536 - 32 - 1;
    let max_batch = 65536 - 32 - 1 - 2;
    let mut lens: Vec<usize> = vec![0, 1, 2, 3, 1200, 65000];
    for l in [max_plain, max_batch] {
        for d in -3i64..=2 {
            lens.push((l as i64 + d) as usize);
        }
    }
    lens.sort();
    lens.dedup();
    let ecns: Vec<u8> = if ctx.thorough() { vec![0, 1, 2, 3, 4, 0xff] } else { vec![0, 3, 0xff] };
    let dsts = [B, 2, A, C];
    for &dst in &dsts {
        for &len in &lens {
            for &ecn in &ecns {
                v.push(Frame::Datagram { dst, seg: None, ecn, len });
            }
            let segs: Vec<u16> = vec![0, 1, 2, len.min(65535) as u16, (len + 1).min(65535) as u16, 65535];
            let mut segs = segs;
            segs.sort();
            segs.dedup();
            for seg in segs {
                v.push(Frame::Datagram { dst, seg: Some(seg), ecn: ecns[0], len });
            }
        }
    }
    v.push(Frame::Ping);
    v.push(Frame::Pong);
    // undecodable / wrong-direction frames: every frame type value 0..=20 and 63 with a few lengths
    for typ in (0u8..=20).chain([63]) {
        for len in [0usize, 7, 8, 9, 32, 33, 40] {
            v.push(Frame::Raw { typ, len });
        }
    }
    v
}

fn main() {
    let ctx = Ctx::from_args("C05", Level::ModelChecking);
    ctx.set_rule("attacker frames = hand-assembled bytes for every datagram shape (payload length in {0,1,2,3,1200,65000} + [L-3..L+2] around both decoder limits, batch/non-batch, segment-size field {0,1,2,len,len+1,65535}, ECN byte classes, destination in {victim, unconnected, self, bystander}), ping, pong, and every frame-type byte 0..=20,63 with 7 lengths; each alone (depth 1) against a V1 and a V2 victim, and every ordered pair of a reduced shape set (depth 2); after every frame: quiescence, then victim liveness = stream not dropped + probe datagram delivered + ping answered; distinct = (frame class, decoder verdict/forwarded/sender state)");
    ctx.assume("frame-level harness stream instead of the websocket layer; single-thread paused-clock runtime, quiescence between stimuli");
    ctx.min_outcomes(8);
    if let Some(c) = ctx.replay_case::<Case>() {
        let (o, p) = run_case(&c);
        println!("replay outcome: {o} problem: {p:?}");
        if let Some(p) = p {
            ctx.discrepancy(None, &p, &c);
        }
        ctx.finish();
    }
    let shapes = shapes(&ctx);
    let mut cases: Vec<Case> = Vec::new();
    for v1 in [false, true] {
        for f in &shapes {
            cases.push(Case { victim_v1: v1, frames: vec![f.clone()], flood: None });
        }
    }
    // depth 2/3 over a reduced alphabet (one representative per class)
    let mut reps: Vec<Frame> = Vec::new();
    let mut seen = std::collections::BTreeSet::new();
    for f in &shapes {
        if seen.insert(frame_class(f)) {
            reps.push(f.clone());
        }
    }
    let reps: Vec<Frame> = reps.into_iter().filter(|f| !matches!(f, Frame::Raw { typ, .. } if *typ > 6)).collect();
    for f1 in &reps {
        for f2 in &reps {
            cases.push(Case { victim_v1: false, frames: vec![f1.clone(), f2.clone()], flood: None });
        }
    }
    // queue-full back-pressure: flood a temporarily stalled victim with each class representative
    for f in &reps {
        for n in [15usize, 16, 17, 18, 40] {
            cases.push(Case { victim_v1: false, frames: vec![f.clone()], flood: Some(n) });
        }
    }
    if ctx.thorough() {
        let small: Vec<Frame> = reps.iter().filter(|f| matches!(f, Frame::Datagram { dst, .. } if *dst == B) || matches!(f, Frame::Ping)).cloned().collect();
        for f1 in &small {
            for f2 in &small {
                for f3 in &small {
                    cases.push(Case { victim_v1: true, frames: vec![f1.clone(), f2.clone(), f3.clone()], flood: None });
                }
            }
        }
    }
    ctx.bound("single_frame_shapes", shapes.len());
    ctx.bound("class_representatives_for_sequences", reps.len());
    ctx.sample("first", &cases[0]);
    ctx.sample("last", cases.last().unwrap());
    par_for_each(&cases, |case| {
        let r = quiet_catch(|| run_case(case));
        ctx.add_traces(1);
        ctx.add_transitions(case.frames.len() as u64);
        ctx.add_states(1);
        match r {
            Err(p) => ctx.discrepancy(None, &format!("panic: {p}"), case),
            Ok((outcome, problem)) => {
                let class = case.frames.iter().map(frame_class).collect::<Vec<_>>().join(" ; ");
                if let Some(p) = problem {
                    // one report per kind of harmful frame (the frame after which the harm was observed is named in p)
                    let kind = p.split("Datagram").nth(1).map(|_| {
                        let k = case.frames.iter().map(frame_class).find(|c| c.contains("empty") || c.contains("over-forward")).unwrap_or_else(|| "other".into());
                        k.split(":dst").next().unwrap_or("x").replace(':', "-")
                    });
                    ctx.discrepancy(kind.as_deref().map(|k| format!("victim-harmed-by-{k}")).as_deref(), &format!("{p} [{class}]"), case);
                } else {
                    ctx.eval(&format!("{}{}", frame_class(case.frames.last().unwrap()), case.flood.map(|n| format!(" x{n} while stalled")).unwrap_or_default()), &outcome);
                }
            }
        }
    });
    ctx.finish();
}
