//! C13 Captive-portal probe echoes only well-formed challenges — E0 exhaustive input enumeration.
//!
//! Two observation points, both the real code:
//!   Direct — the private `serve_no_content_handler` (hook wrapper) on an `http::Request` carrying the challenge header
//!   Http   — the real `CaptivePortalService` served by hyper over an in-memory connection, fed raw HTTP/1.1 request bytes
//!
//! Reference (from the statement): always 204; the response carries `X-Iroh-Response: response <challenge>` exactly when the
//! challenge is 1..=63 characters of [A-Za-z0-9._-]; otherwise no such header.
use iroh_relay::verif::c13 as hk;
use serde::{Deserialize, Serialize};
use std::time::Duration;
use tokio::io::{AsyncReadExt, AsyncWriteExt};
use vh_engine::*;

const CHALLENGE: &str = "X-Iroh-Challenge";
const RESPONSE: &str = "x-iroh-response";

#[derive(Serialize, Deserialize, Clone, Debug)]
enum Case {
    /// handler called directly; `hex` = raw header value, None = header absent
    Direct { hex: Option<String> },
    /// raw HTTP/1.1 request through the served CaptivePortalService
    Http { hex: Option<String>, lower_name: bool },
}

fn valid_char(b: u8) -> bool {
    matches!(b, b'A'..=b'Z' | b'a'..=b'z' | b'0'..=b'9' | b'.' | b'-' | b'_')
}
/// the statement's rule: Some(expected response header value) or None
fn ref_echo(ch: Option<&[u8]>) -> Option<Vec<u8>> {
    let c = ch?;
    if (1..=63).contains(&c.len()) && c.iter().all(|b| valid_char(*b)) {
        let mut v = b"response ".to_vec();
        v.extend_from_slice(c);
        Some(v)
    } else {
        None
    }
}
fn class_of(ch: Option<&[u8]>) -> String {
    match ch {
        None => "absent".into(),
        Some(c) => {
            let chars = if c.iter().all(|b| valid_char(*b)) { "all-valid-chars" } else { "has-invalid-char" };
            let len = match c.len() {
                0 => "len0",
                1..=62 => "len1-62",
                63 => "len63",
                64 => "len64",
                _ => "len>64",
            };
            format!("{chars} {len}")
        }
    }
}
/// bytes that may occur inside an HTTP field value (RFC 9110: HTAB, SP, VCHAR, obs-text)
fn legal_field_byte(b: u8) -> bool {
    b == b'\t' || (0x20..=0x7e).contains(&b) || b >= 0x80
}
fn trim_ows(c: &[u8]) -> &[u8] {
    let mut s = c;
    while let [b' ' | b'\t', rest @ ..] = s {
        s = rest;
    }
    while let [rest @ .., b' ' | b'\t'] = s {
        s = rest;
    }
    s
}

type Verdict = Result<(String, String), String>;

fn run_direct(ch: Option<&[u8]>) -> Verdict {
    let mut b = http::Request::builder().method("GET").uri("/generate_204");
    if let Some(c) = ch {
        let v = http::HeaderValue::from_bytes(c).map_err(|e| format!("MACHINERY: not a legal header value: {e}"))?;
        b = b.header(CHALLENGE, v);
    }
    let req = b.body(http_body_util::Empty::<bytes::Bytes>::new()).map_err(|e| format!("MACHINERY: {e}"))?;
    let parts = hk::serve_no_content(req).map_err(|e| format!("handler returned an error instead of a response: {e}"))?;
    if parts.status.as_u16() != 204 {
        return Err(format!("status {} instead of 204", parts.status));
    }
    let got: Vec<Vec<u8>> = parts.headers.get_all(RESPONSE).iter().map(|v| v.as_bytes().to_vec()).collect();
    judge(&format!("direct {}", class_of(ch)), &[ref_echo(ch)], &got)
}

fn judge(class: &str, allowed: &[Option<Vec<u8>>], got: &[Vec<u8>]) -> Verdict {
    if got.len() > 1 {
        return Err(format!("{} response headers", got.len()));
    }
    let got1 = got.first().cloned();
    if !allowed.contains(&got1) {
        return Err(format!(
            "response header {:?}, expected {:?}",
            got1.as_ref().map(|v| String::from_utf8_lossy(v).into_owned()),
            allowed.iter().map(|a| a.as_ref().map(|v| String::from_utf8_lossy(v).into_owned())).collect::<Vec<_>>()
        ));
    }
    Ok((class.to_string(), if got1.is_some() { "204 + echo" } else { "204, no response header" }.to_string()))
}

fn run_http(ch: Option<&[u8]>, lower_name: bool) -> Verdict {
    let mut req = b"GET /generate_204 HTTP/1.1\r\nHost: relay.test\r\nConnection: close\r\n".to_vec();
    if let Some(c) = ch {
        req.extend_from_slice(if lower_name { b"x-iroh-challenge" } else { CHALLENGE.as_bytes() });
        req.extend_from_slice(b": ");
        req.extend_from_slice(c);
        req.extend_from_slice(b"\r\n");
    }
    req.extend_from_slice(b"\r\n");
    let rt = tokio::runtime::Builder::new_current_thread().enable_all().start_paused(true).build().map_err(|e| e.to_string())?;
    let resp: Vec<u8> = rt.block_on(async move {
        let (mut client, server) = tokio::io::duplex(1 << 16);
        let srv = tokio::spawn(hk::serve_conn(server));
        client.write_all(&req).await.map_err(|e| format!("write: {e}"))?;
        let mut out = Vec::new();
        // virtual-time guard: fires only if the server never answers / never closes
        match tokio::time::timeout(Duration::from_secs(30), client.read_to_end(&mut out)).await {
            Ok(Ok(_)) => {}
            Ok(Err(e)) => return Err(format!("read: {e}")),
            Err(_) => {
                if out.is_empty() {
                    return Err("no response and connection left open".to_string());
                }
            }
        }
        srv.abort();
        Ok(out)
    })?;
    // parse status line + headers
    let head_end = resp.windows(4).position(|w| w == b"\r\n\r\n").ok_or_else(|| format!("unparsable response {:?}", String::from_utf8_lossy(&resp)))?;
    let head = &resp[..head_end];
    let mut lines = head.split(|b| *b == b'\n').map(|l| l.strip_suffix(b"\r").unwrap_or(l));
    let status_line = lines.next().unwrap_or_default();
    let status: u16 = std::str::from_utf8(status_line).ok().and_then(|s| s.split(' ').nth(1)).and_then(|s| s.parse().ok()).ok_or("bad status line")?;
    let mut got = Vec::new();
    for l in lines {
        if let Some(i) = l.iter().position(|b| *b == b':') {
            if l[..i].eq_ignore_ascii_case(RESPONSE.as_bytes()) {
                got.push(trim_ows(&l[i + 1..]).to_vec());
            }
        }
    }
    let legal = ch.is_none_or(|c| c.iter().all(|b| legal_field_byte(*b)));
    if !legal {
        // not a field value at all (outside the quantifier): the server may refuse the request; it must not echo anything
        // that is not a well-formed challenge
        if status != 204 && status != 400 {
            return Err(format!("status {status} for a request with an illegal header byte"));
        }
        for g in &got {
            let ok = g.strip_prefix(b"response ").is_some_and(|v| ref_echo(Some(v)).is_some());
            if !ok {
                return Err(format!("echoed {:?}", String::from_utf8_lossy(g)));
            }
        }
        return Ok(("http illegal-field-byte".into(), format!("{status}{}", if got.is_empty() { "" } else { " + echo of a well-formed prefix" })));
    }
    if status != 204 {
        return Err(format!("status {status} instead of 204"));
    }
    // HTTP strips optional whitespace around a field value; accept the rule applied to the raw or the stripped value
    let mut allowed = vec![ref_echo(ch)];
    if let Some(c) = ch {
        let t = trim_ows(c);
        if t != c {
            allowed.push(ref_echo(Some(t)));
        }
    }
    let padded = allowed.len() > 1;
    judge(&format!("http {}{}", class_of(ch.map(trim_ows)), if padded { " (whitespace-padded)" } else { "" }), &allowed, &got)
}

fn run_case(ctx: &Ctx, case: &Case) {
    let r = quiet_catch(|| match case {
        Case::Direct { hex } => run_direct(hex.as_ref().map(|h| unhex(h)).as_deref()),
        Case::Http { hex, lower_name } => run_http(hex.as_ref().map(|h| unhex(h)).as_deref(), *lower_name),
    });
    match r {
        Ok(Ok((class, outcome))) => ctx.eval(&class, &outcome),
        Ok(Err(msg)) => ctx.discrepancy(None, &msg, case),
        Err(p) => ctx.discrepancy(None, &format!("panic: {p}"), case),
    }
}

/// a well-formed challenge of the given length using every class of valid character
fn base(len: usize) -> Vec<u8> {
    b"aZ0.-_mQ7".iter().copied().cycle().take(len).collect()
}

fn gen_cases(ctx: &Ctx) -> Vec<Case> {
    let mut cases = Vec::new();
    let header_bytes: Vec<u8> = (0u8..=255).filter(|b| *b == b'\t' || (0x20..=0x7e).contains(b) || *b >= 0x80).collect(); // what http::HeaderValue admits
    cases.push(Case::Direct { hex: None });
    // every length, all characters valid
    for len in 0..=80 {
        cases.push(Case::Direct { hex: Some(hex(&base(len))) });
    }
    // every length x position x every header byte (others valid); quick: first / middle / last position only
    for len in 1..=80usize {
        let positions: Vec<usize> = if ctx.thorough() { (0..len).collect() } else { vec![0, len / 2, len - 1] };
        let mut last = usize::MAX;
        for pos in positions {
            if pos == last {
                continue;
            }
            last = pos;
            for &b in &header_bytes {
                let mut c = base(len);
                if c[pos] != b {
                    c[pos] = b;
                    cases.push(Case::Direct { hex: Some(hex(&c)) });
                }
            }
        }
    }
    // all 1- and 2-byte values
    for &a in &header_bytes {
        cases.push(Case::Direct { hex: Some(hex(&[a])) });
        for &b in &header_bytes {
            cases.push(Case::Direct { hex: Some(hex(&[a, b])) });
        }
    }
    ctx.bound("direct_cases", cases.len());
    // ---- through the served HTTP service ----
    let n0 = cases.len();
    cases.push(Case::Http { hex: None, lower_name: false });
    for len in 0..=80 {
        cases.push(Case::Http { hex: Some(hex(&base(len))), lower_name: len % 2 == 1 });
    }
    for b in 0u8..=255 {
        // includes bytes that are not legal in a field value
        cases.push(Case::Http { hex: Some(hex(&[b])), lower_name: false });
        cases.push(Case::Http { hex: Some(hex(&[b'a', b])), lower_name: true });
        cases.push(Case::Http { hex: Some(hex(&[b, b'a'])), lower_name: false });
        cases.push(Case::Http { hex: Some(hex(&[b'a', b, b'Z'])), lower_name: false });
    }
    let lens: Vec<usize> = if ctx.thorough() { (1..=80).collect() } else { vec![62, 63, 64, 65] };
    for len in lens {
        for pos in [0, len / 2, len - 1] {
            let vals: Vec<u8> = if ctx.thorough() { (0..=255).collect() } else { vec![b' ', b'\t', b'/', b':', b'@', b'[', b'`', b'{', b'~', 0x80, 0xe9, 0xff, b',', b'+'] };
            for b in vals {
                let mut c = base(len);
                c[pos] = b;
                cases.push(Case::Http { hex: Some(hex(&c)), lower_name: false });
            }
        }
    }
    ctx.bound("http_cases", cases.len() - n0);
    cases
}

fn main() {
    let ctx = Ctx::from_args("C13", Level::Exploration);
    ctx.set_rule("Direct (real handler): header absent; every length 0..=80 with all characters valid; every length 1..=80 x position (quick: first/middle/last, thorough: every) x every byte an http::HeaderValue admits (224) with the other characters valid; all 1- and 2-byte values. Http (real CaptivePortalService served by hyper over an in-memory pipe, raw request bytes): absent, every length 0..=80, every byte value 0..=255 alone / before / after / between valid characters, boundary lengths x positions x byte menu (thorough: every length x 3 positions x 256); distinct = (path, character class, length class) x (echo | no header | status)");
    ctx.assume("Http path: a byte that is not legal in an HTTP field value is outside the quantifier (400 accepted, no ill-formed echo); optional whitespace around a field value may or may not be stripped before the rule applies");
    ctx.min_outcomes(14);
    if let Some(c) = ctx.replay_case::<Case>() {
        run_case(&ctx, &c);
        ctx.finish();
    }
    let cases = gen_cases(&ctx);
    for c in cases.iter().step_by((cases.len() / 11).max(1)) {
        ctx.sample(&format!("{c:?}").chars().take(48).collect::<String>(), c);
    }
    par_for_each(&cases, |c| run_case(&ctx, c));
    ctx.finish();
}
