//! C03 Relay handshake admits an identity only with proof of its secret key — E1 over the
//! adversary's strategy tree (header -> [challenge] -> frames -> decision), every leaf an
//! execution of the real `handshake::serverside` + `SuccessfulAuthentication::authorize_with`
//! (exactly the two calls `http_server.rs::accept` makes) over a harness frame-level stream.
//! The honest side is the real `handshake::clientside` + the real header constructor.
use bytes::Bytes;
use iroh_base::{PublicKey, SecretKey};
use iroh_relay::{
    ExportKeyingMaterial,
    http::{CLIENT_AUTH_HEADER, ProtocolVersion},
    protos::handshake::{self, Mechanism},
    server::{Access, AccessControl, ClientRequest, DynAccessControl},
};
use n0_error::{AnyError, anyerr};
use n0_future::{Sink, Stream};
use serde::{Deserialize, Serialize};
use std::collections::{BTreeSet, VecDeque};
use std::future::Future;
use std::pin::Pin;
use std::sync::{Arc, Mutex};
use std::task::{Context, Poll, Waker};
use vh_engine::*;

// ---------- protocol constants as published by the protocol (written down independently) ----------
const LABEL: &[u8] = b"iroh-relay handshake v1";
const CHALLENGE_DOMAIN: &str = "iroh-relay handshake v1 challenge signature";
const TAG_CHALLENGE: u8 = 0;
const TAG_CLIENT_AUTH: u8 = 1;
const TAG_CONFIRM: u8 = 2;
const TAG_DENY: u8 = 3;

/// Keying-material secrets of "TLS sessions": S_THIS is this session's (what the server exports
/// when it can export at all), S_OTHER belongs to some other session.
const S_THIS: u64 = 0x5151_0001;
const S_OTHER: u64 = 0x5151_0002;

/// Harness model of the RFC 5705 exporter: a PRF of (session secret, label, context).
fn tls_export(secret: u64, label: &[u8], context: Option<&[u8]>, out: &mut [u8]) {
    let key: [u8; 32] = blake3::hash(&secret.to_le_bytes()).into();
    let mut h = blake3::Hasher::new_keyed(&key);
    h.update(&(label.len() as u64).to_le_bytes());
    h.update(label);
    match context {
        Some(c) => {
            h.update(&[1]);
            h.update(&(c.len() as u64).to_le_bytes());
            h.update(c);
        }
        None => {
            h.update(&[0]);
        }
    }
    h.finalize_xof().fill(out);
}
fn km32(secret: u64, ctx: &PublicKey) -> [u8; 32] {
    let mut out = [0u8; 32];
    tls_export(secret, LABEL, Some(ctx.as_bytes()), &mut out);
    out
}

#[derive(Serialize, Deserialize, Clone, Copy, Debug, PartialEq, Eq, PartialOrd, Ord)]
enum Who {
    /// the victim identity (the adversary does not hold its secret; the harness does, to model
    /// signatures of K that exist elsewhere: other sessions, other messages)
    K,
    /// the adversary's own identity
    A,
}
impl Who {
    fn other(self) -> Who {
        if self == Who::K { Who::A } else { Who::K }
    }
}
fn secret(w: Who) -> SecretKey {
    SecretKey::from_bytes(&[if w == Who::K { 0x11 } else { 0x22 }; 32])
}
fn who_of(k: &PublicKey) -> Option<Who> {
    [Who::K, Who::A].into_iter().find(|w| &secret(*w).public() == k)
}

#[derive(Serialize, Deserialize, Clone, Copy, Debug, PartialEq, Eq)]
enum Sess {
    This,
    Other,
}
impl Sess {
    fn secret(self) -> u64 {
        if self == Sess::This { S_THIS } else { S_OTHER }
    }
}

/// What the signature in an item is made over.
#[derive(Serialize, Deserialize, Clone, Copy, Debug, PartialEq, Eq)]
enum Msg {
    /// derive_key(domain, the challenge the server sent in this session)
    ThisChallenge,
    /// derive_key(domain, a challenge of another session)
    StaleChallenge,
    /// the 16 raw challenge bytes of this session (no domain separation)
    RawChallenge,
    /// first 16 bytes of the keying material of session `sess` exported with context `ctx`
    Km { sess: Sess, ctx_claimed: bool },
    Empty,
}

#[derive(Serialize, Deserialize, Clone, Copy, Debug, PartialEq, Eq)]
enum Suffix {
    Km { sess: Sess, ctx_claimed: bool },
    Zero,
}

#[derive(Serialize, Deserialize, Clone, Copy, Debug, PartialEq, Eq)]
enum HdrEnc {
    Exact,
    /// extra byte after the postcard struct, then base64url
    TrailingByte,
    /// last byte of the postcard struct removed
    Truncated,
    /// '=' padding appended to the base64url text
    Padded,
    /// '!' appended
    BadChar,
    /// standard base64 alphabet (+ /) instead of url-safe
    StdAlphabet,
    /// signature length prefix 65 (+1 byte)
    SigLen65,
}

#[derive(Serialize, Deserialize, Clone, Debug, PartialEq, Eq)]
enum HeaderSpec {
    None,
    Auth { claimed: Who, signer: Who, msg: Msg, suffix: Suffix, enc: HdrEnc },
    /// literal header bytes (hex)
    Raw(String),
}

#[derive(Serialize, Deserialize, Clone, Copy, Debug, PartialEq, Eq)]
enum Mutn {
    None,
    DropLast,
    ExtraByte,
    SigLen63,
    SigLen65,
    KeyNotPoint,
}

#[derive(Serialize, Deserialize, Clone, Debug, PartialEq, Eq)]
enum FrameSpec {
    /// frame = tag bytes ++ postcard(ClientAuth{claimed, sign(signer, msg)}) with a mutation
    Auth { tag: Vec<u8>, claimed: Who, signer: Who, msg: Msg, mutn: Mutn },
    /// literal frame bytes (hex)
    Raw(String),
    Eof,
    StreamError,
    /// the client sends nothing (the server must keep waiting, not admit)
    Silent,
}

#[derive(Serialize, Deserialize, Clone, Debug, PartialEq, Eq)]
enum Decision {
    Allow,
    Deny(Option<String>),
}

#[derive(Serialize, Deserialize, Clone, Copy, Debug, PartialEq, Eq)]
enum ClientKm {
    Same,
    Different,
    Unavailable,
}

#[derive(Serialize, Deserialize, Clone, Debug)]
enum Case {
    /// scripted adversary against the real server side
    Adv { server_km: bool, header: HeaderSpec, frames: Vec<FrameSpec>, decision: Decision, sink_fail_at: Option<usize> },
    /// real client (`clientside` + real header) against the real server side
    Honest { key: Who, client_km: ClientKm, server_km: bool, strip_header: bool, decision: Decision },
    /// session 1: real client K in another session (keying material S_OTHER, own challenge);
    /// session 2: the adversary replays what K sent (header and/or ClientAuth frame)
    Replay { server_km: bool, replay_header: bool, replay_frame: bool },
}

// ---------- harness streams ----------
fn poll_now<F: Future>(f: F) -> Option<F::Output> {
    let mut f = std::pin::pin!(f);
    match f.as_mut().poll(&mut Context::from_waker(Waker::noop())) {
        Poll::Ready(v) => Some(v),
        Poll::Pending => None,
    }
}

/// Server-side view of a connection whose peer is the scripted adversary.
struct AdvIo {
    km: Option<u64>,
    written: Vec<Bytes>,
    pending_send: Option<Bytes>,
    script: VecDeque<FrameSpec>,
    sink_fail_at: Option<usize>,
    sink_failed: bool,
    reads: Vec<FrameSpec>,
    /// bytes captured in a previous session (Replay cases)
    replay_frame: Option<Bytes>,
}
impl AdvIo {
    fn new(km: Option<u64>, script: &[FrameSpec], sink_fail_at: Option<usize>) -> Self {
        AdvIo { km, written: vec![], pending_send: None, script: script.iter().cloned().collect(), sink_fail_at, sink_failed: false, reads: vec![], replay_frame: None }
    }
    fn challenge(&self) -> Option<[u8; 16]> {
        self.written.iter().rev().find(|f| f.len() == 17 && f[0] == TAG_CHALLENGE).map(|f| f[1..17].try_into().unwrap())
    }
}
impl ExportKeyingMaterial for AdvIo {
    fn export_keying_material<T: AsMut<[u8]>>(&self, mut output: T, label: &[u8], context: Option<&[u8]>) -> Option<T> {
        tls_export(self.km?, label, context, output.as_mut());
        Some(output)
    }
}
impl Stream for AdvIo {
    type Item = Result<Bytes, AnyError>;
    fn poll_next(mut self: Pin<&mut Self>, _cx: &mut Context<'_>) -> Poll<Option<Self::Item>> {
        let Some(spec) = self.script.pop_front() else {
            return Poll::Ready(None);
        };
        self.reads.push(spec.clone());
        match &spec {
            FrameSpec::Eof => Poll::Ready(None),
            FrameSpec::StreamError => Poll::Ready(Some(Err(anyerr!("scripted stream error")))),
            FrameSpec::Silent => {
                self.script.push_front(FrameSpec::Silent);
                self.reads.pop();
                Poll::Pending
            }
            FrameSpec::Raw(h) if h == "replay" => Poll::Ready(Some(Ok(self.replay_frame.clone().unwrap_or_default()))),
            other => Poll::Ready(Some(Ok(Bytes::from(build_frame(other, self.challenge(), self.km))))),
        }
    }
}
impl Sink<Bytes> for AdvIo {
    type Error = AnyError;
    fn poll_ready(self: Pin<&mut Self>, _cx: &mut Context<'_>) -> Poll<Result<(), AnyError>> {
        Poll::Ready(Ok(()))
    }
    fn start_send(mut self: Pin<&mut Self>, item: Bytes) -> Result<(), AnyError> {
        if self.sink_fail_at == Some(self.written.len()) {
            self.sink_failed = true;
            return Err(anyerr!("scripted sink error"));
        }
        self.pending_send = Some(item.clone());
        self.written.push(item);
        Ok(())
    }
    fn poll_flush(mut self: Pin<&mut Self>, _cx: &mut Context<'_>) -> Poll<Result<(), AnyError>> {
        self.pending_send = None;
        Poll::Ready(Ok(()))
    }
    fn poll_close(self: Pin<&mut Self>, _cx: &mut Context<'_>) -> Poll<Result<(), AnyError>> {
        Poll::Ready(Ok(()))
    }
}

/// One end of an in-memory frame pipe (honest runs).
struct ChanIo {
    km: Option<u64>,
    rx: tokio::sync::mpsc::UnboundedReceiver<Bytes>,
    tx: tokio::sync::mpsc::UnboundedSender<Bytes>,
    sent: Arc<Mutex<Vec<Bytes>>>,
}
fn chan_pair(km_a: Option<u64>, km_b: Option<u64>) -> (ChanIo, ChanIo) {
    let (t1, r1) = tokio::sync::mpsc::unbounded_channel();
    let (t2, r2) = tokio::sync::mpsc::unbounded_channel();
    (
        ChanIo { km: km_a, rx: r1, tx: t2, sent: Default::default() },
        ChanIo { km: km_b, rx: r2, tx: t1, sent: Default::default() },
    )
}
impl ExportKeyingMaterial for ChanIo {
    fn export_keying_material<T: AsMut<[u8]>>(&self, mut output: T, label: &[u8], context: Option<&[u8]>) -> Option<T> {
        tls_export(self.km?, label, context, output.as_mut());
        Some(output)
    }
}
impl Stream for ChanIo {
    type Item = Result<Bytes, AnyError>;
    fn poll_next(mut self: Pin<&mut Self>, cx: &mut Context<'_>) -> Poll<Option<Self::Item>> {
        self.rx.poll_recv(cx).map(|o| o.map(Ok))
    }
}
impl Sink<Bytes> for ChanIo {
    type Error = AnyError;
    fn poll_ready(self: Pin<&mut Self>, _cx: &mut Context<'_>) -> Poll<Result<(), AnyError>> {
        Poll::Ready(Ok(()))
    }
    fn start_send(self: Pin<&mut Self>, item: Bytes) -> Result<(), AnyError> {
        self.sent.lock().unwrap().push(item.clone());
        self.tx.send(item).map_err(|_| anyerr!("peer gone"))
    }
    fn poll_flush(self: Pin<&mut Self>, _cx: &mut Context<'_>) -> Poll<Result<(), AnyError>> {
        Poll::Ready(Ok(()))
    }
    fn poll_close(self: Pin<&mut Self>, _cx: &mut Context<'_>) -> Poll<Result<(), AnyError>> {
        Poll::Ready(Ok(()))
    }
}

// ---------- adversary item construction (independent wire encoder) ----------
fn challenge_message(ch: &[u8; 16]) -> [u8; 32] {
    blake3::derive_key(CHALLENGE_DOMAIN, ch)
}
const STALE_CHALLENGE: [u8; 16] = [0x55; 16];
fn message_bytes(msg: Msg, claimed: Who, challenge: Option<[u8; 16]>) -> Vec<u8> {
    match msg {
        // before any challenge was sent the adversary can only guess one
        Msg::ThisChallenge => challenge_message(&challenge.unwrap_or([0; 16])).to_vec(),
        Msg::StaleChallenge => challenge_message(&STALE_CHALLENGE).to_vec(),
        Msg::RawChallenge => challenge.unwrap_or([0; 16]).to_vec(),
        Msg::Km { sess, ctx_claimed } => {
            let ctx = if ctx_claimed { claimed } else { claimed.other() };
            km32(sess.secret(), &secret(ctx).public())[..16].to_vec()
        }
        Msg::Empty => vec![],
    }
}
const NOT_A_POINT: [u8; 32] = {
    let mut b = [0u8; 32];
    b[0] = 2;
    b
};
/// postcard(ClientAuth): 32 key bytes, varint(64), 64 signature bytes
fn build_frame(spec: &FrameSpec, challenge: Option<[u8; 16]>, _km: Option<u64>) -> Vec<u8> {
    match spec {
        FrameSpec::Auth { tag, claimed, signer, msg, mutn } => {
            let sig = secret(*signer).sign(&message_bytes(*msg, *claimed, challenge)).to_bytes();
            let mut v = tag.clone();
            let key = if *mutn == Mutn::KeyNotPoint { NOT_A_POINT } else { *secret(*claimed).public().as_bytes() };
            v.extend_from_slice(&key);
            v.push(match mutn {
                Mutn::SigLen63 => 63,
                Mutn::SigLen65 => 65,
                _ => 64,
            });
            v.extend_from_slice(&sig);
            match mutn {
                Mutn::DropLast => {
                    v.pop();
                }
                Mutn::ExtraByte | Mutn::SigLen65 => v.push(0),
                _ => {}
            }
            v
        }
        FrameSpec::Raw(h) => unhex(h),
        _ => unreachable!(),
    }
}
/// base64url-nopad(postcard(KeyMaterialClientAuth)): 32 key bytes, varint(64), 64 sig bytes, 16 suffix bytes
fn build_header(spec: &HeaderSpec) -> Option<http::HeaderValue> {
    match spec {
        HeaderSpec::None => None,
        HeaderSpec::Raw(h) => Some(http::HeaderValue::from_bytes(&unhex(h)).expect("header menu must be valid header bytes")),
        HeaderSpec::Auth { claimed, signer, msg, suffix, enc } => {
            let sig = secret(*signer).sign(&message_bytes(*msg, *claimed, None)).to_bytes();
            let mut v = secret(*claimed).public().as_bytes().to_vec();
            v.push(if *enc == HdrEnc::SigLen65 { 65 } else { 64 });
            v.extend_from_slice(&sig);
            if *enc == HdrEnc::SigLen65 {
                v.push(0);
            }
            match suffix {
                Suffix::Zero => v.extend_from_slice(&[0; 16]),
                Suffix::Km { sess, ctx_claimed } => {
                    let ctx = if *ctx_claimed { *claimed } else { claimed.other() };
                    v.extend_from_slice(&km32(sess.secret(), &secret(ctx).public())[16..]);
                }
            }
            match enc {
                HdrEnc::TrailingByte => v.push(7),
                HdrEnc::Truncated => {
                    v.pop();
                }
                _ => {}
            }
            let mut s = if *enc == HdrEnc::StdAlphabet { data_encoding::BASE64_NOPAD.encode(&v) } else { data_encoding::BASE64URL_NOPAD.encode(&v) };
            match enc {
                HdrEnc::Padded => s.push('='),
                HdrEnc::BadChar => s.push('!'),
                _ => {}
            }
            Some(http::HeaderValue::from_str(&s).unwrap())
        }
    }
}

// ---------- reference model (from the statement) ----------
#[derive(Clone, Copy, PartialEq, Eq, Debug)]
enum Proof {
    /// carries a signature by the claimed key's secret over this session's challenge (as the
    /// protocol derives it) resp. this session's keying material bound to the claimed key
    Yes(Who),
    /// carries a signature by the claimed key's secret over this session's challenge / keying
    /// material in a form the statement does not exclude (raw challenge; key material presented on the
    /// challenge path): acceptance is neither required nor forbidden by the statement
    Tolerated(Who),
    No,
}
fn header_proof(h: &HeaderSpec, server_km: bool) -> Proof {
    match h {
        HeaderSpec::Auth { claimed, signer, msg: Msg::Km { sess: Sess::This, ctx_claimed: true }, .. } if server_km && claimed == signer => Proof::Yes(*claimed),
        _ => Proof::No,
    }
}
/// the header is byte-for-byte what a protocol-conforming client holding the key sends
fn header_wire_honest(h: &HeaderSpec, server_km: bool) -> Option<Who> {
    match h {
        HeaderSpec::Auth { claimed, suffix: Suffix::Km { sess: Sess::This, ctx_claimed: true }, enc: HdrEnc::Exact, .. } if header_proof(h, server_km) == Proof::Yes(*claimed) => Some(*claimed),
        _ => None,
    }
}
fn frame_proof(f: &FrameSpec, server_km: bool) -> Proof {
    match f {
        FrameSpec::Auth { claimed, signer, msg, .. } if claimed == signer => match msg {
            Msg::ThisChallenge => Proof::Yes(*claimed),
            Msg::RawChallenge => Proof::Tolerated(*claimed),
            Msg::Km { sess: Sess::This, ctx_claimed: true } if server_km => Proof::Tolerated(*claimed),
            _ => Proof::No,
        },
        _ => Proof::No,
    }
}
fn frame_wire_honest(f: &FrameSpec) -> Option<Who> {
    match f {
        FrameSpec::Auth { tag, claimed, signer, msg: Msg::ThisChallenge, mutn: Mutn::None } if tag == &vec![TAG_CLIENT_AUTH] && claimed == signer => Some(*claimed),
        _ => None,
    }
}

// ---------- access control ----------
#[derive(Debug)]
struct Gate {
    decision: Decision,
    connects: Mutex<Vec<PublicKey>>,
    disconnects: Mutex<Vec<PublicKey>>,
}
impl AccessControl for Gate {
    async fn on_connect(&self, request: &ClientRequest) -> Access {
        self.connects.lock().unwrap().push(request.endpoint_id());
        match &self.decision {
            Decision::Allow => Access::Allow,
            Decision::Deny(r) => Access::Deny { reason: r.clone() },
        }
    }
    fn on_disconnect(&self, endpoint_id: iroh_base::EndpointId, _c: iroh_relay::server::ConnectionId) {
        self.disconnects.lock().unwrap().push(endpoint_id);
    }
}

/// What the server side did, as observed through public results.
#[derive(Debug)]
struct ServerObs {
    authn: Result<(PublicKey, Mechanism), String>,
    /// None when authentication failed; Some(admitted?)
    admitted: Option<Result<PublicKey, String>>,
    connects: Vec<PublicKey>,
}

/// The two calls of `http_server.rs::accept`, verbatim in order.
async fn server_side(io: &mut (impl iroh_relay::protos::streams::BytesStreamSink + ExportKeyingMaterial), header: Option<http::HeaderValue>, gate: Arc<Gate>) -> ServerObs {
    let mut req = http::Request::builder().uri("/relay");
    if let Some(h) = header {
        req = req.header(CLIENT_AUTH_HEADER, h);
    }
    let (parts, ()) = req.body(()).unwrap().into_parts();
    let client_auth_header = parts.headers.get(CLIENT_AUTH_HEADER).cloned();
    let authentication = match handshake::serverside(io, client_auth_header).await {
        Ok(a) => a,
        Err(e) => return ServerObs { authn: Err(format!("{e:?}")), admitted: None, connects: gate.connects.lock().unwrap().clone() },
    };
    let authn = (authentication.client_key, authentication.mechanism);
    let request = ClientRequest::new(authentication.client_key, ProtocolVersion::V2, parts);
    let access: Arc<dyn DynAccessControl> = gate.clone();
    let admitted = match authentication.authorize_with(&request, &access, io).await {
        Ok(guard) => Ok(guard.endpoint_id()),
        Err(e) => Err(format!("{e:?}")),
    };
    ServerObs { authn: Ok(authn), admitted: Some(admitted), connects: gate.connects.lock().unwrap().clone() }
}

fn parse_deny(f: &Bytes) -> Option<String> {
    if f.first() != Some(&TAG_DENY) || f.len() < 2 {
        return None;
    }
    let n = f[1] as usize;
    if n >= 128 || f.len() != 2 + n {
        return None;
    }
    String::from_utf8(f[2..].to_vec()).ok()
}
fn is_confirm(f: &Bytes) -> bool {
    f.as_ref() == [TAG_CONFIRM]
}

fn mech(m: Mechanism) -> &'static str {
    match m {
        Mechanism::SignedChallenge => "challenge",
        Mechanism::SignedKeyMaterial => "key-material",
        _ => "other",
    }
}

/// Common oracle clauses on what the server wrote / decided. Returns Err(description) on a breach.
fn check_decision(obs: &ServerObs, written: &[Bytes], decision: &Decision, sink_ok: bool) -> Result<&'static str, String> {
    let confirms = written.iter().filter(|f| is_confirm(f)).count();
    let denies: Vec<String> = written.iter().filter_map(parse_deny).collect();
    match (&obs.authn, &obs.admitted) {
        (Err(_), _) => {
            if confirms > 0 {
                return Err("a confirmation frame was written although authentication failed".into());
            }
            if !obs.connects.is_empty() {
                return Err("access control consulted for an unauthenticated client".into());
            }
            Ok("unauthenticated")
        }
        (Ok((key, _)), Some(adm)) => {
            if obs.connects.as_slice() != [*key] {
                return Err(format!("access control consulted {:?}, expected exactly once with the authenticated key", obs.connects.len()));
            }
            match decision {
                Decision::Deny(reason) => {
                    if adm.is_ok() {
                        return Err("authorization was denied but the connection was admitted".into());
                    }
                    if confirms > 0 {
                        return Err("authorization was denied but a confirmation frame was written".into());
                    }
                    if sink_ok {
                        if denies.len() != 1 {
                            return Err(format!("authorization denial not reported to the client ({} denial frames)", denies.len()));
                        }
                        if let Some(r) = reason {
                            if &denies[0] != r {
                                return Err(format!("denial reason {:?} reported as {:?}", r, denies[0]));
                            }
                        }
                    }
                    Ok("denied")
                }
                Decision::Allow => {
                    match adm {
                        Ok(k) => {
                            if k != key {
                                return Err("admitted under a different key than authenticated".into());
                            }
                            if confirms != 1 || !denies.is_empty() {
                                return Err("admitted without exactly one confirmation frame / with a denial frame".into());
                            }
                            Ok("admitted")
                        }
                        Err(_) => {
                            // the statement requires admission only of the honest client; with a failing
                            // sink the confirmation cannot be delivered
                            if sink_ok {
                                return Err("authenticated and allowed, stream healthy, yet not admitted".into());
                            }
                            Ok("allowed-but-sink-failed")
                        }
                    }
                }
            }
        }
        (Ok(_), None) => unreachable!(),
    }
}

fn run_adv(ctx: &Ctx, case: &Case, server_km: bool, header: &HeaderSpec, frames: &[FrameSpec], decision: &Decision, sink_fail_at: Option<usize>, replay: Option<(Option<http::HeaderValue>, Option<Bytes>)>) {
    let gate = Arc::new(Gate { decision: decision.clone(), connects: Default::default(), disconnects: Default::default() });
    let mut io = AdvIo::new(server_km.then_some(S_THIS), frames, sink_fail_at);
    let mut hv = build_header(header);
    if let Some((h, f)) = replay {
        if h.is_some() {
            hv = h;
        }
        io.replay_frame = f;
    }
    let res = quiet_catch(|| poll_now(server_side(&mut io, hv, gate.clone())));
    let obs = match res {
        Err(p) => return ctx.discrepancy(None, &format!("server side panicked: {p}"), case),
        Ok(None) => {
            // the server is waiting for the client: legitimate only if the client is silent
            let silent = io.script.front() == Some(&FrameSpec::Silent);
            if !silent {
                return ctx.discrepancy(None, "server side pending although the client stream never pends", case);
            }
            if io.written.iter().any(is_confirm) || !gate.connects.lock().unwrap().is_empty() {
                return ctx.discrepancy(None, "silent client was confirmed / passed to access control", case);
            }
            ctx.add_transitions(io.written.len() as u64 + 1);
            return ctx.eval("adv:silent-client", "server keeps waiting, nothing admitted");
        }
        Ok(Some(o)) => o,
    };
    ctx.add_transitions((io.written.len() + io.reads.len()) as u64 + 1);
    let first_read = io.reads.first().cloned();
    let sink_ok = !io.sink_failed;

    let hp = header_proof(header, server_km);
    let fp = first_read.as_ref().map(|f| frame_proof(f, server_km)).unwrap_or(Proof::No);
    let is_replay = matches!(case, Case::Replay { .. });
    // --- soundness: authenticated as key => proof of key's secret over this session ---
    let class;
    match &obs.authn {
        Ok((key, m)) => {
            let Some(w) = who_of(key) else {
                return ctx.discrepancy(None, &format!("authenticated as an unknown key {key}"), case);
            };
            match m {
                Mechanism::SignedKeyMaterial => {
                    if is_replay || hp != Proof::Yes(w) {
                        return ctx.discrepancy(None, &format!("authenticated as {w:?} via key material without a signature by {w:?}'s secret over this session's keying material bound to {w:?}"), case);
                    }
                    if !io.written.iter().all(|f| f.first() != Some(&TAG_CHALLENGE)) {
                        return ctx.discrepancy(None, "key-material path but a challenge was sent", case);
                    }
                    class = format!("header proof by {w:?}");
                }
                Mechanism::SignedChallenge => {
                    if io.challenge().is_none() {
                        return ctx.discrepancy(None, "challenge mechanism reported but no challenge was sent", case);
                    }
                    match fp {
                        Proof::Yes(x) if x == w && !is_replay => class = format!("frame proof by {w:?}"),
                        Proof::Tolerated(x) if x == w && !is_replay => class = format!("frame signed by {w:?} over this session in a non-protocol form (statement-neutral)"),
                        _ => {
                            return ctx.discrepancy(None, &format!("authenticated as {w:?} via challenge without a signature by {w:?}'s secret over this session's challenge"), case);
                        }
                    }
                }
                _ => return ctx.discrepancy(None, "unknown mechanism", case),
            }
        }
        Err(_) => {
            // wire-level completeness: an item identical to what a conforming client sends must pass
            if !is_replay {
                if let Some(w) = header_wire_honest(header, server_km) {
                    return ctx.discrepancy(None, &format!("header carrying a valid proof for {w:?} in the protocol's wire form was rejected"), case);
                }
                let challenge_written = io.challenge().is_some();
                if let (Some(f), true) = (&first_read, challenge_written) {
                    if let Some(w) = frame_wire_honest(f) {
                        return ctx.discrepancy(None, &format!("ClientAuth frame carrying a valid proof for {w:?} in the protocol's wire form was rejected"), case);
                    }
                }
            }
            class = match (hp, fp) {
                (Proof::No, Proof::No) => "no proof".to_string(),
                (Proof::Yes(_), _) => "header proof in a non-wire form".to_string(),
                (_, Proof::Yes(_)) => "frame proof in a non-wire form or not reached".to_string(),
                _ => "statement-neutral item".to_string(),
            };
        }
    }
    // wire-honest header must select the key-material path
    if !is_replay {
        if let (Some(w), Ok((k, m))) = (header_wire_honest(header, server_km), &obs.authn) {
            if who_of(k) != Some(w) || *m != Mechanism::SignedKeyMaterial {
                return ctx.discrepancy(None, "valid key-material header did not authenticate via the key-material path", case);
            }
        }
    }
    // --- authorization clauses ---
    match check_decision(&obs, &io.written, decision, sink_ok) {
        Err(e) => ctx.discrepancy(None, &e, case),
        Ok(d) => {
            let out = match &obs.authn {
                Ok((_, m)) => format!("authenticated via {} -> {d}", mech(*m)),
                Err(_) => "rejected".to_string(),
            };
            let pre = if is_replay { "replay" } else { "adv" };
            ctx.eval(&format!("{pre}:{class}"), &out)
        }
    }
}

fn run_honest(ctx: &Ctx, case: &Case, key: Who, client_km: ClientKm, server_km: bool, strip_header: bool, decision: &Decision) -> Option<(Option<http::HeaderValue>, Vec<Bytes>)> {
    let sk = secret(key);
    let ckm = match client_km {
        ClientKm::Same => Some(S_THIS),
        ClientKm::Different => Some(S_OTHER),
        ClientKm::Unavailable => None,
    };
    let (mut cio, mut sio) = chan_pair(ckm, server_km.then_some(S_THIS));
    let client_sent = cio.sent.clone();
    let server_sent = sio.sent.clone();
    let header = iroh_relay::verif::c03::client_auth_header(&sk, &cio);
    if header.is_some() != ckm.is_some() {
        ctx.discrepancy(None, "client attaches a key-material header iff it can export keying material: violated", case);
        return None;
    }
    let delivered = if strip_header { None } else { header.clone() };
    let gate = Arc::new(Gate { decision: decision.clone(), connects: Default::default(), disconnects: Default::default() });
    let rt = tokio::runtime::Builder::new_current_thread().enable_all().start_paused(true).build().unwrap();
    let g2 = gate.clone();
    let res = quiet_catch(|| {
        rt.block_on(async {
            let both = async {
                let c = async {
                    let r = iroh_relay::verif::c03::clientside(&mut cio, &sk).await;
                    r
                };
                let s = async {
                    let r = server_side(&mut sio, delivered, g2).await;
                    // keep the server's stream alive until the client is done reading
                    r
                };
                tokio::join!(c, s)
            };
            tokio::time::timeout(std::time::Duration::from_secs(3600), both).await
        })
    });
    let (cres, obs) = match res {
        Err(p) => {
            ctx.discrepancy(None, &format!("honest run panicked: {p}"), case);
            return None;
        }
        Ok(Err(_)) => {
            ctx.discrepancy(None, "honest handshake does not terminate (deadlock under the paused clock)", case);
            return None;
        }
        Ok(Ok(v)) => v,
    };
    let written = server_sent.lock().unwrap().clone();
    ctx.add_transitions((written.len() + client_sent.lock().unwrap().len()) as u64 + 1);
    let want_mech = if !strip_header && server_km && client_km == ClientKm::Same { Mechanism::SignedKeyMaterial } else { Mechanism::SignedChallenge };
    match &obs.authn {
        Ok((k, m)) if *k == sk.public() && *m == want_mech => {}
        other => {
            ctx.discrepancy(None, &format!("honest client holding {key:?}: expected authentication as {key:?} via {}, server reported {other:?}", mech(want_mech)), case);
            return None;
        }
    }
    match check_decision(&obs, &written, decision, true) {
        Err(e) => {
            ctx.discrepancy(None, &format!("honest client: {e}"), case);
            return None;
        }
        Ok(d) => {
            // what the client concluded
            let cl = match (&cres, decision) {
                (Ok(()), Decision::Allow) => "client confirmed",
                (Err(handshake::Error::ServerDeniedAuth { reason, .. }), Decision::Deny(r)) => {
                    if let Some(r) = r {
                        if r != reason {
                            ctx.discrepancy(None, &format!("client was told reason {reason:?}, access control said {r:?}"), case);
                            return None;
                        }
                    }
                    "client told of denial"
                }
                (c, _) => {
                    ctx.discrepancy(None, &format!("honest client concluded {c:?} under decision {decision:?}"), case);
                    return None;
                }
            };
            ctx.eval(&format!("honest:{}", if want_mech == Mechanism::SignedKeyMaterial { "same keying material" } else { "no common keying material" }), &format!("authenticated via {} -> {d}, {cl}", mech(want_mech)));
        }
    }
    Some((header, client_sent.lock().unwrap().clone()))
}

fn run_case(ctx: &Ctx, case: &Case) {
    ctx.add_traces(1);
    match case {
        Case::Adv { server_km, header, frames, decision, sink_fail_at } => run_adv(ctx, case, *server_km, header, frames, decision, *sink_fail_at, None),
        Case::Honest { key, client_km, server_km, strip_header, decision } => {
            run_honest(ctx, case, *key, *client_km, *server_km, *strip_header, decision);
        }
        Case::Replay { server_km, replay_header, replay_frame } => {
            // session 1: the real client K in another TLS session (client exports S_OTHER): it sends its
            // key-material header and, after the server's fallback, a ClientAuth over challenge #1.
            let first = run_honest(ctx, case, Who::K, ClientKm::Different, *server_km, false, &Decision::Allow);
            let Some((hdr, sent)) = first else { return };
            let frame = sent.iter().find(|f| f.first() == Some(&TAG_CLIENT_AUTH)).cloned();
            if frame.is_none() || hdr.is_none() {
                return ctx.discrepancy(None, "session 1 of the replay scenario produced no header / ClientAuth frame to replay", case);
            }
            ctx.add_traces(1);
            let frames = if *replay_frame { vec![FrameSpec::Raw("replay".into())] } else { vec![FrameSpec::Eof] };
            run_adv(ctx, case, *server_km, &HeaderSpec::None, &frames, &Decision::Allow, None, Some((if *replay_header { hdr } else { None }, frame)));
        }
    }
}

// ---------- menus ----------
fn header_menu() -> Vec<HeaderSpec> {
    let mut v = vec![HeaderSpec::None];
    let msgs = [
        Msg::Km { sess: Sess::This, ctx_claimed: true },
        Msg::Km { sess: Sess::This, ctx_claimed: false },
        Msg::Km { sess: Sess::Other, ctx_claimed: true },
        Msg::StaleChallenge,
        Msg::Empty,
    ];
    let sufs = [
        Suffix::Km { sess: Sess::This, ctx_claimed: true },
        Suffix::Km { sess: Sess::This, ctx_claimed: false },
        Suffix::Km { sess: Sess::Other, ctx_claimed: true },
        Suffix::Zero,
    ];
    for claimed in [Who::K, Who::A] {
        for signer in [Who::K, Who::A] {
            for msg in msgs {
                for suffix in sufs {
                    v.push(HeaderSpec::Auth { claimed, signer, msg, suffix, enc: HdrEnc::Exact });
                }
            }
        }
        for enc in [HdrEnc::TrailingByte, HdrEnc::Truncated, HdrEnc::Padded, HdrEnc::BadChar, HdrEnc::StdAlphabet, HdrEnc::SigLen65] {
            v.push(HeaderSpec::Auth { claimed, signer: claimed, msg: msgs[0], suffix: sufs[0], enc });
        }
    }
    for raw in ["", "09", "2d2d2d", "ff", "41414141", "20"] {
        v.push(HeaderSpec::Raw(raw.into()));
    }
    v
}
fn tag_menu() -> Vec<Vec<u8>> {
    let mut t: Vec<Vec<u8>> = (0u8..=13).map(|x| vec![x]).collect();
    t.extend([
        vec![14],
        vec![63],
        vec![0x40, 0x01],
        vec![0x40, 0x40],
        vec![0x80, 0, 0, 1],
        vec![0xc0, 0, 0, 0, 0, 0, 0, 1],
        vec![0xc0, 0xff, 0xff, 0xff, 0xff, 0xff, 0xff, 0xff],
    ]);
    t
}
fn frame_menu() -> Vec<FrameSpec> {
    let mut v = Vec::new();
    let msgs = [Msg::ThisChallenge, Msg::StaleChallenge, Msg::RawChallenge, Msg::Km { sess: Sess::This, ctx_claimed: true }, Msg::Km { sess: Sess::Other, ctx_claimed: true }, Msg::Empty];
    for claimed in [Who::K, Who::A] {
        for signer in [Who::K, Who::A] {
            for msg in msgs {
                v.push(FrameSpec::Auth { tag: vec![TAG_CLIENT_AUTH], claimed, signer, msg, mutn: Mutn::None });
            }
        }
        for mutn in [Mutn::DropLast, Mutn::ExtraByte, Mutn::SigLen63, Mutn::SigLen65, Mutn::KeyNotPoint] {
            v.push(FrameSpec::Auth { tag: vec![TAG_CLIENT_AUTH], claimed, signer: claimed, msg: Msg::ThisChallenge, mutn });
        }
    }
    for tag in tag_menu() {
        if tag != vec![TAG_CLIENT_AUTH] {
            // the payload that would be accepted if the tag were ignored
            v.push(FrameSpec::Auth { tag, claimed: Who::K, signer: Who::K, msg: Msg::ThisChallenge, mutn: Mutn::None });
        }
    }
    for raw in ["", "01", "40", "0100", "02", "03"] {
        v.push(FrameSpec::Raw(raw.into()));
    }
    v.extend([FrameSpec::Eof, FrameSpec::StreamError, FrameSpec::Silent]);
    v
}
fn second_frame_menu() -> Vec<FrameSpec> {
    vec![
        FrameSpec::Auth { tag: vec![TAG_CLIENT_AUTH], claimed: Who::K, signer: Who::K, msg: Msg::ThisChallenge, mutn: Mutn::None },
        FrameSpec::Auth { tag: vec![TAG_CLIENT_AUTH], claimed: Who::A, signer: Who::A, msg: Msg::ThisChallenge, mutn: Mutn::None },
        FrameSpec::Auth { tag: vec![TAG_CLIENT_AUTH], claimed: Who::K, signer: Who::A, msg: Msg::ThisChallenge, mutn: Mutn::None },
        FrameSpec::Raw("02".into()),
        FrameSpec::Eof,
    ]
}
fn decisions() -> Vec<Decision> {
    vec![Decision::Allow, Decision::Deny(None), Decision::Deny(Some("go away".into()))]
}

fn gen_cases(ctx: &Ctx, prefixes: &mut BTreeSet<String>) -> Vec<Case> {
    let mut cases = Vec::new();
    let thorough = ctx.thorough();
    let headers = header_menu();
    let frames = frame_menu();
    let seconds = second_frame_menu();
    ctx.bound("header_menu", headers.len());
    ctx.bound("first_frame_menu", frames.len());
    ctx.bound("second_frame_menu", if thorough { seconds.len() } else { 0 });
    ctx.bound("decisions", 3);
    ctx.bound("sink_failure_points", "none, 1st server write, 2nd server write");
    for server_km in [true, false] {
        for h in &headers {
            for f in &frames {
                let mut seqs: Vec<Vec<FrameSpec>> = vec![vec![f.clone()]];
                if thorough && *f != FrameSpec::Silent {
                    for s in &seconds {
                        seqs.push(vec![f.clone(), s.clone()]);
                    }
                }
                for frames in seqs {
                    for d in decisions() {
                        for sink_fail_at in [None, Some(0), Some(1)] {
                            // second frames only with a healthy sink (keeps thorough within minutes)
                            if frames.len() == 2 && sink_fail_at.is_some() {
                                continue;
                            }
                            prefixes.insert(format!("{server_km}"));
                            prefixes.insert(format!("{server_km}/{h:?}"));
                            prefixes.insert(format!("{server_km}/{h:?}/{sink_fail_at:?}"));
                            prefixes.insert(format!("{server_km}/{h:?}/{sink_fail_at:?}/{:?}", frames[0]));
                            prefixes.insert(format!("{server_km}/{h:?}/{sink_fail_at:?}/{frames:?}"));
                            prefixes.insert(format!("{server_km}/{h:?}/{sink_fail_at:?}/{frames:?}/{d:?}"));
                            cases.push(Case::Adv { server_km, header: h.clone(), frames: frames.clone(), decision: d.clone(), sink_fail_at });
                        }
                    }
                }
            }
        }
    }
    for key in [Who::K, Who::A] {
        for client_km in [ClientKm::Same, ClientKm::Different, ClientKm::Unavailable] {
            for server_km in [true, false] {
                for strip_header in [false, true] {
                    for d in decisions() {
                        prefixes.insert(format!("honest/{key:?}/{client_km:?}/{server_km}/{strip_header}/{d:?}"));
                        cases.push(Case::Honest { key, client_km, server_km, strip_header, decision: d });
                    }
                }
            }
        }
    }
    for server_km in [true, false] {
        for (rh, rf) in [(true, false), (false, true), (true, true)] {
            prefixes.insert(format!("replay/{server_km}/{rh}/{rf}"));
            cases.push(Case::Replay { server_km, replay_header: rh, replay_frame: rf });
        }
    }
    cases
}

fn main() {
    let ctx = Ctx::from_args("C03", Level::ModelChecking);
    ctx.set_rule("every leaf of the adversary's strategy tree: server keying material {exportable, not} x client-auth header (none | {claimed K,A} x {signer K,A} x {signed message: this/other session keying material, bound to claimed/other key, stale challenge, empty} x {suffix right, other context, other session, zero} | 6 encodings damages | 6 literal values) x sink failure point {none, 1st, 2nd server write} x first frame ({claimed} x {signer} x {this challenge, stale challenge, raw challenge, this/other keying material, empty} | 5 encoding damages | 20 other frame tags incl. non-minimal varints | literal frames | EOF | stream error | silence) [x second frame, thorough] x decision {allow, deny, deny(reason)}; plus the real client x {same, different, no keying material} x server {exportable, not} x header {delivered, stripped} x decision; plus two-session replays of what the real client sent. Two cases are distinct when they differ in any of these choices; every case is one execution of the real serverside + authorize_with.");
    ctx.assume("TLS exporter modelled as a PRF of (session secret, label, context) (blake3); Ed25519 unforgeability is not checked, the oracle reasons about which secret produced each signature");
    ctx.assume("the server challenge is drawn from the real RNG and read back from the wire; a replayed signature is distinguished from a fresh one because two 128-bit challenges differ");
    ctx.min_outcomes(14);
    if let Some(c) = ctx.replay_case::<Case>() {
        run_case(&ctx, &c);
        ctx.finish();
    }
    let mut prefixes = BTreeSet::new();
    let cases = gen_cases(&ctx, &mut prefixes);
    ctx.add_states(prefixes.len() as u64);
    ctx.bound("cases", cases.len());
    for c in cases.iter().step_by((cases.len() / 9).max(1)) {
        ctx.sample(&format!("{c:?}").chars().take(60).collect::<String>(), c);
    }
    par_for_each(&cases, |c| run_case(&ctx, c));
    ctx.finish();
}
