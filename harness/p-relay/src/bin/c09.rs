//! C09 Relay per-client receive rate stays within the configured bucket — E1 (BFS over operation
//! histories with re-execution) under tokio's paused clock.
//!
//! Part A drives the real `RateLimited` reader (constructed exactly as `accept` does, through
//! `from_watcher`) over a scripted inner reader: ops = advance time / one `poll_read` / live
//! reconfiguration. Part B drives the public `Bucket` with extreme parameters.
use iroh_relay::server::ClientRateLimit;
use iroh_relay::verif::c09::{Bucket, Limited};
use serde::{Deserialize, Serialize};
use std::num::NonZeroU32;
use std::pin::Pin;
use std::sync::atomic::{AtomicU64, Ordering};
use std::sync::{Arc, Mutex};
use std::task::{Context, Poll, Wake, Waker};
use std::time::Duration;
use tokio::io::{AsyncRead, ReadBuf};
use tokio::time::Instant;
use vh_engine::*;

const PERIOD_MS: u64 = 100; // the relay's refill period
const MAX_CHUNK: u64 = 1 << 20;
static ZEROS: [u8; MAX_CHUNK as usize] = [0; MAX_CHUNK as usize];

// ---------------- scripted inner reader ----------------
#[derive(Debug, Default)]
struct InnerSt {
    ready: bool,
    polled: u64,
}
#[derive(Debug, Clone, Default)]
struct Inner(Arc<Mutex<InnerSt>>);
impl AsyncRead for Inner {
    fn poll_read(self: Pin<&mut Self>, _cx: &mut Context<'_>, buf: &mut ReadBuf<'_>) -> Poll<std::io::Result<()>> {
        let mut g = self.0.lock().unwrap();
        g.polled += 1;
        if g.ready {
            let n = buf.remaining();
            buf.put_slice(&ZEROS[..n]);
            Poll::Ready(Ok(()))
        } else {
            Poll::Pending
        }
    }
}
struct CountWaker(AtomicU64);
impl Wake for CountWaker {
    fn wake(self: Arc<Self>) {
        self.0.fetch_add(1, Ordering::SeqCst);
    }
}

// ---------------- configurations ----------------
#[derive(Serialize, Deserialize, Clone, Copy, Debug, PartialEq, Eq, Hash)]
struct Cfg {
    bps: u32,
    burst: Option<u32>,
}
impl Cfg {
    fn to_real(self) -> ClientRateLimit {
        let mut l = ClientRateLimit::new(NonZeroU32::new(self.bps).unwrap());
        l.max_burst_bytes = self.burst.map(|b| NonZeroU32::new(b).unwrap());
        l
    }
    /// burst size in bytes as documented: explicit, else a tenth of the rate
    fn burst_bytes(self) -> i128 {
        self.burst.map(|b| b as i128).unwrap_or(self.bps as i128 / 10)
    }
    /// tokens per 100 ms period
    fn quantum(self) -> i128 {
        self.bps as i128 * PERIOD_MS as i128 / 1000
    }
    /// reference validity (Bucket::new docs): positive burst and at least one token per period
    fn valid(self) -> bool {
        self.burst_bytes() > 0 && self.quantum() > 0
    }
}

#[derive(Serialize, Deserialize, Clone, Copy, Debug, PartialEq, Eq, Hash)]
enum Which {
    /// re-send the initial configuration
    Initial,
    Other,
    Unlimited,
    Invalid,
}

#[derive(Serialize, Deserialize, Clone, Copy, Debug, PartialEq, Eq, Hash)]
enum OpA {
    Adv(u64),
    /// advance to the reference refill instant of a throttled reader (minus `before` ms)
    ToRefill { before: u64 },
    /// one poll_read with a buffer of n bytes; inner has data (fills the buffer) or is pending
    Read { n: u64, inner_ready: bool },
    Reconf(Which),
}

#[derive(Serialize, Deserialize, Clone, Debug)]
struct Scenario {
    initial: Option<Cfg>,
    other: Cfg,
    invalid: Cfg,
}

#[derive(Serialize, Deserialize, Clone, Debug)]
enum Case {
    A { sc: Scenario, ops: Vec<OpA> },
    B { max: i64, bps: i64, period_us: u64, ops: Vec<OpB> },
    /// construction only: from_watcher with this initial configuration
    Construct { cfg: Cfg },
}

// ---------------- reference token bucket (from the statement + Bucket docs) ----------------
#[derive(Clone, Debug)]
struct RefBucket {
    b: i128,
    q: i128,
    p: u128,   // ms
    bps: i128, // tokens per second
    last: u128,
    bal: i128,
    // bound (a): since the limit took effect
    t0: u128,
    total: i128,
    maxchunk: i128,
}
impl RefBucket {
    fn new(b: i128, bps: i128, p: u128, now: u128) -> Self {
        RefBucket { b, q: bps * p as i128 / 1000, p, bps, last: now, bal: b, t0: now, total: 0, maxchunk: 0 }
    }
    fn refill(&mut self, now: u128) {
        let k = (now - self.last) / self.p;
        if k > 0 {
            self.bal = std::cmp::min(self.b, self.bal.saturating_add((k as i128).saturating_mul(self.q)));
            self.last += k * self.p;
        }
    }
    /// first grid instant at which the balance is positive again (None: positive now)
    fn deadline(&self) -> Option<u128> {
        if self.bal > 0 {
            return None;
        }
        let k = (-self.bal) / self.q + 1;
        Some(self.last.saturating_add((k as u128).saturating_mul(self.p)))
    }
    fn take(&mut self, n: i128) {
        self.bal -= n;
        self.total += n;
        self.maxchunk = self.maxchunk.max(n);
    }
    /// statement bound: burst + refill accrued since the limit took effect + one read chunk
    fn bound(&self, now: u128) -> i128 {
        let el = (now - self.t0) as i128;
        // continuous accrual, rounded up: the most generous reading of "refill accrued"
        self.b.saturating_add((self.bps.saturating_mul(el) + 999) / 1000).saturating_add(self.maxchunk)
    }
}

// ---------------- Part A ----------------
#[derive(Hash, PartialEq, Eq, Clone, Debug)]
struct KeyA {
    limit: Option<(Cfg, i128, u128, i128, i128)>, // cfg, balance, phase, capped slack, maxchunk
    pending_cfg: Option<Option<Cfg>>,
    /// an (ignored) invalid update is waiting to be picked up by the next poll: the implementation has
    /// unconsumed watch state, so this must distinguish states (a seeded change that mishandles the ignored
    /// update was hidden by merging this state with the one without a pending update)
    pending_invalid: bool,
    obligation: Option<(u128, bool)>, // (deadline - now, woken)
    real_fill: Option<i64>,
    real_sleep: bool,
}

fn new_rt() -> tokio::runtime::Runtime {
    tokio::runtime::Builder::new_current_thread().enable_time().start_paused(true).build().unwrap()
}
thread_local! {
    static RT_CELL: std::cell::RefCell<tokio::runtime::Runtime> = std::cell::RefCell::new(new_rt());
    /// virtual milliseconds this thread's runtime has been advanced by so far
    static ADVANCED: std::cell::Cell<u128> = const { std::cell::Cell::new(0) };
}
/// Largest single advance (about 1100 years): keeps `Instant` arithmetic of the paused clock in range.
const MAX_ADVANCE_MS: u64 = 1 << 45;
/// Run `f` on this thread's paused-clock runtime; the runtime is replaced before its virtual clock
/// could leave the range of `Instant` (machinery only: every case measures time relative to its start).
fn with_rt<T>(f: impl FnOnce(&tokio::runtime::Runtime) -> T) -> T {
    if ADVANCED.with(|a| a.get()) > (1u128 << 52) {
        RT_CELL.with(|c| *c.borrow_mut() = new_rt());
        ADVANCED.with(|a| a.set(0));
    }
    RT_CELL.with(|c| f(&c.borrow()))
}
async fn advance_ms(ms: u64) {
    ADVANCED.with(|a| a.set(a.get() + ms as u128));
    let d = Duration::from_millis(ms);
    tokio::time::advance(d).await;
}

fn parse_real(dbg: &str) -> (Option<i64>, bool) {
    // Debug of RateLimited { inner, bucket: Some(Bucket { fill: N, .. }) | None, bucket_refilled: Some(..) | None, .. }
    let fill = dbg.find("bucket: Some(Bucket { fill: ").map(|i| {
        let s = &dbg[i + "bucket: Some(Bucket { fill: ".len()..];
        let end = s.find(',').unwrap();
        s[..end].parse::<i64>().unwrap_or_else(|_| machinery_error("cannot parse Bucket Debug output"))
    });
    if fill.is_none() && !dbg.contains("bucket: None") {
        machinery_error("RateLimited Debug output has an unexpected shape");
    }
    let sleep = if dbg.contains("bucket_refilled: None") {
        false
    } else if dbg.contains("bucket_refilled: Some(") {
        true
    } else {
        machinery_error("RateLimited Debug output has an unexpected shape (bucket_refilled)")
    };
    (fill, sleep)
}

struct ModelA {
    pending_invalid: bool,
    limit: Option<(Cfg, RefBucket)>,
    pending_cfg: Option<Option<Cfg>>,
    /// a throttled Pending was returned: the registered wake-up must fire by this instant
    obligation: Option<u128>,
    t: u128,
}

/// Execute a history against the real reader and the reference model. Err(text) = discrepancy at the last op.
fn exec_a(ctx: &Ctx, sc: &Scenario, ops: &[OpA], slack_cap: i128) -> Result<KeyA, String> {
    let r = quiet_catch(|| {
        with_rt(|rt| {
            rt.block_on(async {
                let start = Instant::now();
                let (tx, rx) = tokio::sync::watch::channel(sc.initial.map(Cfg::to_real));
                let inner = Inner::default();
                let mut lim = match Limited::from_watcher(inner.clone(), rx) {
                    Ok(l) => l,
                    Err(e) => return Err(format!("from_watcher rejected a valid initial configuration: {e:?}")),
                };
                let mut m = ModelA { limit: sc.initial.map(|c| (c, RefBucket::new(c.burst_bytes(), c.bps as i128, PERIOD_MS as u128, 0))), pending_cfg: None, pending_invalid: false, obligation: None, t: 0 };
                let wk = Arc::new(CountWaker(AtomicU64::new(0)));
                let waker = Waker::from(wk.clone());
                let last = ops.len().saturating_sub(1);
                for (i, op) in ops.iter().enumerate() {
                    let is_last = i == last;
                    match *op {
                        OpA::Adv(_) | OpA::ToRefill { .. } => {
                            let ms = match *op {
                                OpA::Adv(ms) => ms as u128,
                                OpA::ToRefill { before } => {
                                    // only meaningful while the reference bucket is empty
                                    let mut d = 0;
                                    if let Some((_, b)) = &mut m.limit {
                                        b.refill(m.t);
                                        if let Some(dl) = b.deadline() {
                                            d = (dl - m.t).saturating_sub(before as u128);
                                        }
                                    }
                                    d
                                }
                                _ => unreachable!(),
                            };
                            if ms > 0 {
                                advance_ms(ms as u64).await;
                            }
                            m.t += ms;
                            let real_now = Instant::now().duration_since(start).as_millis();
                            if real_now != m.t {
                                machinery_error(&format!("paused clock at {real_now} ms, model at {} ms", m.t));
                            }
                            if let Some(dl) = m.obligation {
                                if m.t >= dl && wk.0.load(Ordering::SeqCst) == 0 {
                                    return Err(format!("throttled reader was not woken by the refill instant (t={} ms, refill due at {} ms): no wake-up registered or registered too late", m.t, dl));
                                }
                            }
                            if is_last {
                                ctx.eval(if m.obligation.is_some() { "advance:while throttled" } else { "advance:idle" }, if m.obligation.is_some_and(|dl| m.t >= dl) { "woken by refill instant" } else { "time passes" });
                            }
                        }
                        OpA::Reconf(w) => {
                            let cfg = match w {
                                Which::Initial => sc.initial,
                                Which::Other => Some(sc.other),
                                Which::Unlimited => None,
                                Which::Invalid => Some(sc.invalid),
                            };
                            tx.send_replace(cfg.map(Cfg::to_real));
                            // an invalid update is not a limit: the previous limit stays in effect
                            if cfg.is_none_or(|c| c.valid()) {
                                m.pending_cfg = Some(cfg);
                                m.pending_invalid = false;
                            } else {
                                // the configuration is a watch value: only the latest update is ever seen, so an
                                // invalid (ignored) update also supersedes a valid one that no poll has picked up yet
                                m.pending_cfg = None;
                                m.pending_invalid = true;
                            }
                            if is_last {
                                ctx.eval("reconfigure", &format!("{w:?}"));
                            }
                        }
                        OpA::Read { n, inner_ready } => {
                            // a (valid) live change takes effect at this poll: fresh full bucket, epoch now
                            m.pending_invalid = false;
                            if let Some(cfg) = m.pending_cfg.take() {
                                m.limit = cfg.map(|c| (c, RefBucket::new(c.burst_bytes(), c.bps as i128, PERIOD_MS as u128, m.t)));
                                m.obligation = None;
                            }
                            inner.0.lock().unwrap().ready = inner_ready;
                            let polled_before = inner.0.lock().unwrap().polled;
                            let mut storage: Vec<u8> = Vec::with_capacity(n as usize);
                            let mut rb = ReadBuf::uninit(&mut storage.spare_capacity_mut()[..n as usize]);
                            let woken_before = wk.0.load(Ordering::SeqCst);
                            let res = Pin::new(&mut lim).poll_read(&mut Context::from_waker(&waker), &mut rb);
                            let got = rb.filled().len() as i128;
                            let inner_polled = inner.0.lock().unwrap().polled > polled_before;
                            let class;
                            let outcome;
                            match (&mut m.limit, res) {
                                (_, Poll::Ready(Err(e))) => return Err(format!("poll_read returned an error: {e}")),
                                (None, Poll::Ready(Ok(()))) => {
                                    if !inner_ready || got != n as i128 {
                                        return Err("unlimited reader did not pass the inner read through".into());
                                    }
                                    class = "read:unlimited";
                                    outcome = "passed through";
                                }
                                (None, Poll::Pending) => {
                                    if inner_ready || !inner_polled {
                                        return Err("unlimited reader is pending although the inner reader has data".into());
                                    }
                                    class = "read:unlimited";
                                    outcome = "inner pending";
                                }
                                (Some((_, b)), Poll::Ready(Ok(()))) => {
                                    b.refill(m.t);
                                    if !inner_ready || !inner_polled || got != n as i128 {
                                        return Err("limited reader returned data the inner reader did not produce".into());
                                    }
                                    class = if b.bal > 0 { "read:limited,tokens available" } else { "read:limited,bucket empty" };
                                    b.take(got);
                                    m.obligation = None;
                                    if b.total > b.bound(m.t) {
                                        return Err(format!(
                                            "read {} bytes since the limit took effect {} ms ago; burst {} + accrued refill {} + one chunk {} = {}",
                                            b.total,
                                            m.t - b.t0,
                                            b.b,
                                            b.bound(m.t) - b.b - b.maxchunk,
                                            b.maxchunk,
                                            b.bound(m.t)
                                        ));
                                    }
                                    outcome = if b.bal > 0 { "read, tokens left" } else { "read, bucket now empty" };
                                }
                                (Some((_, b)), Poll::Pending) => {
                                    b.refill(m.t);
                                    if inner_polled {
                                        if inner_ready {
                                            return Err("inner reader had data but the read is pending".into());
                                        }
                                        m.obligation = None;
                                        class = "read:limited,inner pending";
                                        outcome = "inner pending";
                                    } else {
                                        // throttled
                                        match b.deadline() {
                                            None => {
                                                return Err(format!("read throttled at t={} ms although the bucket has refilled enough (reference balance {} of burst {})", m.t, b.bal, b.b));
                                            }
                                            Some(dl) => {
                                                m.obligation = Some(dl);
                                                // the waker counter only counts wakes after this registration
                                                let _ = woken_before;
                                                wk.0.store(0, Ordering::SeqCst);
                                            }
                                        }
                                        class = "read:limited,bucket empty";
                                        outcome = "throttled";
                                    }
                                }
                            }
                            if is_last {
                                ctx.eval(class, outcome);
                            }
                        }
                    }
                }
                // canonical state
                let (real_fill, real_sleep) = parse_real(&format!("{lim:?}"));
                let limit = m.limit.as_mut().map(|(c, b)| {
                    b.refill(m.t);
                    let slack = b.bound(m.t) - b.maxchunk - b.total;
                    // beyond `slack_cap` (= depth bound x largest read of the menu) no violation of the
                    // bound is reachable within the horizon, so larger slacks are merged
                    (*c, b.bal, m.t - b.last, slack.min(slack_cap), b.maxchunk)
                });
                Ok(KeyA { limit, pending_cfg: m.pending_cfg, pending_invalid: m.pending_invalid, obligation: m.obligation.map(|d| (d.saturating_sub(m.t), wk.0.load(Ordering::SeqCst) > 0)), real_fill, real_sleep })
            })
        })
    });
    match r {
        Ok(x) => x,
        Err(p) => Err(format!("panic: {p}")),
    }
}

fn menu_a(sc: &Scenario) -> Vec<OpA> {
    let c = sc.initial.unwrap_or(sc.other);
    let (b, q) = (c.burst_bytes() as u64, c.quantum() as u64);
    let mut sizes: Vec<u64> = vec![0, 1, q.saturating_sub(1), q, b, b + 1, 10 * b];
    sizes.retain(|&n| n <= MAX_CHUNK);
    sizes.sort();
    sizes.dedup();
    let mut v = Vec::new();
    for ms in [1, 99, 100, 101, 250, 1000] {
        v.push(OpA::Adv(ms));
    }
    v.push(OpA::ToRefill { before: 0 });
    v.push(OpA::ToRefill { before: 1 });
    for n in sizes {
        v.push(OpA::Read { n, inner_ready: true });
    }
    v.push(OpA::Read { n: b.min(MAX_CHUNK), inner_ready: false });
    for w in [Which::Initial, Which::Other, Which::Unlimited, Which::Invalid] {
        v.push(OpA::Reconf(w));
    }
    v
}

// ---------------- Part B: the public Bucket ----------------
#[derive(Serialize, Deserialize, Clone, Copy, Debug, PartialEq, Eq)]
enum OpB {
    Adv(u64),
    /// advance to the deadline the last `consume` returned
    ToDeadline,
    Consume(u64),
}

fn exec_b(ctx: &Ctx, max: i64, bps: i64, period_us: u64, ops: &[OpB]) -> Result<(), String> {
    let r = quiet_catch(|| {
        with_rt(|rt| {
            rt.block_on(async {
                let start = Instant::now();
                let period = Duration::from_micros(period_us);
                let ref_valid = max > 0 && bps > 0 && period_us > 0;
                let whole_ms = period_us % 1000 == 0 && period_us / 1000 < (1 << 32);
                let mut bucket = match Bucket::new(max, bps, period) {
                    Ok(b) => b,
                    Err(_) => {
                        let q_lt_1 = (bps as i128) * (period_us as i128) < 1_000_000;
                        if ref_valid && whole_ms && !q_lt_1 {
                            return Err(format!("Bucket::new rejected a valid configuration max={max} bps={bps} period={period:?}"));
                        }
                        ctx.eval(if ref_valid { "bucket:config below the timer resolution / <1 token per period" } else { "bucket:invalid config" }, "rejected");
                        return Ok(());
                    }
                };
                if !ref_valid {
                    return Err(format!("Bucket::new accepted max={max} bps={bps} period={period:?}"));
                }
                if ops.is_empty() {
                    ctx.eval("bucket:valid config", "accepted");
                }
                // reference comparison only for whole-millisecond periods (the timer resolution the docs name)
                let mut rb = whole_ms.then(|| RefBucket::new(max as i128, bps as i128, (period_us / 1000) as u128, 0));
                let mut t: u128 = 0;
                let mut deadline: Option<u128> = None; // as returned by the implementation
                let mut conforming = true;
                for (i, op) in ops.iter().enumerate() {
                    let is_last = i + 1 == ops.len();
                    match *op {
                        OpB::Adv(ms) => {
                            advance_ms(ms).await;
                            t += ms as u128;
                            if is_last {
                                ctx.eval("bucket:advance", "time passes");
                            }
                        }
                        OpB::ToDeadline => {
                            if let Some(d) = deadline {
                                if d > t {
                                    let ms = (d - t).min(MAX_ADVANCE_MS as u128) as u64;
                                    advance_ms(ms).await;
                                    t += ms as u128;
                                }
                            }
                            if is_last {
                                ctx.eval("bucket:advance", "to the returned deadline");
                            }
                        }
                        OpB::Consume(n) => {
                            if deadline.is_some_and(|d| t < d) {
                                conforming = false; // the caller did not wait as told: bound (a) no longer applies
                            }
                            if n > i64::MAX as u64 {
                                conforming = false; // no buffer can be that large (isize::MAX): only totality is checked
                            }
                            let res = bucket.consume(n as usize);
                            let nn = (n as usize) as i128;
                            if let Some(b) = &mut rb {
                                b.refill(t);
                                let had = b.bal > 0;
                                b.take(nn);
                                match res {
                                    Ok(()) => {
                                        deadline = None;
                                        if is_last {
                                            ctx.eval(if had { "bucket:consume,tokens available" } else { "bucket:consume,empty" }, "ok");
                                        }
                                    }
                                    Err(d) => {
                                        let d_ms = d.saturating_duration_since(start).as_millis();
                                        // a deadline that is not in the future does not delay the caller
                                        let resume = d_ms.max(t);
                                        match b.deadline() {
                                            None if resume > t => return Err(format!("consume({n}) at t={t} ms told the caller to wait until t={d_ms} ms although tokens remain (reference balance {})", b.bal)),
                                            Some(dr) if resume > dr.max(t) => return Err(format!("consume({n}) at t={t} ms: wait until {d_ms} ms, but the bucket has refilled enough at {dr} ms")),
                                            _ => {}
                                        }
                                        // waits beyond u32::MAX refill periods (>= 49 days at the 1 ms minimum period) are outside the
                                        // representable deadline range: the byte bound is not evaluated past such a debt
                                        if b.bal <= 0 && (-b.bal) / b.q + 1 > u32::MAX as i128 {
                                            conforming = false;
                                        }
                                        deadline = Some(d_ms);
                                        if is_last {
                                            ctx.eval(if had { "bucket:consume,tokens available" } else { "bucket:consume,empty" }, "wait until deadline");
                                        }
                                    }
                                }
                                if conforming && b.total > b.bound(t) {
                                    return Err(format!("consumed {} bytes within {} ms of creation by a caller that waited as told; burst {} + accrued + one chunk = {}", b.total, t, b.b, b.bound(t)));
                                }
                            } else {
                                if let Err(d) = res {
                                    deadline = Some(d.saturating_duration_since(start).as_millis());
                                }
                                if is_last {
                                    ctx.eval("bucket:consume,fractional-ms period", "no panic");
                                }
                            }
                        }
                    }
                }
                Ok(())
            })
        })
    });
    match r {
        Ok(x) => x,
        Err(p) => Err(format!("panic: {p}")),
    }
}

fn run_case(ctx: &Ctx, case: &Case) {
    ctx.add_traces(1);
    match case {
        Case::A { sc, ops } => {
            if let Err(e) = exec_a(ctx, sc, ops, i128::MAX) {
                ctx.discrepancy(None, &e, case);
            }
        }
        Case::B { max, bps, period_us, ops } => {
            if let Err(e) = exec_b(ctx, *max, *bps, *period_us, ops) {
                ctx.discrepancy(None, &e, case);
            }
        }
        Case::Construct { cfg } => {
            let r = quiet_catch(|| {
                with_rt(|rt| {
                    rt.block_on(async {
                        let (_tx, rx) = tokio::sync::watch::channel(Some(cfg.to_real()));
                        Limited::from_watcher(Inner::default(), rx).is_ok()
                    })
                })
            });
            match r {
                Err(p) => ctx.discrepancy(None, &format!("from_watcher panicked: {p}"), case),
                Ok(ok) if ok != cfg.valid() => ctx.discrepancy(None, &format!("from_watcher accepted={ok}, reference validity={}", cfg.valid()), case),
                Ok(ok) => ctx.eval("construct", if ok { "accepted" } else { "rejected" }),
            }
        }
    }
}

fn main() {
    let ctx = Ctx::from_args("C09", Level::ModelChecking);
    ctx.set_rule("Part A: per scenario (initial limit, other limit, invalid limit) BFS over histories of {advance 1/99/100/101/250/1000 ms, advance to (1 ms before) the reference refill instant, one poll_read with a buffer of {0,1,q-1,q,B,B+1,10B} bytes and a ready inner reader, one poll_read with a pending inner reader, live reconfiguration to {same, other, unlimited, invalid}} against the real RateLimited reader; states are de-duplicated on (reference bucket balance, phase within the period, capped slack against the bound, pending change, wake obligation, real fill and sleep presence read from Debug). Part B: all sequences up to the depth bound of {advance, advance to returned deadline, consume(n)} on the public Bucket for a grid of (max, bytes/s, period) including i64 extremes. Two cases are distinct when their histories differ.");
    ctx.assume("tokio paused clock is the only time source of the limiter (n0_future::time = tokio::time)");
    ctx.assume("'refill accrued' is read generously as rate x elapsed time (rounded up), 'one read chunk' as the largest chunk read since the limit took effect; 'refilled enough' = the reference bucket balance is positive at a refill instant");
    ctx.min_outcomes(12);
    if let Some(c) = ctx.replay_case::<Case>() {
        run_case(&ctx, &c);
        ctx.finish();
    }

    // ---- construction grid (DESIGN: {1,9,10,11,100,12345,u32::MAX}^2) ----
    let vals = [1u32, 9, 10, 11, 100, 12345, u32::MAX];
    let mut grid = Vec::new();
    for &bps in &vals {
        grid.push(Cfg { bps, burst: None });
        for &b in &vals {
            grid.push(Cfg { bps, burst: Some(b) });
        }
    }
    for c in &grid {
        run_case(&ctx, &Case::Construct { cfg: *c });
    }

    // ---- Part A ----
    let invalid = Cfg { bps: 9, burst: Some(100) };
    let mut scenarios: Vec<Scenario> = Vec::new();
    let quick_cfgs = [Cfg { bps: 100, burst: Some(10) }, Cfg { bps: 10, burst: Some(1) }, Cfg { bps: 100, burst: Some(11) }, Cfg { bps: 12345, burst: None }, Cfg { bps: 100, burst: Some(100) }, Cfg { bps: u32::MAX, burst: Some(12345) }];
    let thorough_cfgs: Vec<Cfg> = grid.iter().copied().filter(|c| c.valid()).collect();
    let cfgs: Vec<Cfg> = if ctx.thorough() { thorough_cfgs } else { quick_cfgs.to_vec() };
    for (i, c) in cfgs.iter().enumerate() {
        let other = cfgs[(i + 1) % cfgs.len()];
        scenarios.push(Scenario { initial: Some(*c), other, invalid });
    }
    scenarios.push(Scenario { initial: None, other: Cfg { bps: 100, burst: Some(10) }, invalid });
    let depth = ctx.pick(5, 6);
    let max_states = ctx.pick(40_000, 400_000);
    ctx.bound("partA_scenarios", scenarios.len());
    ctx.bound("partA_depth", depth);
    ctx.bound("partA_state_cap_per_scenario", max_states);
    let mut total_states = 0u64;
    let mut depths = Vec::new();
    let part_a_start = std::time::Instant::now(); // reporting only
    for sc in &scenarios {
        let m = menu_a(sc);
        ctx.sample(&format!("scenario {:?}", sc.initial), Case::A { sc: sc.clone(), ops: m.iter().copied().take(4).collect() });
        let menu = |_h: &[OpA]| m.clone();
        let largest = m.iter().filter_map(|o| if let OpA::Read { n, .. } = o { Some(*n as i128) } else { None }).max().unwrap_or(0);
        let slack_cap = depth as i128 * largest + 1;
        let exec = |h: &[OpA]| -> Option<Step<KeyA>> {
            match exec_a(&ctx, sc, h, slack_cap) {
                Ok(key) => Some(Step { key, expand: true }),
                Err(e) => {
                    ctx.discrepancy(None, &e, Case::A { sc: sc.clone(), ops: h.to_vec() });
                    None
                }
            }
        };
        let (st, d) = bfs_histories(&ctx, &menu, &exec, depth, max_states);
        total_states += st;
        depths.push(d);
        if ctx.violations() > 0 {
            break;
        }
    }
    ctx.bound("partA_states", total_states);
    ctx.extra("partA_wall_s", part_a_start.elapsed().as_secs_f64());
    ctx.bound("partA_depth_completed_per_scenario", depths);

    // ---- Part B ----
    if ctx.violations() == 0 {
        let maxes = [1i64, 10, 12345, i64::MAX];
        let rates = [1i64, 9, 10, 1000, u32::MAX as i64, i64::MAX];
        let periods_us = [1_000u64, 100_000, 1_000_000, 1_500, 999, 0, (1u64 << 32) * 1000, ((1u64 << 32) + 1) * 1000];
        let mut cases = Vec::new();
        let depth_regular = ctx.pick(3, 4);
        for &max in maxes.iter().chain([0i64, -1].iter()) {
            for &bps in rates.iter().chain([0i64, -5].iter()) {
                for &period_us in &periods_us {
                    if max <= 0 || bps <= 0 || period_us == 0 {
                        // reference-invalid configuration: construction only
                        cases.push(Case::B { max, bps, period_us, ops: vec![] });
                        continue;
                    }
                    let q = ((bps as i128) * (period_us as i128) / 1_000_000).clamp(0, i64::MAX as i128) as u64;
                    let p_ms = (period_us / 1000).max(1);
                    let mut ops = vec![OpB::Adv(1), OpB::Adv(p_ms.min(MAX_ADVANCE_MS)), OpB::Adv(p_ms.saturating_mul(1001).min(1 << 40)), OpB::Adv((1u64 << 32) + 5), OpB::ToDeadline];
                    if p_ms > 1 {
                        ops.push(OpB::Adv((p_ms - 1).min(MAX_ADVANCE_MS)));
                    }
                    let mut ns = vec![0u64, 1, q, max as u64, (max as u64).saturating_add(1), i64::MAX as u64, u64::MAX];
                    ns.sort();
                    ns.dedup();
                    ops.extend(ns.into_iter().map(OpB::Consume));
                    // whole-millisecond periods the timer can represent get the full depth, exotic ones depth 2
                    let regular = matches!(period_us, 1_000 | 100_000 | 1_000_000);
                    for seq in sequences_up_to(&ops, if regular { depth_regular } else { 2 }) {
                        cases.push(Case::B { max, bps, period_us, ops: seq });
                    }
                }
            }
        }
        ctx.bound("partB_cases", cases.len());
        ctx.bound("partB_depth", format!("{} for periods 1/100/1000 ms, 2 for the exotic periods, 0 for invalid configurations", depth_regular));
        for c in cases.iter().step_by((cases.len() / 6).max(1)) {
            ctx.sample(&format!("{c:?}").chars().take(48).collect::<String>(), c);
        }
        ctx.add_transitions(cases.iter().map(|c| if let Case::B { ops, .. } = c { ops.len() as u64 } else { 0 }).sum());
        ctx.add_states(cases.len() as u64);
        par_for_each(&cases, |c| run_case(&ctx, c));
    }
    ctx.finish();
}
