//! C12 Relay auth token extraction follows its documented rules — E0 exhaustive input enumeration of the public
//! `ClientRequest::auth_token`.
//!
//! Reference (from the statement):
//!   R1 walk the Authorization headers in order; the first whose scheme is `Bearer` (ASCII case-insensitive) gives the token;
//!   R2 a header value that is not text ends the search with no token (later headers and the query are not consulted);
//!   R3 otherwise the first `token` query parameter, form-decoded;
//!   R4 otherwise none.
//! Where the statement leaves the reading of a header value open (what "text" is for valid non-ASCII UTF-8; how
//! `scheme SP token` is split when spacing is irregular) the oracle computes the result under every reading and accepts
//! any of them; for regular inputs all readings coincide and the expectation is exact.
use http::header::{AUTHORIZATION, HeaderValue};
use iroh_base::SecretKey;
use iroh_relay::{http::ProtocolVersion, server::ClientRequest};
use serde::{Deserialize, Serialize};
use std::collections::BTreeSet;
use vh_engine::*;

#[derive(Serialize, Deserialize, Clone, Debug)]
struct Case {
    /// Authorization header values (hex of the raw bytes), in order
    headers: Vec<String>,
    /// query string (None = URI without '?')
    query: Option<String>,
}

// ---------- reference ----------
#[derive(Clone, Copy, PartialEq)]
enum TextRule {
    /// text = visible ASCII, SP, HTAB
    Ascii,
    /// text = any valid UTF-8
    Utf8,
}
#[derive(Clone, Copy, PartialEq)]
enum SplitRule {
    /// scheme = everything before the first SP, token = everything after it; no SP = no scheme/token pair
    FirstSpace,
    /// RFC-style: surrounding whitespace ignored, scheme and token separated by a run of SP/HTAB; a lone scheme has an empty token
    Trimmed,
}
enum Hdr {
    NotText,
    Other,
    Bearer(String),
}
fn read_header(raw: &[u8], t: TextRule, s: SplitRule) -> Hdr {
    let Ok(text) = std::str::from_utf8(raw) else {
        return Hdr::NotText;
    };
    if t == TextRule::Ascii && !raw.iter().all(|b| *b == b'\t' || (0x20..=0x7e).contains(b)) {
        return Hdr::NotText;
    }
    let (scheme, token) = match s {
        SplitRule::FirstSpace => match text.find(' ') {
            Some(i) => (&text[..i], text[i + 1..].to_string()),
            None => return Hdr::Other,
        },
        SplitRule::Trimmed => {
            let ws = |c: char| c == ' ' || c == '\t';
            let t = text.trim_matches(ws);
            match t.find(ws) {
                Some(i) => (&t[..i], t[i..].trim_start_matches(ws).to_string()),
                None => (t, String::new()),
            }
        }
    };
    if scheme.len() == 6 && scheme.bytes().zip(b"bearer").all(|(a, b)| a.to_ascii_lowercase() == *b) {
        Hdr::Bearer(token)
    } else {
        Hdr::Other
    }
}
/// application/x-www-form-urlencoded parsing (WHATWG): split on '&', skip empty pieces, split at the first '=',
/// '+' is a space, %XX is a byte (anything else stays literal), bytes are decoded as UTF-8 lossily.
fn form_decode(s: &str) -> String {
    let b = s.as_bytes();
    let mut out = Vec::with_capacity(b.len());
    let hexv = |c: u8| (c as char).to_digit(16).map(|d| d as u8);
    let mut i = 0;
    while i < b.len() {
        match b[i] {
            b'+' => out.push(b' '),
            b'%' if i + 2 < b.len() && hexv(b[i + 1]).is_some() && hexv(b[i + 2]).is_some() => {
                out.push(hexv(b[i + 1]).unwrap() << 4 | hexv(b[i + 2]).unwrap());
                i += 2;
            }
            c => out.push(c),
        }
        i += 1;
    }
    String::from_utf8_lossy(&out).into_owned()
}
fn ref_query_token(query: Option<&str>) -> Option<String> {
    for piece in query?.split('&') {
        if piece.is_empty() {
            continue;
        }
        let (n, v) = match piece.find('=') {
            Some(i) => (&piece[..i], &piece[i + 1..]),
            None => (piece, ""),
        };
        if form_decode(n) == "token" {
            return Some(form_decode(v));
        }
    }
    None
}
fn ref_token(headers: &[Vec<u8>], query: Option<&str>, t: TextRule, s: SplitRule) -> (Option<String>, &'static str) {
    for h in headers {
        match read_header(h, t, s) {
            Hdr::NotText => return (None, "aborted-by-non-text-header"),
            Hdr::Bearer(tok) => return (Some(tok), "bearer-header"),
            Hdr::Other => {}
        }
    }
    match ref_query_token(query) {
        Some(v) => (Some(v), "query-token"),
        None => (None, "none"),
    }
}

fn run_case(ctx: &Ctx, case: &Case) {
    match quiet_catch(|| run_inner(case)) {
        Ok(Ok((class, outcome))) => ctx.eval(&class, &outcome),
        Ok(Err(msg)) => ctx.discrepancy(None, &msg, case),
        Err(p) => ctx.discrepancy(None, &format!("panic: {p}"), case),
    }
}

fn run_inner(case: &Case) -> Result<(String, String), String> {
    let raw: Vec<Vec<u8>> = case.headers.iter().map(|h| unhex(h)).collect();
    let uri = match &case.query {
        None => "/relay".to_string(),
        Some(q) => format!("/relay?{q}"),
    };
    let mut b = http::Request::builder().method("GET").uri(&uri);
    for h in &raw {
        let v = HeaderValue::from_bytes(h).map_err(|e| format!("MACHINERY: header menu item not a legal header value: {e}"))?;
        b = b.header(AUTHORIZATION, v);
    }
    // an unrelated header must never matter
    b = b.header("x-authorization", "Bearer decoy").header("proxy-authorization", "Bearer decoy2");
    let (parts, ()) = b.body(()).map_err(|e| format!("MACHINERY: request not constructible: {e}"))?.into_parts();
    let id = SecretKey::from_bytes(&[7u8; 32]).public();
    let req = ClientRequest::new(id, ProtocolVersion::V2, parts);
    let got = req.auth_token();
    if req.auth_token() != got {
        return Err("auth_token is not stable across calls".into());
    }

    let mut allowed: BTreeSet<Option<String>> = BTreeSet::new();
    let mut kinds: BTreeSet<&'static str> = BTreeSet::new();
    for t in [TextRule::Ascii, TextRule::Utf8] {
        for s in [SplitRule::FirstSpace, SplitRule::Trimmed] {
            let (r, k) = ref_token(&raw, case.query.as_deref(), t, s);
            allowed.insert(r);
            kinds.insert(k);
        }
    }
    let exact = allowed.len() == 1;
    let class = format!("{} expected:{}", if exact { "exact" } else { "open-reading" }, kinds.iter().copied().collect::<Vec<_>>().join("|"));
    if !allowed.contains(&got) {
        return Err(format!(
            "auth_token() = {got:?}, the rules allow {:?} (headers {:?}, query {:?})",
            allowed,
            raw.iter().map(|h| String::from_utf8_lossy(h).into_owned()).collect::<Vec<_>>(),
            case.query
        ));
    }
    // which of the readings did the implementation follow (evidence only)
    let (strict, _) = ref_token(&raw, case.query.as_deref(), TextRule::Ascii, SplitRule::FirstSpace);
    let outcome = match &got {
        None => "no token".to_string(),
        Some(t) if t.is_empty() => "empty token".to_string(),
        Some(_) => "token".to_string(),
    } + if exact { "" } else if got == strict { " (ascii-text, first-space reading)" } else { " (other reading)" };
    Ok((class, outcome))
}

fn header_menu() -> Vec<Vec<u8>> {
    vec![
        b"Bearer abc".to_vec(),
        b"bearer abc2".to_vec(),
        b"BEARER ABC3".to_vec(),
        b"BeArEr x y".to_vec(),
        b"Basic dXNlcjpwdw==".to_vec(),
        b"Digest bearer".to_vec(),
        b"Bearer2 nope".to_vec(),
        b"Bearertok".to_vec(),
        b"".to_vec(),
        b"Bearer ".to_vec(),
        // irregular spacing: the statement does not fix the reading
        b"Bearer".to_vec(),
        b"Bearer  dbl".to_vec(),
        b" Bearer lead".to_vec(),
        b"Bearer\ttab".to_vec(),
        // non-ASCII: valid UTF-8 (reading open), invalid UTF-8 / obs-text (must end the search)
        "Bearer t\u{e9}".as_bytes().to_vec(),
        b"Bearer \xff".to_vec(),
        b"Basic \x80\xfe".to_vec(),
        b"\xa0".to_vec(),
    ]
}
fn query_menu() -> Vec<Option<String>> {
    let mut v: Vec<Option<String>> = vec![None];
    for q in [
        "",
        "token=q1",
        "token=q1&token=q2",
        "a=b&token=q3",
        "token=a%20b+c%2B",
        "token=",
        "token",
        "Token=x",
        "TOKEN=x&token=lower",
        "%74oken=enc",
        "tokens=x&xtoken=y",
        "a=token&b=c",
        "token=%ff%zz%4",
        "token==x&",
        "&&token=amp",
        "token=x;token=y",
        "to+ken=sp&token%20=sp2",
        "a=1&b=2",
    ] {
        v.push(Some(q.to_string()));
    }
    v
}

fn main() {
    let ctx = Ctx::from_args("C12", Level::Exploration);
    let menu = header_menu();
    let queries = query_menu();
    ctx.set_rule("every sequence of <= 3 (thorough: 4) Authorization header values from an 18-item menu (case variants, other schemes, no/empty/double/leading/tab spacing, valid non-ASCII UTF-8, invalid UTF-8, obs-text) x 19 query strings (absent, empty, repeated, encoded, empty value, no '=', case variants, encoded name, look-alikes, malformed escapes, empty pieces); distinct = (exact|open-reading, expected source of the token) x observed kind");
    ctx.assume("where the statement leaves the reading open (valid non-ASCII UTF-8 as 'text'; irregular spacing between scheme and token) every reading's result is accepted; 'form-decoded' = WHATWG application/x-www-form-urlencoded parsing");
    let max_headers: usize = ctx.pick(3, 4);
    ctx.bound("max_headers", max_headers);
    ctx.bound("header_menu", menu.len());
    ctx.bound("query_menu", queries.len());
    ctx.min_outcomes(8);
    if let Some(c) = ctx.replay_case::<Case>() {
        run_case(&ctx, &c);
        ctx.finish();
    }
    let idx: Vec<usize> = (0..menu.len()).collect();
    let mut cases = Vec::new();
    for seq in sequences_up_to(&idx, max_headers) {
        for q in &queries {
            cases.push(Case { headers: seq.iter().map(|&i| hex(&menu[i])).collect(), query: q.clone() });
        }
    }
    for c in cases.iter().step_by((cases.len() / 11).max(1)) {
        ctx.sample(&format!("h{}-q{:?}", c.headers.join(","), c.query).chars().take(60).collect::<String>(), c);
    }
    par_for_each(&cases, |c| run_case(&ctx, c));
    ctx.finish();
}
