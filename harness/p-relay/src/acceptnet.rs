//! Shared scenario for C07/C08: the real `RelayService` accept path (handshake, admission,
//! registration, per-connection actor) over in-memory streams, with a harness byte pump between
//! the server end and a real websocket client end so that the connection can be cut after exactly
//! k server bytes / j client bytes, and a scripted access policy that logs every callback.

use iroh_base::{EndpointId, SecretKey};
use iroh_relay::http::ProtocolVersion;
use iroh_relay::server::{Access, AccessControl, ClientRequest, ConnectionId, DynAccessControl, Handlers, Metrics, RelayService};
use iroh_relay::verif::c07::ClientWs;
use iroh_relay::KeyCache;
use serde::{Deserialize, Serialize};
use std::sync::atomic::{AtomicBool, AtomicU64, Ordering::SeqCst};
use std::sync::{Arc, Mutex};
use tokio::io::{AsyncReadExt, AsyncWriteExt, DuplexStream};

#[derive(Clone, Copy, Serialize, Deserialize, Debug, PartialEq, Eq, Hash, PartialOrd, Ord)]
pub enum Decision {
    Allow,
    Deny,
    DenyReason,
}

#[derive(Debug, Clone, PartialEq, Eq)]
pub enum Ev {
    Connect { id: EndpointId, conn: ConnectionId, allowed: bool },
    Disconnect { id: EndpointId, conn: ConnectionId },
}

/// Scripted access policy: decisions are consumed in order (last one repeats); an optional gate
/// delays the decision until the harness opens it.
#[derive(Debug)]
pub struct Policy {
    pub log: Mutex<Vec<Ev>>,
    pub decisions: Mutex<Vec<Decision>>,
    pub delayed: AtomicBool,
    pub gate: tokio::sync::Notify,
    pub deciding: AtomicU64,
}

impl Policy {
    pub fn new(decisions: Vec<Decision>, delayed: bool) -> Arc<Self> {
        Arc::new(Policy { log: Mutex::new(vec![]), decisions: Mutex::new(decisions), delayed: AtomicBool::new(delayed), gate: tokio::sync::Notify::new(), deciding: AtomicU64::new(0) })
    }
}

impl AccessControl for Policy {
    async fn on_connect(&self, request: &ClientRequest) -> Access {
        if self.delayed.load(SeqCst) {
            self.deciding.fetch_add(1, SeqCst);
            self.gate.notified().await;
        }
        let d = {
            let mut g = self.decisions.lock().unwrap();
            if g.len() > 1 { g.remove(0) } else { g[0] }
        };
        self.log.lock().unwrap().push(Ev::Connect { id: request.endpoint_id(), conn: request.connection_id(), allowed: d == Decision::Allow });
        match d {
            Decision::Allow => Access::Allow,
            Decision::Deny => Access::Deny { reason: None },
            Decision::DenyReason => Access::Deny { reason: Some("policy says no".into()) },
        }
    }
    fn on_disconnect(&self, endpoint_id: EndpointId, connection_id: ConnectionId) {
        self.log.lock().unwrap().push(Ev::Disconnect { id: endpoint_id, conn: connection_id });
    }
}

/// Which direction's byte count triggers the cut.
#[derive(Clone, Copy, Serialize, Deserialize, Debug, PartialEq, Eq, Hash, PartialOrd, Ord)]
pub enum Cut {
    None,
    /// cut the connection once exactly k bytes went server -> client
    S2C(u64),
    /// cut the connection once exactly j bytes went client -> server
    C2S(u64),
}

#[derive(Default, Debug)]
pub struct PumpStats {
    pub s2c: AtomicU64,
    pub c2s: AtomicU64,
    pub cut_done: AtomicBool,
    /// when set, the pump stops forwarding server -> client bytes (server writes back up)
    pub stall_s2c: AtomicBool,
}

/// Forwards bytes between the two in-memory pipes until the cut point, then drops both.
pub async fn pump(mut srv: DuplexStream, mut cli: DuplexStream, cut: Cut, stats: Arc<PumpStats>) {
    let mut bs = [0u8; 256];
    let mut bc = [0u8; 256];
    let mut s_open = true;
    let mut c_open = true;
    let hit = |stats: &PumpStats| match cut {
        Cut::None => false,
        Cut::S2C(k) => stats.s2c.load(SeqCst) >= k,
        Cut::C2S(j) => stats.c2s.load(SeqCst) >= j,
    };
    loop {
        if hit(&stats) {
            stats.cut_done.store(true, SeqCst);
            return; // drops both pipes: peers see EOF on read and BrokenPipe on write
        }
        if !s_open && !c_open {
            return;
        }
        let lim_s = match cut {
            Cut::S2C(k) => ((k - stats.s2c.load(SeqCst)) as usize).min(bs.len()),
            _ => bs.len(),
        };
        let lim_c = match cut {
            Cut::C2S(j) => ((j - stats.c2s.load(SeqCst)) as usize).min(bc.len()),
            _ => bc.len(),
        };
        let stalled = stats.stall_s2c.load(SeqCst);
        tokio::select! {
            biased;
            r = srv.read(&mut bs[..lim_s]), if s_open && !stalled => match r {
                Ok(0) | Err(_) => { s_open = false; let _ = cli.shutdown().await; }
                Ok(n) => { stats.s2c.fetch_add(n as u64, SeqCst); if cli.write_all(&bs[..n]).await.is_err() { c_open = false; } }
            },
            r = cli.read(&mut bc[..lim_c]), if c_open => match r {
                Ok(0) | Err(_) => { c_open = false; let _ = srv.shutdown().await; }
                Ok(n) => { stats.c2s.fetch_add(n as u64, SeqCst); if srv.write_all(&bc[..n]).await.is_err() { s_open = false; } }
            },
            _ = tokio::time::sleep(std::time::Duration::from_millis(50)), if stalled => {}
        }
    }
}

pub fn secret(i: usize) -> SecretKey {
    SecretKey::from_bytes(&[(i as u8) + 1; 32])
}

pub fn new_service(policy: Arc<Policy>) -> RelayService {
    let access: Arc<dyn DynAccessControl> = policy;
    RelayService::new(Handlers::default(), http::HeaderMap::new(), None, KeyCache::new(0), access, Arc::new(Metrics::default()))
}

#[derive(Clone, Copy, Serialize, Deserialize, Debug, PartialEq, Eq, Hash, PartialOrd, Ord)]
pub enum Header {
    None,
    /// not base64 / not postcard: the server fails the handshake
    Garbage,
    /// well-formed key-material proof that cannot verify (no TLS exporter): falls back to the challenge
    Unverifiable,
}

pub struct Link {
    pub accept: tokio::task::JoinHandle<Result<(), String>>,
    pub client: tokio::task::JoinHandle<(Result<(), String>, Option<ClientWs>)>,
    pub pump: tokio::task::JoinHandle<()>,
    pub stats: Arc<PumpStats>,
}

/// Starts one connection attempt: accept task, pump task, client handshake task.
pub fn start_link(service: &RelayService, key_idx: usize, v1: bool, header: Header, cut: Cut) -> Link {
    let (srv_io, pump_s) = tokio::io::duplex(1);
    let (pump_c, cli_io) = tokio::io::duplex(1);
    let stats = Arc::new(PumpStats::default());
    let pump_h = tokio::spawn(pump(pump_s, pump_c, cut, stats.clone()));
    let mut req = http::Request::builder().uri("/relay");
    match header {
        Header::None => {}
        Header::Garbage => req = req.header(iroh_relay::http::CLIENT_AUTH_HEADER, "!!!not-base64!!!"),
        Header::Unverifiable => {
            // postcard(KeyMaterialClientAuth { public_key, signature: [u8;64], key_material_suffix: [u8;16] }) with junk proof
            let mut b = Vec::new();
            b.extend_from_slice(secret(key_idx).public().as_bytes());
            b.push(64); // serde_bytes length prefix (postcard varint)
            b.extend_from_slice(&[7u8; 64]);
            b.extend_from_slice(&[9u8; 16]);
            req = req.header(iroh_relay::http::CLIENT_AUTH_HEADER, data_encoding::BASE64URL_NOPAD.encode(&b));
        }
    }
    let (parts, _) = req.body(()).unwrap().into_parts();
    let version = if v1 { ProtocolVersion::V1 } else { ProtocolVersion::V2 };
    let svc = service.clone();
    let accept = tokio::spawn(async move { svc.verif_accept(srv_io, parts, version).await.map_err(|e| format!("{e:#}")) });
    let sk = secret(key_idx);
    let client = tokio::spawn(async move {
        let mut ws = ClientWs::new(cli_io);
        match ws.handshake(&sk).await {
            Ok(()) => (Ok(()), Some(ws)),
            Err(e) => (Err(format!("{e:#}")), None),
        }
    });
    Link { accept, client, pump: pump_h, stats }
}

pub async fn settle() {
    tokio::time::sleep(std::time::Duration::from_millis(1)).await;
}

pub fn runtime() -> tokio::runtime::Runtime {
    tokio::runtime::Builder::new_current_thread().enable_all().start_paused(true).rng_seed(tokio::runtime::RngSeed::from_bytes(b"verif")).build().unwrap()
}

/// A connected client whose incoming frames are drained continuously by its own task (a client that
/// does not read would stall the relay's writes on the capacity-1 pipes and be cut by the relay's write time-out).
pub struct DrainedClient {
    pub received: Arc<Mutex<Vec<bytes::Bytes>>>,
    pub closed: Arc<AtomicBool>,
    tx: tokio::sync::mpsc::UnboundedSender<bytes::Bytes>,
    _task: tokio::task::JoinHandle<()>,
}

impl DrainedClient {
    pub fn new(mut ws: ClientWs) -> Self {
        let received = Arc::new(Mutex::new(Vec::new()));
        let closed = Arc::new(AtomicBool::new(false));
        let (tx, mut rx) = tokio::sync::mpsc::unbounded_channel::<bytes::Bytes>();
        let (r2, c2) = (received.clone(), closed.clone());
        let task = tokio::spawn(async move {
            loop {
                tokio::select! {
                    biased;
                    f = ws.recv_frame() => match f {
                        Some(Ok(b)) => r2.lock().unwrap().push(b),
                        _ => { c2.store(true, SeqCst); break; }
                    },
                    out = rx.recv() => match out {
                        Some(b) => { if ws.send_frame(b).await.is_err() { c2.store(true, SeqCst); break; } }
                        None => break,
                    },
                }
            }
        });
        DrainedClient { received, closed, tx, _task: task }
    }
    pub fn send(&self, b: bytes::Bytes) {
        let _ = self.tx.send(b);
    }
    /// true iff a frame with this first byte (frame type) and payload suffix was received
    pub fn got(&self, typ: u8, payload: &[u8]) -> bool {
        self.received.lock().unwrap().iter().any(|b| b.first() == Some(&typ) && b[1..] == *payload)
    }
}
