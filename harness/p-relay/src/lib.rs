pub mod acceptnet;
pub mod relaynet;
pub mod relaynet_mc;
